from propdefs.common import seq
from oracles import c13_uri

PROP = "C13"

SRC = "c13_uri.c"
# case index layout of the harness: [0, NCROSS) cross product, [NCROSS, NCROSS+256) byte-value sweeps, then PRNG-derived cases
NCROSS = 5 * 6 * 6 * 14 * 7 * 14  # scheme x userinfo x host x port x path x query classes = 246 960
NSWEEP = 256
Q_ASAN, T_ASAN = NCROSS + NSWEEP + 50000, NCROSS + NSWEEP + 5000000
Q_REL, T_REL = NCROSS + NSWEEP + 20000, NCROSS + NSWEEP + 5000000
# p0 = PRNG-derived inputs per case index beyond the cross product and the sweeps (the thorough stages take 8, which keeps
# the number of fingerprints the driver has to hold at 10 M while 80 M inputs are tried)
DEEP = {0: 8}

CFG = dict(
    stages=[
        seq("asan", "asan", SRC, Q_ASAN, 0),
        seq("rel", "rel", SRC, Q_REL, 0),
        # the same cases in a process whose libc locale is a single-byte one (0xC0-0xFF are letters): results must not change
        seq("asan_latin1", "asan", SRC, Q_ASAN, Q_ASAN, env={"VERIF_LOCALE": "latin1"}),
        seq("asan_deep", "asan", SRC, 0, T_ASAN, params=DEEP),
        seq("rel_deep", "rel", SRC, 0, T_REL, params=DEEP),
        # reentrancy: 2..8 threads run PRNG-derived workloads on this module at once; each thread's digest of everything it
        # observed must equal the digest of the same workload run alone (harness/mt_pure.c); p0 = rounds per thread
        seq("mt_tsan", "tsan", "mt_pure.c", 32, 3200, mode="uri", params={0: 150}, wrap=True, leak=False),
        seq("mt_rel", "rel", "mt_pure.c", 32, 3200, mode="uri", params={0: 1500}, leak=False),
    ],
    rule=("case index < 246960: one element of the full cross product scheme{absent,http,https,s3,a} x userinfo{absent,u,u:p,u:,:p,empty} x "
          "host{example.com,10.0.0.1,[::1],[2001:db8::8:800:200c:417a],empty,h} x port{absent,empty,0,1,80,65535,65536,4294967295,"
          "4294967296,00000000000000000080,2^64-1,2^64,99999999999999999999,8a} x path{absent,/,/a/b,//,/a:b@c,/x:/y,/d/} x "
          "query{absent,empty,k=v,k,k=,=v,a=1&&b=2,&a=1,a=1&,k=v=w,a=1&b&c=&=d&&e==,p=x/y,r=http://e/,a?b=c?}: the text is assembled "
          "into exactly-sized fenced storage and parsed; verdict, all nine component views (content and containment in uri_str) and "
          "the port are compared with what the generator put in; the views are re-compared after the caller's text was wiped; the "
          "query iterator, the list form (dynamic list, and a static list one entry too small) and a reference split are compared "
          "pair by pair incl. offsets; then the builder is run twice from the same components (query string / parameter list; "
          "IPv6 host with brackets) and the result compared with the expected text and fields. The next 256 indices: one case "
          "per byte value b: both encoders on b at every buffer starting length 0..40 (capacity exact-before-growth or exact "
          "worst case), all 256 byte values in one string, 17 repetitions, decode(encode(x)) == x, decoder on '%' b x for all "
          "256 x. Remaining indices are PRNG-derived: URIs from RFC 3986 component alphabets (ports around 65535/2^32/2^64 "
          "with leading zeros, non-digits), encoder inputs (6 byte distributions, 6 capacity shapes, pre-existing content), "
          "decoder inputs with mixed-case and malformed escapes, stand-alone query strings. Encoded output is compared with "
          "an in-harness reference and checked against the output alphabet independently. non-trivial = at least one mechanism "
          "flag observed (see mechanisms_observed); distinct = distinct FNV fingerprints of (kind, class indices or sizes, input "
          "digest). Scheme-less 'host:/path' (empty port) is ambiguous with 'scheme:/path' and only checked for memory safety "
          "and containment. Two input classes on which the pinned tree broke the property (scheme-less text whose first ':' is "
          "a ':/' inside the path or query; no path and a '/' inside the query; both repaired by fix: commits) stay under the "
          "strict oracle with their own keys C13:defect:* (counters regression_class_*). "
          "coverage.python_rechecked_* = urllib.parse.quote / unquote_to_bytes second opinion on a sample."),
    assumptions=["harness allocator never fails (library aborts on OOM)",
                 "URIs contain no '#' fragment and only RFC 3986 characters in each component (the property names no fragment)",
                 "encoders are only given dynamic buffers (aws_byte_buf_reserve requires an allocator)"],
    min_counts={"any": {
        "cross_product_cases": 2 * NCROSS, "byte_value_sweep_cases": 2 * NSWEEP,
        "decode_percent_pair_sweep_calls": 2 * 256 * 320, "encode_start_length_sweep_calls": 2 * 256 * 82,
        "ipv6_brackets_stripped": 1000, "port_above_u32_rejected": 1000, "port_u64_overflow_rejected": 1000,
        "port_above_65535_accepted": 1000, "empty_host": 1000, "query_without_path": 1000,
        "builder_roundtrip_query_string": 1000, "builder_roundtrip_param_list": 1000, "builder_port_10_digits": 100,
        "encode_buffer_grew": 1000, "encode_exact_worst_case_capacity": 1000, "encode_every_byte_escaped": 1000,
        "decode_malformed_rejected": 1000, "decode_mixed_case_hex": 100,
        "iterator_skipped_empty_pair": 1000, "iterator_pair_without_equals": 1000, "iterator_equals_inside_value": 1000,
        "list_form_static_list_too_small_refused": 100, "python_sample_records": 100,
        "regression_class_colon_slash_inputs": 1000, "regression_class_slash_in_query_inputs": 1000,
    }},
    post=c13_uri.post,
)

META = dict(
    level_text=("Generator-oracle monitor: the full cross product of component classes (246 960 URIs: 5 schemes x 6 user-infos x 6 "
                "hosts incl. bracketed IPv6 and empty x 14 ports incl. 65535/65536/2^32-1/2^32/2^64/20 digits x 7 paths x 14 queries) "
                "is assembled, parsed by the real library and compared field by field with what the generator put in, with "
                "containment of every view in the object's own text, independence from the caller's text, the query iterator vs the "
                "list form vs a reference split, and two builder round trips per URI; both percent-encoders are run on every byte "
                "value at every buffer starting length 0..40 and on PRNG-derived strings with pre-existing buffer content, "
                "compared with an in-harness reference, an independent alphabet check and decode(encode(x)) == x; the decoder sees "
                "all 65 536 '%xy' pairs and random malformed escapes. ASan + library pre/post-conditions (Debug) with fenced "
                "exact-size inputs, and the shipped -O2 build. Exploration is the right level: the property quantifies over all "
                "inputs; the cross product is exhaustive at class granularity, everything else is sampled."),
    design_ref="DESIGN.md section 5, C13",
    level_note=("Trusted: the generator's bookkeeping of component offsets, the in-harness reference encoder/decoder/splitter "
                "(second-guessed offline by Python urllib.parse on a recorded sample), gcc ASan, fence canaries. Holds for the "
                "classes and alphabets listed in the evidence rule (no fragments, URIs <= 1 KiB, encoder inputs <= 1 KiB)."),
    technique="runtime monitoring: generator-derived expected fields + reference codec/splitter + canaries + ASan/UBSan",
)

CFG["rule"] += (" " + 'Additions: one random URI in eight has a scheme of 20-300 characters; stage asan_latin1 repeats all cases under a single-byte libc locale; stages mt_tsan/mt_rel; stale aws_last_error()/errno. After the query iterator reported the end it is called once or twice more with the same in/out argument and must keep reporting the end.')
