from propdefs.common import seq

PROP = "C16"

SRC = ["c16_math.c", "c16_variant_sel.c", "c16_variant_ovf.c", "c16_variant_asm.c", "c16_variant_fb.c"]

# |B64|=356, |B32|=214, |B16|=..., |Bfreq|=83: the exhaustive sweep is cases [0,123) of every stage
EXH_BLOCKS = 123
STAGES = 3


def _stage(level, quick, thorough, name=None, isa=""):
    # `rel` library variant for every stage (inline assembly is optimisation dependent, sanitizers would
    # change code generation); the last -O on the command line wins, C16_OPT is cross-checked in the TUs
    return seq(name or "O%d" % level, "rel", SRC, quick, thorough, mode="O%d" % level,
               extra_cflags="-O%d -DC16_OPT=%d%s" % (level, level, isa))


def _cpu_has_v3():
    # the helpers are static inline: they are compiled with the CALLER's target flags. A user translation unit built
    # with -march=native / x86-64-v3 defines __BMI__, __BMI2__, __LZCNT__, __AVX2__ ... and may select other code in
    # the headers (and other instructions for the builtins). Only offered when this CPU can execute it.
    try:
        flags = set()
        for line in open("/proc/cpuinfo"):
            if line.startswith("flags"):
                flags = set(line.split(":", 1)[1].split())
                break
        return {"avx2", "bmi1", "bmi2", "abm", "fma", "movbe", "f16c"} <= flags
    except OSError:
        return False


_V3 = [_stage(2, 8000, 250000, name="O2_v3", isa=" -march=x86-64-v3")] if _cpu_has_v3() else []


CFG = dict(
    stages=[
        _stage(0, 6000, 250000),
        _stage(2, 8000, 250000),
        _stage(3, 8000, 250000),
    ] + _V3 + [
        # several threads converting ticks at once, each on its own frequency pair; digests must equal the single-threaded run
        seq("mt_tsan", "tsan", "mt_pure.c", 32, 3200, mode="clock", params={0: 400}, wrap=True, leak=False),
        seq("mt_rel", "rel", "mt_pure.c", 64, 6400, mode="clock", params={0: 6000}, leak=False),
    ],
    rule=("case = one BLOCK of up to 4096 operand tuples of one kind (bin64: add/mul/sub saturating+checked for u64 and "
          "size_t, min/max u64/i64/size, aws_add_size_checked_varargs; bin32: the u32 helpers, min/max u32/i32/int; small: "
          "min/max u8/i8/u16/i16/float/double; unary: is_power_of_two, round_up_to_power_of_two, clz/ctz x5 widths; "
          "convunit: aws_timestamp_convert; convu64: aws_timestamp_convert_u64 with frequencies 1..10^9). Every tuple is "
          "evaluated by 4 implementations (build-selected, gcc overflow builtins, x86-64 inline asm, portable fallback) "
          "x 3 compilation contexts (thin wrapper; all helpers inlined into one loop; add/mul helpers and convert_u64 inlined "
          "between register barriers holding 13 by-stander values that must come back unchanged) and compared with unsigned __int128 / "
          "bit-loop references, including return code and aws_last_error(). One stage per optimisation level "
          "(-O0/-O2/-O3) = 12 variant x level instances. Cases [0,123) of each stage are the seed-independent EXHAUSTIVE "
          "sweep: all |B64|^2=126736 and |B32|^2=45796 boundary pairs, all 65536 8-bit pairs, 2906 unary boundary "
          "operands, 16 unit pairs x 376 boundary ticks, 83^2 frequency pairs x 36 boundary ticks; later cases are "
          "PRNG-derived (magnitude-stratified operands, operands aimed at MAX/a, MAX-a, a+-d, at the first saturating tick "
          "count, frequencies that divide each other). counters pairs_*/tuples_*/operands_* count tuples; "
          "helper_evaluations counts individual helper calls. non-trivial = the block observed both sides of every "
          "boundary of its kind (binary: overflow AND fit for each of add, mul, sub; unary: a power of two, a zero input, a "
          "sign-bit input and the round-up overflow error; conversion: a saturated and a non-saturated result; small: "
          "signed order != unsigned order and equal operands). distinct = distinct FNV fingerprints of (kind, "
          "optimisation level, all operands of the block)."),
    assumptions=[
        "x86-64, gcc 12: the MSVC, ARM64 and CBMC implementations of math.h cannot be compiled here and are not observed",
        "stage O2_v3 (caller compiled with -march=x86-64-v3) exists only when the CPU running the check has AVX2/BMI1/BMI2/LZCNT/FMA/MOVBE",
        "frequencies passed to aws_timestamp_convert_u64 are in 1..10^9 (the property's range; clock.inl's remainder-part "
        "multiplication is only exact there)",
        "the value left in *r by a checked helper that reports overflow is unspecified (not compared; counted)",
        "`remainder` is pre-set to 0 by the caller as clock.h asks; min/max are not judged on NaN",
    ],
    min_counts={"any": {
        "exhaustive_blocks": EXH_BLOCKS * STAGES,
        "pairs_bin64_exhaustive": 126736 * STAGES,
        "pairs_bin32_exhaustive": 45796 * STAGES,
        "pairs_small_exhaustive": 65536 * STAGES,
        "operands_unary_exhaustive": 2906 * STAGES,
        "tuples_convunit_exhaustive": 6016 * STAGES,
        "tuples_convu64_exhaustive": 248004 * STAGES,
        "helper_evaluations_with_a_literal_operand": 10000000,
        "pairs_bin64_random": 1000000,
        "pairs_bin32_random": 1000000,
        "tuples_convu64_random": 1000000,
        "tuples_convunit_random": 500000,
        "mul_product_eq_max": 30,
        "mul_just_over_max": 30,
        "add_sum_eq_2_pow_w": 30,
        "conv_saturated_in_final_add": 30,
        "conv_remainder_nonzero": 30,
        "conv_remainder_zero_not_divisible": 30,
        "round_up_overflow_error": 9,
    }},
)

META = dict(
    level_text=("Differential monitor against exact arithmetic: every helper of math.h and both timestamp conversions are "
                "run on ALL pairs of a ~350-element boundary set per width (powers of two +-1, MAX-k, floor(MAX/b)+-1, "
                "sqrt(MAX) neighbours) plus tens of millions (quick) to billions (thorough) of stratified and "
                "boundary-aimed random tuples, for four implementations compiled side by side (the build's choice, "
                "overflow builtins, x86-64 inline assembly, portable C), each in three inlining contexts (one under full register pressure) and at -O0, -O2 "
                "and -O3, and compared value, return code and error code against unsigned __int128 references. "
                "Exploration is the right level: the property quantifies over all operand pairs; the oracle is exact per call."),
    design_ref="DESIGN.md section 5, C16",
    level_note=("Trusted: gcc's unsigned __int128 arithmetic and the harness's bit loops. Holds for the operand tuples "
                "evaluated (exhaustive over the boundary sets, sampled elsewhere), for gcc 12 on x86-64 at the three "
                "optimisation levels; MSVC/ARM64/CBMC variants are not observed."),
    technique="runtime monitoring: differential testing of 12 variant x optimisation instances against 128-bit reference arithmetic",
)

CFG["rule"] += (" " + "Additions: 'literal' compilation context (every 64-bit helper with one operand an integer constant expression from a list of 20, as second and as first operand); stages mt_tsan/mt_rel convert ticks from several threads, each on its own frequency pair, and compare with the single-threaded run. Stage O2_v3 repeats the -O2 stage with the variant translation units compiled for -march=x86-64-v3 (the helpers are static inline and take the caller's target flags: __BMI__, __LZCNT__, __AVX2__ defined).")
