from propdefs.common import seq
from oracles import c05_codecs

PROP = "C05"

VEC = {"AWS_COMMON_AVX2": "1"}
PORT = {"AWS_COMMON_AVX2": "0"}
SRC = "c05_codecs.c"
# p0 = CPU path the process has to verify it is on (1 vector, 0 portable); p1 = repetitions of the exhaustive sweeps
# (thorough: fresh random prefixes per repetition); p2 = random chunkings per UTF-8 text.
# The library reads AWS_COMMON_AVX2 once per process, hence one stage per path; same mode string => same inputs.
Q_ASAN, T_ASAN = 100000, 4000000
Q_REL, T_REL = 100000, 4000000

CFG = dict(
    stages=[
        seq("asan_vector", "asan", SRC, Q_ASAN, T_ASAN, params={0: 1, 1: 1, 2: 200}, env=VEC),
        seq("asan_portable", "asan", SRC, Q_ASAN, T_ASAN, params={0: 0, 1: 1, 2: 200}, env=PORT),
        seq("rel_vector", "rel", SRC, Q_REL, T_REL, params={0: 1, 1: 1, 2: 200}, env=VEC),
        seq("rel_portable", "rel", SRC, Q_REL, T_REL, params={0: 0, 1: 1, 2: 200}, env=PORT),
        # several threads using the codecs at once, each on its own buffers (p0 = rounds per thread)
        seq("mt_tsan_vector", "tsan", "c05_mt.c", 64, 6400, params={0: 300}, env=VEC, wrap=True, leak=False),
        seq("mt_tsan_portable", "tsan", "c05_mt.c", 64, 6400, params={0: 300}, env=PORT, wrap=True, leak=False),
        seq("mt_rel_vector", "rel", "c05_mt.c", 64, 6400, params={0: 2000}, env=VEC, leak=False),
        # one text of more than 4 GiB decoded in one call on each CPU path (one process; about 3.3 GiB of real memory)
        seq("giant_vector", "rel", "c05_giant.c", 1, 2, env=VEC, leak=False, nprocs=1, per_proc_timeout=1800),
        seq("giant_portable", "rel", "c05_giant.c", 1, 2, env=PORT, leak=False, nprocs=1, per_proc_timeout=1800),
    ],
    rule=("case = one input (derived from (seed, case index) only, identical in all four stages) pushed through a family of "
          "codec calls. Case indices below 635 are the exhaustive sweeps: every byte value at each of the last 4 positions after "
          "0/4/28/32/36/60/64 well-formed characters (x3 final-quantum shapes), every pair over alphabet+{'=',NUL,'-','_',' ',0x80} "
          "in the last two positions (prefix 0/28/32, zero and non-zero pad bits), '=' and '==' at every position of texts of "
          "4..72,96,100 characters, every binary length 0..200 and 4090..4100 (encode: exact / one-short / larger capacity, "
          "pre-existing len incl. every len 0..40 for inputs <= 24 bytes; round trip; decode), hex lengths 0..200 incl. odd text "
          "lengths and every byte value in 1..4-character texts, all 1-byte UTF-8 texts and lead x second-byte x boundary "
          "continuation bytes, length functions near SIZE_MAX. The other cases are PRNG-derived: base64 encode, decode of "
          "well-formed text, decode of 1-3 mutations of well-formed text, hex encode/append/decode incl. malformed, UTF-8 texts "
          "(boundary code points, surrogates, overlongs, > U+10FFFF, truncations, mutations) compared one-shot vs 1-byte chunks, "
          "all two-way splits, 200 random chunkings with empty chunks, callback abort, reset-and-reuse. Every decode runs twice "
          "into 0xA5- and 0x5A-filled fenced buffers (written-bytes oracle); every result is compared with a strict table-free "
          "RFC 4648 / RFC 3629 reference in the harness. non-trivial = at least one mechanism flag observed (see "
          "mechanisms_observed); distinct = distinct FNV fingerprints of (kind, sizes, mutations, input digest). Each stage runs "
          "with AWS_COMMON_AVX2 fixed and verifies its CPU path (cpuid, dispatch predicate, behavioural probe); "
          "coverage.cross_path compares per-64-case digests of inputs and of (verdict, length, bytes) between the two paths; "
          "coverage.python_rechecked_* is the Python stdlib second opinion on a recorded sample. mt_* stages: case = 2..8 threads, "
          "each with private PRNG, input and output buffers, doing 300 (TSan) / 2000 (-O2) rounds of base64 / hex encode -> "
          "reference -> decode -> input, malformed-text refusal and UTF-8 validation with a decoder of its own, concurrently; "
          "every result must equal the single-threaded reference (no shared scratch state), ThreadSanitizer from the build."),
    assumptions=["host CPU supports AVX2 (otherwise the run is inconclusive, never a pass)",
                 "AWS_COMMON_AVX2 is honoured by aws_common_private_has_avx2 (verified per process by a behavioural probe)",
                 "harness allocator never fails (library aborts on OOM)",
                 "hex encode is only called with an empty output buffer (documented assumption of aws_hex_encode)"],
    min_counts={"any": {
        "path_confirmed_vector_asan": 1, "path_confirmed_portable_asan": 1,
        "path_confirmed_vector_rel": 1, "path_confirmed_portable_rel": 1,
        # the exhaustive sweeps must have been executed completely by all four stages
        "sweep_last4_inputs": 4 * 7 * 4 * 3 * 256, "sweep_pair_inputs": 4 * 3 * 2 * 4900, "sweep_b64_lengths": 4 * 212,
        "sweep_hex_lengths": 4 * 201, "sweep_hex_byte_inputs": 4 * 10 * 256, "sweep_utf8_texts": 4 * 37376,
        "sweep_equals_inputs": 4 * 1740, "sweep_length_fn": 4,
        "b64_decode_reject_pad_bits": 100, "b64_decode_reject_pad_position": 100, "b64_decode_reject_alphabet": 100,
        "b64_encode_appended_at_len": 100, "short_buffer_refused_nothing_written": 100, "hex_decode_odd_length": 100,
        "utf8_split_inside_codepoint": 100, "b64_input_4090_4100": 40,
        "mt_codec_calls_concurrent": 100000, "mt_four_or_more_threads": 30, "base64_texts_above_4GiB_decoded": 2, "hex_inputs_above_4GiB_encoded": 2, "utf8_texts_above_2GiB_decoded_in_one_call": 2,
    }},
    post=c05_codecs.post,
)

META = dict(
    level_text=("Reference-codec monitor: every base64/hex result of the real library is compared with a strict, table-free "
                "RFC 4648 codec written for the harness, over exhaustive final-quantum sweeps (every byte value in the last four "
                "positions, every symbol pair in the last two, '=' everywhere, every length 0..200 and 4090..4100) plus "
                "tens of thousands (quick) to millions (thorough) of PRNG-derived inputs and mutations, once with AWS_COMMON_AVX2=1 "
                "and once with =0, each process proving by cpuid + dispatch predicate + behavioural probe which path it is on. "
                "Decoders run twice into differently pre-filled fenced buffers, so a reported-but-unwritten byte is visible; "
                "capacities exact / one short / larger and pre-existing lengths are exercised; the two paths are compared "
                "digest-by-digest on identical inputs. UTF-8: one-shot result vs all 1-byte chunkings, all two-way splits and "
                "200 random chunkings per text. ASan + library pre/post-conditions (Debug) and the shipped -O2 build. "
                "Exploration is the right level: the property quantifies over all inputs; the sweeps are exhaustive for the "
                "final quantum, everything else is sampled."),
    design_ref="DESIGN.md section 5, C05",
    level_note=("Trusted: the in-harness reference codecs (second-guessed offline by Python base64/binascii/bytes.decode on a "
                "recorded sample), gcc ASan, the fence canaries. Holds for the inputs generated (<= 4100 binary bytes, UTF-8 texts "
                "<= 56 bytes) on an AVX2 host; on a host without AVX2 the check is inconclusive. The UTF-8 model accepts 4-byte "
                "forms above U+10FFFF exactly like the library does (outside C05's statement; counted in the evidence)."),
    technique="runtime monitoring: reference-codec oracle + double-fill written-bytes test + canaries + cross-path digests + ASan/UBSan",
)

CFG["rule"] += (" " + 'Additions: one UTF-8 text in six starts with a (possibly damaged) byte-order mark; stale aws_last_error()/errno between calls; stages giant_vector / giant_portable decode one text of 4 GiB + 64 MiB in one call (every output byte compared, an illegal character beyond offset 2^32 must be refused). The giant stages also hex-encode 4 GiB + 24 bytes in one call (aws_hex_encode / aws_hex_encode_append_dynamic by case parity; marker bytes around the 4 GiB mark, reported length, all-zero middle, bytes behind the end). They also validate a UTF-8 text of 2 GiB + 16 bytes in one aws_decode_utf8 call (code point count and sum; a lone 0xFF beyond the 2 GiB mark and at offset 7 must be refused).')
