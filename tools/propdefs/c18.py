from propdefs.common import seq

PROP = "C18"

CFG = dict(
    stages=[
        seq("asan", "asan", "c18_lht.c", 40000, 4000000, leak=False),
        seq("rel", "rel", "c18_lht.c", 10000, 1000000, leak=False),
        # identity keys (integers in the pointer, key 0 = NULL), value destructor only: harness/c18_intkeys.c
        seq("intkeys_asan", "asan", "c18_intkeys.c", 20000, 2000000, leak=False),
        seq("intkeys_rel", "rel", "c18_intkeys.c", 10000, 1000000, leak=False),
    ],
    rule=("case = one container chosen by the PRNG (bare aws_linked_hash_table with initial_item_count 0-16, or FIFO / LIFO / "
          "LRU cache with max_items 1-8), key universe of 1-12 equality classes whose key objects are equal by content but "
          "distinct as pointers, key / value destructor each present with probability 3/4, one of four hash functions (all "
          "keys collide, class mod 3, multiplicative, identity incl. hash code 0), basic or realloc/calloc-capable guard "
          "allocator, and a PRNG-derived sequence of 10-300 operations: put (fresh key object, or the very pointer already "
          "stored), find (probe object or stored pointer; present / absent), find_and_move_to_back and "
          "move_node_to_end_of_list (bare table), remove (present / absent, by probe or by the stored pointer), clear, "
          "get_element_count, use_lru_element and get_mru_element (LRU, also on an empty cache), then clean_up / "
          "aws_cache_destroy. After EVERY operation: the iteration list is walked forward and backward and compared node by "
          "node (key pointer, value pointer, back-pointer to the table) with an array-backed reference ordered map; the hash "
          "table's entry count equals the list length and every hash element maps to exactly one list node with the same key "
          "pointer; the destructor calls made during the operation equal the predicted set (displaced value once, displaced "
          "key once iff its pointer differs from the new key, both once on remove / clear / clean_up / eviction, never "
          "twice, no callback sees a destroyed key); caches never exceed max_items, the entry just inserted is found again, "
          "and the evicted entry is exactly the policy's victim (FIFO / LRU: front of the reference order, LIFO: the entry "
          "inserted before the new one; LRU order is updated by find, put and use_lru_element); use_lru_element / "
          "get_mru_element return the reference value or NULL when empty. At the end every object's destructor count is "
          "exact and the guard allocator is balanced. non-trivial = at least 4 distinct mechanisms observed in the case (see "
          "mechanisms_observed); distinct = distinct FNV fingerprints of (configuration, op stream with classes and key "
          "choice)."),
    assumptions=[
        "harness allocator never fails (the library aborts on OOM)",
        "hash and equality callbacks are consistent (equal classes hash equally) and pure",
        "values are never NULL and a value object is stored at most once (NULL is the documented 'not found' answer)",
        "after an overwriting put the table holds the new key pointer (stated in the source comment of put; the destructor "
        "rule of the property presupposes it)",
        "remove of an absent key returns AWS_OP_SUCCESS and changes nothing (hash table semantics are preserved; "
        "aws_hash_table_remove always succeeds)",
        "use_lru_element / get_mru_element are only called on LRU caches (cache->impl is a precondition)",
    ],
    min_counts={"any": {
        "null_key_evicted_on_overflow": 100, "cache_capacity_above_32768_filled_to_overflow": 10, "int_keys_lru": 100, "int_keys_lifo": 100, "int_keys_fifo": 100,
        "overwrite_distinct_key_pointer": 100, "overwrite_same_key_pointer": 100, "evict_fifo": 100, "evict_lifo": 100,
        "evict_lru": 100, "overwrite_of_would_be_victim": 100, "capacity1_eviction": 50, "remove_then_refill": 100,
        "lru_find_reorders": 100, "use_lru_element": 100, "get_mru_element": 100, "clear_nonempty": 100,
        "table_find_and_move_or_move_node": 100, "hash_table_resized": 100, "no_key_destructor": 100,
        "no_value_destructor": 100, "all_keys_collide": 100, "clean_up_nonempty": 100,
        "remove_by_stored_key_pointer": 100, "reput_on_full_cache_no_eviction": 100, "evictions": 1000,
    }},
)

META = dict(
    level_text=("Reference-model monitor: tens of thousands (quick) to millions (thorough) of PRNG-derived operation histories "
                "on the real linked hash table and the real FIFO / LIFO / LRU caches (capacities 1-8, 1-12 key classes, equal "
                "but distinct key objects, with and without destructors, hostile hash functions), compared after every single "
                "operation with an independent array-backed ordered map and per-policy victim model: full iteration list "
                "forward and backward, table<->list agreement, exact per-object destructor accounting, capacity bound, "
                "use_lru / get_mru results, allocator balance; under ASan + library pre/post-conditions (Debug) and again on "
                "the shipped -O2 build. Exploration is the right level: the property quantifies over programs and the oracle "
                "is exact per operation."),
    design_ref="DESIGN.md section 5, C18",
    level_note=("Trusted: the harness's reference model (array + linear search), the guard allocator's counters, gcc ASan. Holds "
                "only for the histories generated (<=300 operations, capacities 1-8, <=12 key classes, the four hash functions "
                "listed in the evidence rule). Leak detection is the guard allocator's balance after clean_up, not LSan."),
    technique="runtime monitoring: reference-model oracle after every operation + destructor counters + ASan/UBSan + allocator balance",
)

CFG["rule"] += (" " + 'Additions: stages intkeys_* (harness/c18_intkeys.c): linked hash table and FIFO/LIFO/LRU caches keyed by small integers stored in the pointer (key 0 = NULL), compared with a reference ordered list after every operation; every 1024th such case fills a cache of 32 769-131 073 entries past its maximum; stale aws_last_error()/errno. Half of the intkeys cases also store NULL as a value; destructor calls with NULL are counted against the displaced NULL-valued entries.')
