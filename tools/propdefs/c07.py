from propdefs.common import seq

PROP = "C07"

CFG = dict(
    stages=[
        seq("asan", "asan", "c07_sched.c", 30000, 3000000),
        seq("rel", "rel", "c07_sched.c", 10000, 1000000),
    ],
    rule=("case = PRNG-derived history of 10-200 top-level scheduler calls (schedule_now, schedule_future, cancel of a "
          "pending task, run_all(t), has_tasks, clean_up + re-init; final clean_up) over <= 40 task slots, timestamps from "
          "{0, 1, clustered equal values, previous, previous-1, current +-3, base+small, UINT64_MAX-1, UINT64_MAX}, run_all "
          "times non-monotonic and aimed at exact / one-tick-early boundaries of pending tasks. Every task function logs "
          "its invocation, is checked against a reference scheduler (allowed here? status? position in the batch?) and "
          "then executes a PRNG script through the real API: schedule fresh tasks now / past / current / future, "
          "re-schedule its own aws_task, cancel pending tasks (preferring members of the running batch that have not run "
          "yet) or cancel a task that was only aws_task_init()-ed and never given to the scheduler (it must be invoked once "
          "as cancelled and nothing else may be disturbed); cancelled tasks run their scripts nested. After every top-level call has_tasks / next time / is_valid are "
          "compared with the reference; after every run_all the batch log is compared (set, statuses, order up to "
          "permutation of equal timestamps); after every clean_up each incarnation must have exactly one invocation and "
          "the allocator must balance. non-trivial = some run_all batch had >= 2 members, at least one re-entrant script "
          "action was executed and >= 5 distinct mechanisms were observed; distinct = FNV fingerprint of configuration, "
          "top-level op stream and executed script actions."),
    assumptions=["single-threaded use of aws_task_scheduler (the documented usage)",
                 "only tasks pending in the reference, or fresh aws_task_init()-ed tasks the scheduler never saw, are cancelled "
                 "(cancel_task runs any task handed to it, so cancelling a task that already ran would be a caller error)",
                 "harness allocator never fails, so the timed_list overflow path is unreachable (DESIGN section 6)",
                 "order among timed tasks with equal timestamps, and order inside clean_up, are not constrained"],
    min_counts={"any": {"cancel_of_batch_member_not_yet_run": 200, "task_reschedules_itself": 200,
                        "script_schedules_at_current_time": 200, "script_schedules_in_past": 200,
                        "equal_timestamps_in_batch": 200, "nested_cancel_from_cancelled_task": 100,
                        "clean_up_ran_task_scheduled_during_clean_up": 100, "timestamp_uint64_max": 100,
                        "task_due_one_tick_after_run_all_time": 100, "task_due_exactly_at_run_all_time": 200,
                        "heap_grew_beyond_default": 100,
                        "cancel_of_never_scheduled_task_while_heap_nonempty": 100,
                        "clean_up_unwound_chain_of_17_or_more_generations": 50}},
)

META = dict(
    level_text=("Reference-scheduler monitor: tens of thousands (quick) to millions (thorough) of PRNG-derived histories "
                "on the real task scheduler with re-entrant task functions (schedule, re-schedule self, cancel tasks that "
                "already sit in the running batch, nested cancels), every invocation checked online against an "
                "independent model (exactly once per incarnation, never early, run-now FIFO before timed by time, nothing "
                "scheduled inside a batch runs in it), has_tasks/next-time compared after every top-level call, under "
                "ASan + library assertions (Debug) with task structs freed inside their function, and again on the shipped "
                "-O2 build with quarantined, snapshot-compared task structs. Exploration is the right level: the property "
                "quantifies over programs with callbacks, and the oracle is exact per invocation."),
    design_ref="DESIGN.md section 5, C07",
    level_note=("Trusted: the harness's reference scheduler (arrays + linear search) and gcc ASan. Holds only for the "
                "histories generated (<= 200 top-level calls, <= 40 simultaneously pending tasks, script depth <= 3 "
                "generations). The timed_list overflow path needs a failing allocation, which aborts: unobserved."),
    technique="runtime monitoring: reference-scheduler oracle at every task invocation and top-level call + ASan + allocator balance",
)

CFG["rule"] += (" " + 'Additions: every 4096th case is a burst: 20 000-200 000 timed tasks (65 535/65 536/65 537 among the sizes) plus a few run-now tasks, all due at one run-all call, which must run every one of them in order; only the far-future task may remain. Tasks never scheduled are cancelled, chains of up to 62 generations unwind in clean-up, task nodes carry stale links when scheduled.')
