from propdefs.common import seq

PROP = "C12"

_SRC = "c12_xml.c"

CFG = dict(
    stages=[
        seq("asan", "asan", _SRC, 40000, 16000000),
        seq("rel", "rel", _SRC, 10000, 4000000, mode="relprog"),  # mode only selects another PRNG stream
        seq("asan_latin1", "asan", _SRC, 10000, 1000000, mode="locprog", env={"VERIF_LOCALE": "latin1"}),  # 8-bit libc locale
        # reentrancy: 2..8 threads run PRNG-derived workloads on this module at once; each thread's digest of everything it
        # observed must equal the digest of the same workload run alone (harness/mt_pure.c); p0 = rounds per thread
        seq("mt_tsan", "tsan", "mt_pure.c", 32, 3200, mode="xml", params={0: 150}, wrap=True, leak=False),
        seq("mt_rel", "rel", "mt_pure.c", 32, 3200, mode="xml", params={0: 1500}, leak=False),
    ],
    rule=("case = (element tree, per-node action plan, options.max_depth). The tree (1-60 elements; chain-biased, bushy or "
          "wide) takes its names from a small pool {a, aa, ab, aab, abc, a1, a-b, a.b, a:b, b, b1, ba, Key, KeyMarker, ...}; a "
          "child repeats its parent's name (20%), extends it by a suffix (20%) or is a prefix of it (8%); 1/12 of the "
          "documents carry names of 128..256 bytes that are prefixes of one another; 0-10 attributes name=\"value\" separated "
          "by single spaces (values without space, quote, '=', '<', '>', '&'; empty values; values that look like names or "
          "tags), text without '<' and '&' (empty, whitespace-only, 1-24 bytes, occasionally 300-1500 bytes, tokens that look "
          "like tag contents, UTF-8; '>' in 1/16 of the documents), optional leading whitespace, <?xml ..?>, <!DOCTYPE ..> / "
          "<!-- --> preamble and trailing whitespace; only explicit start and end tags. The document is serialised from the "
          "tree with the byte offsets of every name, body and closing tag recorded; it is handed to the parser as an "
          "exact-size heap copy. Plan: descend / read body / skip (return without touching the node) / abort (raise + "
          "AWS_OP_ERR), 25% of the plans descend everywhere. Expected callback sequence = reference pre-order traversal "
          "of the tree under the plan. Every callback is compared with the tree: element identity (name bytes AND their "
          "offset in the document), the traverse call it belongs to (user_data = parent frame, i.e. depth), attribute count, "
          "names and values, body cursor by offset and length. Classes: 70% within limits (tree depth <= max_depth-2; "
          "max_depth 0=default 20 or one of 3,4,5,6,8,12,20,21,25,40): must be accepted and fully reported; 6% chains of depth "
          "max_depth-1 / max_depth (outcome recorded, report must be right if accepted); 6% chains of depth max_depth+1..+12 "
          "descended all the way (max_depth from 0,1,2,3,4,5,8,21,25,40), 4% a name of 257/258/300 bytes (read as body or "
          "skipped: must be rejected; descended into: outcome recorded), 4% an element with 11/12/14 attributes, 10% root "
          "closing tag removed / cut inside / document cut anywhere inside the root: must be rejected. The first 12 case "
          "indices are literal regression documents of the D3 family (<r><a><ab>t</ab></a></r> with body / skip of a, ...). "
          "After every parse: document bytes unchanged, allocator balanced. non-trivial = within-limits case with >= 3 "
          "callbacks checked and >= 2 mechanisms observed, or a rejection/abort/boundary case with the required outcome; "
          "distinct = distinct FNV fingerprints of (class, max_depth, document bytes, plan)."),
    assumptions=[
        "the callback reads name and attributes before it traverses / reads the body (the attribute storage is shared "
        "by all nodes of a parser), performs at most one of traverse/as_body per node, and propagates a failed "
        "traverse/as_body by returning AWS_OP_ERR",
        "a node deeper than max_depth can only be refused when the plan descends to it; 'rejected' is judged for plans "
        "that descend along the whole over-deep chain. Depths max_depth-1 and max_depth are recorded, not asserted",
        "a 257+ byte name must be refused when its element is read as body or skipped (the closing-tag search cannot "
        "hold it); when the callback descends into it the parser accepts it today and reports it exactly - recorded "
        "(long_name_descend_accepted), not asserted",
        "for malformed documents (root not closed) only the return value of aws_xml_parse is judged",
        "harness allocator never fails (library aborts on OOM)",
    ],
    min_counts={"any": {
        "body_or_skip_over_same_name_descendant": 200,
        "callback_ignored_depth_limit_failure": 100,
        "body_or_skip_over_prefix_extending_descendant": 200,
        "skip_then_sibling_reported": 500,
        "body_then_sibling_reported": 500,
        "skip_or_body_then_same_name_sibling": 50,
        "ten_attributes": 200,
        "node_at_max_depth_minus_2": 100,
        "custom_max_depth_deeper_than_default": 10,
        "name_255_or_256_body_or_skip": 5,
        "callback_abort": 100,
        "rejected_over_deep": 100,
        "rejected_long_name": 50,
        "rejected_11_attributes": 100,
        "rejected_root_unclosed": 50,
        "rejected_truncated": 100,
        "depth_boundary_document": 100,
        "scripted_regression_document": 12,
        "empty_body_read": 100,
        "body_with_child_markup_read": 500,
        "descend_into_childless_element": 500,
        "bodies_compared_by_offset": 5000,
        "within_limits_documents_fully_reported": 5000,
    }},
)

META = dict(
    level_text=("Reference-traversal monitor: tens of thousands (quick) to millions (thorough) of generated element trees "
                "are serialised to documents (names that repeat, nest inside themselves and are prefixes of one another; "
                "0-10 attributes; text; preamble) and parsed by the real parser under a generated per-node action plan "
                "(descend / body / skip / abort). The callback sequence - element identity by name bytes and document "
                "offset, depth via the traverse call's user_data, attributes, body cursor by recorded byte offsets - must "
                "equal the reference traversal of the generating tree; within-limits documents must be accepted, documents "
                "beyond the depth / name / attribute limits or without a closed root must be rejected. Runs under ASan + "
                "library assertions (Debug) on an exact-size document copy, and on the shipped -O2 build. Exploration is "
                "the right level: the property quantifies over documents x callback programs, and the oracle is exact per "
                "callback."),
    design_ref="DESIGN.md section 5, C12",
    level_note=("Trusted: the harness's serialiser/reference traversal (a dozen lines each) and gcc ASan. Holds only for the "
                "documents generated (<= 60 elements, the dialect of the rule text: explicit start/end tags, single-space "
                "attribute separators, no entities/CDATA/comments inside the root, no '<' or '&' in text)."),
    technique="runtime monitoring: generator-derived reference traversal + byte-offset body oracle + ASan/UBSan",
)

CFG["rule"] += (" " + 'Additions: for documents deeper than the limit the descend action ignores the failed traverse half of the time (aws_xml_parse must still fail, no further callback); stage asan_latin1; stages mt_tsan/mt_rel; stale aws_last_error()/errno. Every 64th case is a chain of 30-1100 same-named elements (some with attributes, <ab> elements in between), descended L levels and then skipped or read as body with options.max_depth default or raised; the body extent is known by construction, nothing inside may be reported and the following sibling must be.')
