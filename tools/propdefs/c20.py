from propdefs.common import seq

PROP = "C20"

CFG = dict(
    stages=[
        seq("tsan", "tsan", "c20_threads.c", 600, 40000, wrap=True, per_proc_timeout=1800, nprocs=12),
        seq("asanh", "asanh", "c20_threads.c", 600, 40000, wrap=True, leak=True, per_proc_timeout=1800, nprocs=12),
        seq("tsanrel", "tsanrel", "c20_threads.c", 600, 40000, wrap=True, per_proc_timeout=1800, nprocs=12),  # -O2 under TSan
    ],
    rule=("case = one scenario of 1-56 real threads: manual and managed threads launched by the main thread, managed "
          "threads launched by other threads (depth <= 3), 0-5 at-exit registrations each, PRNG sleeps/yields so that every "
          "completion order relative to each other and to aws_thread_join_all_managed occurs, thread options (NULL, "
          "default object, stack size, name, cpu pin), optional pthread_create fault injection (n-th or every k-th create "
          "returns EAGAIN), schedule perturbation at pthread lock/cond/create/join. The event log is checked for: function "
          "entered once with its argument, at-exit callbacks once each on the same thread in reverse registration order "
          "after the function, join returning after function and callbacks, join-all returning after every managed thread "
          "whose launch had returned before the call, failed launches never running, managed count 0, allocator balance. "
          "non-trivial = >= 3 mechanisms; distinct = fingerprint of (scenario shape, completion-order hash, schedule trace)."),
    assumptions=["join-all is only called from the main (non-managed) thread, as documented",
                 "at-exit callbacks are registered from the thread function, not from other at-exit callbacks"],
    min_counts={"any": {"join_all_called_before_all_finished": 30, "managed_thread_launched_by_thread": 30,
                        "pthread_create_failed": 20, "several_at_exit_callbacks": 50,
                        "library_reinit_with_managed_threads_outstanding": 20, "timed_join_all_gave_up": 20,
                        "external_decrement_while_join_all_blocked": 20,
                        "at_exit_registered_inside_call_once": 50}},
)

META = dict(
    level_text=("Real-thread scenarios under TSan and ASan+LeakSanitizer with randomised completion orders, injected "
                "pthread_create failures and schedule perturbation at every pthread call; an event-log checker decides "
                "run-once, at-exit order/thread, join-after-exit, join-all coverage, count roll-back and leaks per scenario. "
                "Completion orders and interleavings are sampled (distinct completion-order hashes are part of the "
                "fingerprint count in the evidence)."),
    design_ref="DESIGN.md section 5, C20 and section 4.4",
    level_note=("Trusted: TSan/ASan, the harness event log. Deadlock = scenario exceeding the watchdog. Linux/pthread "
                "implementation only."),
    technique="runtime monitoring: event-log checker (once, order, join-after-exit, count) + TSan/ASan/LSan + fault injection under schedule perturbation",
)

CFG["rule"] += (" " + 'Additions: finite join timeout / library clean-up that gives up / library re-init prelude; manual threads counted in and out through aws_thread_increment/decrement_unjoined_count by an owner thread; at-exit registration from inside aws_thread_call_once; a second thread calling join-all concurrently; stage tsanrel (-O2 under TSan). In the asanh stage a quarter of the manual threads try to join themselves once their launch call has returned (refused by the library); the owner\'s later join must still wait for the function and the at-exit callbacks. (Not under ThreadSanitizer, whose join interceptor forgets a thread after a failed join.)')
