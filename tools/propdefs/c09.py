from propdefs.common import seq

PROP = "C09"

CFG = dict(
    stages=[
        seq("array_asan", "asan", "c09_lists.c", 40000, 4000000, mode="array", leak=False),
        seq("linked_asan", "asan", "c09_lists.c", 40000, 4000000, mode="linked", leak=False),
        seq("array_rel", "rel", "c09_lists.c", 10000, 1000000, mode="array", leak=False),
        seq("linked_rel", "rel", "c09_lists.c", 10000, 1000000, mode="linked", leak=False),
    ],
    rule=("array case = item size from {1,2,3,8,24,127,128,129,255,256,300}, two array lists (each dynamic with initial "
          "allocation 0-8 items, or fenced static storage of 1-40 items, possibly init_static_from_initialized) and a "
          "PRNG-derived sequence of 10-150 operations (push/pop back and front, set_at at index <len, =len, len+1..len+40 and "
          "at indices whose byte size overflows size_t, get_at, get_at_ptr, front, back, erase first/middle/last/beyond, "
          "pop_front_n 0/1/len-1/len/len+1/SIZE_MAX and counts whose byte size wraps size_t (SIZE_MAX/item+1+j, 2^63+j, 2^k+j), swap incl. equal indices, sort, copy between the lists, shrink_to_fit, "
          "clear, swap_contents, ensure_capacity, clean_up/clean_up_secure + re-init); after EVERY operation both lists are "
          "compared with a reference vector (length, byte capacity rule, block size of the real allocation, every defined "
          "element's bytes, front/back/get_at/get_at_ptr, canaries); operations the model predicts to fail and all read-only "
          "operations must leave header and storage byte-identical. linked case = pool of 24 nodes, 3 lists, 10-150 operations "
          "(push/pop both ends, insert_before/after incl. at the sentinels, remove, swap_nodes adjacent either order / "
          "non-adjacent / identical / first-last, swap_contents, move_all_back/front, init); after EVERY operation all lists "
          "are walked forward and backward on raw pointers and through begin/next/end, rbegin/prev/rend against the reference "
          "order, detached nodes must be zeroed. non-trivial = at least 4 distinct mechanisms observed in the case (see "
          "mechanisms_observed); distinct = distinct FNV fingerprints of (configuration, op stream with index classes)."),
    assumptions=[
        "harness allocator never fails (the library aborts on OOM); indices that would need a real multi-gigabyte allocation "
        "are not generated for dynamic lists",
        "elements created by set_at beyond the length are unspecified (documented) and are not compared until written",
        "allocator balance is not asserted: shrink_to_fit on an empty dynamic list drops its buffer (DESIGN section 9)",
        "sort comparator is a total preorder (high nibble of the first element byte)",
    ],
    min_counts={"any": {
        "grow_double": 10, "grow_exact": 10, "set_at_gap_created": 10, "static_full_push_refused": 10,
        "static_index_refused": 10, "overflow_index_refused": 10, "erase_middle": 10, "pop_front_n_partial": 10, "pop_front_n_huge_count": 10, "dynamic_list_storage_4GiB_or_more": 50, "erase_near_front_of_2GiB_byte_list": 1,
        "sliced_swap_item_gt_128": 10, "sort_with_ties": 10, "copy_into_smaller_dynamic": 10,
        "copy_into_smaller_static_refused": 10, "copy_into_larger": 10, "shrink_to_fit_reallocated": 10,
        "array_swap_contents": 10, "push_front_shift": 10, "unspecified_gap_element_shifted": 10,
        "swap_nodes_adjacent_a_before_b": 10, "swap_nodes_adjacent_b_before_a": 10, "swap_nodes_non_adjacent": 10,
        "swap_nodes_identical": 10, "swap_nodes_first_last": 10, "linked_swap_contents_one_empty": 10,
        "linked_swap_contents_both_empty": 10, "linked_swap_contents_both_nonempty": 10,
        "move_all_back_empty_source": 10, "move_all_back_empty_destination": 10, "move_all_back_both_nonempty": 10,
        "move_all_front_empty_source": 10, "move_all_front_empty_destination": 10, "move_all_front_both_nonempty": 10,
        "remove_middle_node": 10,
    }},
)

META = dict(
    level_text=("Reference-model monitor: tens of thousands (quick) to millions (thorough) of PRNG-derived operation histories "
                "on the real array list (dynamic and fenced static storage, 11 item sizes around the 128-byte swap slice) and "
                "the real intrusive linked list, compared with an independent reference vector / node-order arrays after every "
                "single operation, under ASan + library pre/post-conditions (Debug) and again on the shipped -O2 build. "
                "Exploration is the right level: the property quantifies over programs x element sizes and the oracle is exact "
                "per operation."),
    design_ref="DESIGN.md section 5, C09",
    level_note=("Trusted: the harness's reference model (arrays of ids with defined bits), the guard allocator's block sizes and "
                "red zones, gcc ASan. Holds only for the histories generated (<=150 ops, lengths <=~240, item sizes listed in "
                "the evidence rule); sizes >= 2^31 are reached only as index arguments and overflow guards (DESIGN section 6)."),
    technique="runtime monitoring: reference-model oracle after every operation + ASan/UBSan + canaries around caller storage",
)

CFG["rule"] += (" " + 'Additions: -O2 stages only: lists whose storage passes 4 GiB (every 128th case), erase near the front of a 2 GiB byte list (once per stage run), shrink_to_fit of a list with 4 GiB + 128 bytes live (once per stage run: size of the new block, markers on both sides of the 4 GiB mark); pop_front_n with wrap-around counts; stale aws_last_error()/errno.')
