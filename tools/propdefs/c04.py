from propdefs.common import seq

PROP = "C04"

SRC = "c04_parsers.c"
ALL_TEXT = "b64,hex,utf8,uuid,ip,u64"

# cases per *target* (a stage with k targets runs k times as many cases, round-robin)
QA, TA = 150000, 4000000   # asan
QR, TR = 150000, 2000000   # rel + guard pages


def st(name, variant, mode, q, t, **kw):
    k = len(mode.split(","))
    return seq(name, variant, SRC, q * k, t * k, mode=mode, **kw)


CFG = dict(
    stages=[
        # ASan + gating UBSan + library pre/post-conditions; one stage per target group so that a crash is attributed
        st("xml", "asan", "xml", QA, TA),
        st("json", "asan", "json", QA, TA),
        st("cbor", "asan", "cborpop,cborwhole", QA, TA),
        st("uri", "asan", "uri,query,pctdec,date", QA, TA),
        st("text", "asan", ALL_TEXT, QA, TA, env={"AWS_COMMON_AVX2": "0"}),
        st("b64avx2", "asan", "b64", QA, TA, env={"AWS_COMMON_AVX2": "1"}),
        # shipped -O2 -DNDEBUG build, every input flush against a PROT_NONE page (before or after it)
        st("rel_docs", "rel", "xml,json,cborpop,cborwhole", QR, TR),
        st("rel_text", "rel", "uri,query,pctdec,date," + ALL_TEXT, QR, TR, env={"AWS_COMMON_AVX2": "0"}),
        st("rel_b64avx2", "rel", "b64", QR, TR, env={"AWS_COMMON_AVX2": "1"}),
        # dedicated probe with ONE case: 10^5 and 10^6 nested tags / arrays through consume_next_whole_data_item
        # (each in a forked child); its failure class has its own key C04:cbor:consume:recursion-depth
        seq("rel_cbor_deep", "rel", SRC, 1, 1, mode="cbor-deep", nprocs=1),
        # coverage-guided stage: 16 libFuzzer sessions (clang 14, fuzzer-no-link + ASan + gating UBSan), one per
        # process, target = case index mod 14, started from the committed seeds; -runs from p1; the same run_<target>
        # functions and oracle as above. Each process runs exactly one session (libFuzzer exits the process).
        seq("fuzz", "fuzz", SRC, 16, 16, mode="fuzz:xml,json,cborpop,cborwhole,uri,query,pctdec,date," + ALL_TEXT,
            params={1: 60000}, extra_cflags="-DC04_LIBFUZZER=1", nprocs=16, per_proc_timeout=1800),
        # census (thorough only): full -fsanitize=undefined with recovery; reports are de-duplicated into the
        # evidence as notes (ubsan_census_non_gating) and never gate (DESIGN.md 4.3)
        seq("census", "ubcen", SRC, 0, 14 * 60000, mode="all"),
        seq("fuzz_deep", "fuzz", SRC, 0, 16, mode="fuzz:xml,json,cborpop,cborwhole,uri,query,pctdec,date," + ALL_TEXT,
            params={1: 3000000}, extra_cflags="-DC04_LIBFUZZER=1", nprocs=16, per_proc_timeout=7200),
    ],
    rule=("case = one input for one target API (XML parse with a callback program carried in the input's tail; JSON "
          "parse/walk with every getter/print both ways/duplicate; CBOR peek+pop loop and consume-whole-item loop; URI "
          "parse + accessors + both query iterators; raw query iterators; percent-decoding; date-time in all four formats "
          "through cursor and buf entry points; base64 and hex decode into exact/short/larger fenced outputs on both CPU "
          "paths; UTF-8 one-shot and chunked; UUID; IPv4/IPv6; utf8_parse_u64[_hex]). Input source per case: committed "
          "seeds and built-in nesting/length probes verbatim first, then 50% structure-aware document + 0-8 mutations, 22% "
          "random bytes over the grammar's alphabet, 16% mutated seed, 12% splice of two documents; <= 64 KiB (CBOR 16 KiB) "
          "except the JSON nesting probes. Copied to an exact-size heap block (asan) or flush against a PROT_NONE page "
          "(rel). non-trivial = non-empty input AND (the API accepted something, or handed back a non-empty view that was "
          "range-checked, or invoked a callback, or rejected a document that did not come from the random-bytes source); "
          "distinct = distinct FNV fingerprints of (target, input bytes, output-shape choices)."),
    assumptions=[
        "gcc AddressSanitizer / the MMU (guard pages) report every out-of-bounds access they can see; intra-object overflows are not seen",
        "harness allocators never fail (the library aborts on OOM)",
        "XML callbacks follow xml_parser.h: at most one of traverse/as_body per node, attribute index < count; a callback that "
        "returns success after a failed traverse is included as a (careless) callback choice",
        "inputs longer than 64 KiB only for the JSON nesting probes; CBOR nesting above 10^4 levels only in the dedicated probe",
        "stack limit of the environment (8 MiB here) decides the cbor-deep probe",
    ],
    min_counts={"any": {
        "xml.accepted": 100, "xml.rejected": 100, "xml.callbacks": 1000, "xml.views_checked": 1000,
        "xml_descend": 100, "xml_read_body": 100, "xml_skip": 100, "xml_callback_abort": 100, "xml_attributes_queried": 100,
        "json.accepted": 100, "json.rejected": 100, "json_tree_walked": 100, "json_printed": 100, "json_duplicated": 100,
        "cborpop.accepted": 100, "cborpop.views_checked": 100, "cborwhole.accepted": 100, "cborwhole.rejected": 100,
        "cbor_nested_container": 100, "cbor_indefinite_item": 100,
        "uri.accepted": 100, "uri.rejected": 100, "uri.views_checked": 1000, "query.views_checked": 1000,
        "uri_query_params_iterated": 100, "pctdec.accepted": 100, "pctdec.rejected": 100,
        "date.accepted": 100, "date.rejected": 100,
        "b64.accepted": 100, "b64.rejected": 100, "base64_vector_path": 1000, "base64_portable_path": 1000,
        "hex.accepted": 100, "hex.rejected": 100, "utf8.accepted": 100, "utf8.rejected": 100, "utf8_chunked": 100,
        "uuid.accepted": 50, "uuid.rejected": 50, "ip.accepted": 50, "ip.rejected": 50, "u64.accepted": 50, "u64.rejected": 50,
        "guard_page_after_input": 1000, "guard_page_before_input": 1000, "short_output_refused": 100,
        "corpus_files_loaded": 247, "seed_cases": 300, "nesting_ge_8": 100, "cbor-deep.cases": 1,
        "fuzz.sessions": 16, "fuzz.executions": 400000,
    }},
)

META = dict(
    level_text=("Robustness monitor for all decoders/parsers: per target hundreds of thousands (quick) to millions (thorough) "
                "of seeded inputs - committed reproducers and nesting/length probes, structure-aware documents with 0-8 "
                "mutations, alphabet noise, splices - are fed to the real API on an exact-size heap copy under ASan + gating "
                "UBSan + live library pre/post-conditions, and again to the shipped -O2 build with the input flush against a "
                "PROT_NONE page. Beyond crash/report/hang the oracle checks the documented failure channel (AWS_OP_ERR with a "
                "registered aws_last_error, NULL, false), that every non-empty view handed back lies inside the input (or the "
                "URI's own copy), canaries around caller-provided outputs, and monotone CBOR progress. Exploration is the "
                "right level: the property quantifies over all byte strings."),
    design_ref="DESIGN.md section 5, C04",
    level_note=("Trusted: gcc ASan/UBSan, the MMU, the harness's range checks. Holds only for the inputs generated; not done "
                "in this round: libFuzzer (`fuzz` variant), valgrind memcheck, UBSan census build. Known finding kept strict: "
                "C04:cbor:consume:recursion-depth (dedicated single-case stage)."),
    technique="runtime monitoring: sanitizers + guard pages + error-channel table + view containment + output canaries",
)

CFG["rule"] += (" " + "Additions: half of the processes install a logger that renders every diagnostic with vsnprintf into an exactly sized heap buffer; the XML callback reports a nesting deeper than max_depth + 1; corpus seeds with '<a><e/>' chains of 19-300 levels and unclosed elements with 255/256/257-byte names. Half of the base64/hex decodes get an output buffer that already reports a length (a re-used buffer that was not reset).")
