from propdefs.common import seq

PROP = "C03"

WRAP_PAGES = dict(extra_cflags="-DC03_WRAP_PAGES=1", extra_ld="-Wl,--wrap=posix_memalign,--wrap=free")

CFG = dict(
    stages=[
        seq("seq_asan", "asan", "c03_sba.c", 3000, 150000, mode="seq", leak=True),
        seq("seq_rel", "rel", "c03_sba.c", 3000, 150000, mode="seq", **WRAP_PAGES),
        seq("thr_tsan", "tsan", "c03_sba.c", 96, 4800, mode="thr", wrap=True, params={0: 1500}, per_proc_timeout=1800),
        seq("thr_asanh", "asanh", "c03_sba.c", 96, 4800, mode="thr", wrap=True, leak=True, params={0: 2500},
            per_proc_timeout=1800),
        seq("thr_rel", "rel", "c03_sba.c", 96, 4800, mode="thr", params={0: 6000}, per_proc_timeout=1800, **WRAP_PAGES),
    ],
    rule=("seq: case = history of 200-5000 operations (acquire / calloc / realloc grow, shrink, same, to 0, from NULL, "
          "across the 512-byte limit / release LIFO, FIFO, random, page-sized bursts) with sizes biased to the size-class "
          "boundaries, on one small-block allocator over the guard allocator; every block is filled over its requested "
          "size with a per-block pattern that is re-verified before release/realloc, after realloc (prefix) and "
          "periodically for all live blocks; an interval registry checks disjointness on every allocation; bytes_active is "
          "compared with the sum of size classes every 16 operations; after the final drain bytes_reserved <= 5 pages, page "
          "allocations (rel build: interposed posix_memalign/free) match and destroy returns everything. thr: 2-8 threads "
          "on one multi-threaded allocator with blocks handed to other threads for release, exact accounting checks at "
          "barriers, TSan (registry off) / ASan+LSan / -O2 with page interposition, schedule perturbation at the bin "
          "mutex. non-trivial = >= 4 mechanisms; distinct = fingerprint of (configuration, op stream[, schedule trace])."),
    assumptions=["blocks are released to the allocator they came from; sizes passed to realloc are the requested sizes",
                 "the slack between requested size and class size is not inspected"],
    min_counts={"any": {"page_returned_to_os": 500, "realloc_small_to_large": 500, "realloc_large_to_small": 300,
                        "drained_to_at_most_five_pages": 300, "block_released_by_another_thread": 100,
                        "freed_chunk_reused": 500,
                        "second_single_threaded_instance_alive_during_threaded_phase": 50,
                        "request_above_2GiB_forwarded_to_parent": 50,
                        "more_than_65536_full_pages_in_one_class": 1}},
)

META = dict(
    level_text=("Content monitor for memory the sanitizers cannot see inside (the allocator carves its own pages and "
                "suppresses ASan/TSan on its free path): per-block fill patterns, an interval registry, size-class accounting "
                "against bytes_active, page accounting by link-time interposition of posix_memalign/free, parent-allocator "
                "balance; thousands of single-threaded histories and hundreds of multi-threaded scenarios per run, the latter "
                "under TSan, ASan+LSan and the -O2 build with schedule perturbation."),
    design_ref="DESIGN.md section 5, C03",
    level_note=("Trusted: the harness model of size classes (requested size -> next power of two >= 32, > 512 -> parent; a "
                "block keeps its origin when realloc returns the same pointer). Thread interleavings are sampled."),
    technique="runtime monitoring: fill patterns + interval registry + accounting model + page interposition + TSan/ASan/LSan",
)

CFG["rule"] += (" " + 'Additions: half of the threaded scenarios keep a second single-threaded allocator instance alive and in use on the main thread; every 64th sequential case requests 2^31-1 .. 2^33+513 bytes through a parent that records request sizes (address-space-only mappings); once per -O2 stage 65 600+ completely full pages of one class are kept alive and late pages emptied. One block in eight is filled with hostile content: every 16 bytes start with the 8-byte marker of the allocator\'s own page headers (never both markers of a header in place), so the is-this-my-chunk test at the 4 KiB boundary below a parent-served block meets it in neighbouring live blocks.')
