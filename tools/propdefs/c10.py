import glob
import importlib.util
import os

import runner
from propdefs.common import seq

PROP = "C10"

_SRC = "c10_cbor.c"


def _load_ref():
    path = os.path.join(os.path.dirname(os.path.dirname(os.path.abspath(__file__))), "oracles", "cbor_ref.py")
    spec = importlib.util.spec_from_file_location("cbor_ref", path)
    mod = importlib.util.module_from_spec(spec)
    spec.loader.exec_module(mod)
    return mod


def _post(prop, tier, seed, results):
    """Second opinion: Python CBOR reader over the small cases every harness process dumped."""
    ref = _load_ref()
    obs = []
    nrec = nel = 0
    for r in results:
        for path in sorted(glob.glob(os.path.join(r["outdir"], "c10dump.*"))):
            a, b, bad = ref.check_file(path)
            nrec += a
            nel += b
            for case, key, detail in bad:
                obs.append(runner.Observation(key, detail[:600], r["stage"], case, detail))
    if nrec == 0:
        raise runner.Inconclusive("python reference reader saw no dumped case")
    return obs, {"python_reference_reader": {"cases_checked": nrec, "elements_checked": nel,
                                             "disagreements": len(obs)}}


CFG = dict(
    stages=[
        seq("asan", "asan", _SRC, 30000, 5000000),
        seq("sweep", "asan", _SRC, 2098, 2098, mode="sweep"),
        seq("rel", "rel", _SRC, 10000, 4000000, mode="relprog"),  # mode only selects another PRNG stream
        seq("relsweep", "rel", _SRC, 2098, 2098, mode="sweep"),
        # reentrancy: 2..8 threads run PRNG-derived workloads on this module at once; each thread's digest of everything it
        # observed must equal the digest of the same workload run alone (harness/mt_pure.c); p0 = rounds per thread
        seq("mt_tsan", "tsan", "mt_pure.c", 32, 3200, mode="cbor", params={0: 150}, wrap=True, leak=False),
        seq("mt_rel", "rel", "mt_pure.c", 32, 3200, mode="cbor", params={0: 1500}, leak=False),
    ],
    post=_post,
    rule=("case = PRNG-derived item program (1-60 items, occasionally a 23..257-entry container or a 20..64-level chain): "
          "uint/negint at every head-width boundary, write_float over integers, +-2^63 and +-FLT_MAX neighbourhoods, "
          "float-exact/inexact values, subnormals, +-0, +-Inf, NaN, write_single_float, bytes/text of 0..70000 bytes, "
          "definite/indefinite arrays, maps and strings, tags, bool/null/undefined; optionally after encoder reset. "
          "Per case: encoded length checked after every write against the generator's prediction; an independent "
          "reader parses the bytes (shortest heads, nesting, item ends) and must see the expected elements and float "
          "forms (documented priority integer -> single -> double); peek_type + typed pop of every element with exact "
          "values, cursor placement and remaining length; consume_next_whole_data_item from EVERY item boundary must "
          "land on the next boundary and leave the look-ahead cache empty. mode=sweep: case k = the six doubles "
          "+-(2^k + {-1,0,1} ulp), k=-1074..1023, plus the same floats. non-trivial = program decoded completely and "
          ">= 3 distinct mechanisms observed (>= 1 in sweep mode); distinct = distinct FNV fingerprints of the element "
          "list (kinds, arguments, lengths, depths, float bits)."),
    assumptions=[
        "the documented write_float rule is read as: exact integer inside the int64 range -> integer; else exactly "
        "representable as binary32 -> single; else double (header: 'integer/negative/float (Order with priority)'); "
        "-0.0 counts as the integer 0; integers in [2^63,2^64) are outside the integer test by design (cbor.c comment)",
        "text strings are valid UTF-8 (neither encoder nor decoder validates)",
        "harness allocator never fails (library aborts on OOM)",
        "(int64_t)value for value == 2^63 in aws_cbor_encoder_write_float is float-cast UB that the build does not "
        "gate on; only the resulting encoding is judged",
    ],
    min_counts={"any": {
        "int_head_width_boundary": 100, "write_float_near_2p63": 50, "write_float_near_fltmax": 50,
        "write_float_exactly_pm_2p63": 10, "write_float_exactly_pm_fltmax": 10,
        "write_float_as_integer": 100, "write_float_as_single": 100, "write_float_as_double": 100,
        "encoder_buffer_growth": 100, "one_decoder_skipped_1000_or_more_items": 20, "encoder_buffer_grown_past_64MiB": 10, "tag_55799_as_first_item": 10, "string_ge_64k": 5, "nesting_eq_64": 5, "indefinite_container": 50,
        "indefinite_string": 50, "skip_nested_item": 100, "skip_after_peek": 100, "tight_fit_write_forced_growth": 5,
        "count_head_ge_24": 5, "encoder_reset_reuse": 20, "skip_checks": 10000,
    }},
)

META = dict(
    level_text=("Round-trip monitor: tens of thousands (quick) to millions (thorough) of generated item programs are written "
                "with the real encoder and read back with the real decoder; the expected element sequence, every byte "
                "offset, the float form (documented priority integer -> single -> double) and every skip boundary are "
                "derived from the program alone, an independent in-harness CBOR reader (plus a Python reader over dumped "
                "samples) parses the bytes, and consume_next_whole_data_item is checked from every item boundary; run "
                "under ASan + library assertions (Debug) and on the shipped -O2 build, plus the exhaustive sweep of all "
                "doubles +-(2^k + {-1,0,1} ulp). Exploration is the right level: the property quantifies over programs "
                "and values, the oracle is exact per element."),
    design_ref="DESIGN.md section 5, C10",
    level_note=("Trusted: the generator's wire-form prediction (cross-checked bitwise vs. cast arithmetic), the harness's "
                "CBOR reader, gcc ASan. Holds only for the programs generated (<= 64 nesting levels, strings <= 70000 "
                "bytes, well-formed programs only; half-precision floats are never written by the encoder and are "
                "not part of the round trip)."),
    technique="runtime monitoring: generator-derived expected sequence + independent reader + skip-boundary oracle + ASan",
)

CFG["rule"] += (" " + "Additions: 'long' programs of 300-2700 tiny items nearly all skipped in-stream with one decoder; a third of the tag numbers are registered ones (incl. 55799); every 2048th case writes strings of 33-70 MiB into one encoder; stages mt_tsan/mt_rel (several threads, digest compared with the single-threaded run); stale aws_last_error()/errno. A ninth of the boundary doubles have a significand of at most 24 bits at exponents around both ends of the float range (2^-152..2^-125, 2^126..2^128).")
