from propdefs.common import seq

PROP = "C14"

CFG = dict(
    stages=[
        seq("thr_tsan", "tsan", "c14_logging.c", 400, 40000, mode="thr", wrap=True, per_proc_timeout=1800, env={"TZ": "XYZ-9"}),
        seq("thr_asanh", "asanh", "c14_logging.c", 400, 40000, mode="thr", wrap=True, leak=True, per_proc_timeout=1800, env={"TZ": "UTC"}),
        # shipped optimisation level under TSan (AWS_ASSERT / pre- and post-conditions compiled out)
        seq("thr_tsanrel", "tsanrel", "c14_logging.c", 400, 40000, mode="thr", wrap=True, per_proc_timeout=1800, env={"TZ": "XYZ-9"}),
        seq("trunc_asan", "asan", "c14_logging.c", 800, 80000, mode="trunc"),
        seq("trunc_rel", "rel", "c14_logging.c", 400, 40000, mode="trunc"),
    ],
    rule=("thr: case = one scenario: 1-8 sender threads log 1-64 messages each (payload 0..20000 bytes identifying thread and "
          "call, four format-argument shapes, all six levels, ten subjects) through the default formatter and a foreground "
          "or background channel into a recording writer; 1-3 phases with the filter level changed at barriers; clean-up is "
          "issued immediately after the last send returns. Checked: exactly one line per accepted call, none for filtered "
          "calls, exact prefix fields and payload, one trailing newline and no NUL, per-thread order, writer thread "
          "identity, nothing written after clean-up returned, allocator balance; TSan/ASan+LSan. trunc: case = 12 no-alloc "
          "logger calls with message sizes sweeping 8000..8400 (all sizes over the run) plus 24 direct "
          "aws_format_standard_log_line calls into fenced buffers sweeping 2..300 bytes. non-trivial = >= 3 (thr) / >= 2 "
          "(trunc) mechanisms observed; distinct = fingerprint of (message shapes and sizes, channel, schedule trace)."),
    assumptions=["clean-up is never issued concurrently with a send (caller error: use after free)",
                 "level changes happen at quiescent points; under concurrency 'later calls' is only defined there",
                 "a line buffer of 1 byte cannot hold newline + terminator and is not exercised"],
    min_counts={"any": {"clean_up_with_lines_still_queued": 20, "noalloc_line_truncated": 100, "direct_line_truncated": 100,
                        "level_changed_at_barrier": 50, "foreground_channel": 30, "clean_up_with_more_than_64_lines_queued": 20, "writer_reported_errors": 50,
                        "subject_name_of_79_to_300_characters": 100,
                        "noalloc_logger_stream_refused_a_write": 100, "message_that_cannot_be_formatted": 50}},
)

META = dict(
    level_text=("Threaded scenarios against the real formatter/channel/pipeline under TSan and ASan+LeakSanitizer with "
                "schedule perturbation at every lock/condvar call, with a writer-log checker that decides exactly-once, "
                "order, exact content, filtering and no-late-write per scenario; plus an exhaustive-by-size single-threaded "
                "sweep of the truncation paths (every message size 8000..8400 for the no-alloc logger, every buffer size "
                "2..300 for the formatter) under ASan and on the -O2 build."),
    design_ref="DESIGN.md section 5, C14",
    level_note=("Trusted: the harness's recording writer (lock-free, so a missing channel lock shows as a TSan report rather "
                "than being hidden), snprintf as the reference for the formatted message. Interleavings are sampled."),
    technique="runtime monitoring: writer-log checker (exactly-once, order, format, no-late-write) + allocator balance + TSan/ASan/LSan under schedule perturbation",
)

CFG["rule"] += (" " + "Additions: 14 harness-registered subjects with names of 1-300 characters; a third of the scenarios have a writer that fails every 7th write; one call in 25 cannot be formatted (%ls, C locale); every timestamp is decoded as UTC and compared with the time of the call (TSan stages run with TZ=XYZ-9); the truncation stage also drives the standard logger over the library's file writer and the no-alloc logger over a stream that refuses writes; stage thr_tsanrel (-O2 under TSan). In a third of the background scenarios the writer itself sends a follow-up line through the channel on every fifth write (from the logger thread, also while clean-up is waiting for that thread); every such line must reach the writer before clean-up returns.")
