from propdefs.common import seq
from oracles import c11_json

PROP = "C11"

SRC = "c11_json.c"
# p0: every p0-th case is recorded (model text, compact, formatted) for the offline Python json second opinion
# (thinned by the harness to about 1000 records per process in the thorough tier).
# leak=False: the JSON module allocator is the guard allocator (aws_common_library_init(mon_guard_allocator())), so every
# cJSON node, key, string and print buffer is counted and the balance is an oracle of the harness; LeakSanitizer would only
# add reports about the harness's own model trees.

CFG = dict(
    stages=[
        seq("asan", "asan", SRC, 20000, 2000000, params={0: 4}, leak=False),
        seq("rel", "rel", SRC, 8000, 1000000, params={0: 8}, leak=False),
        # reentrancy: 2..8 threads run PRNG-derived workloads on this module at once; each thread's digest of everything it
        # observed must equal the digest of the same workload run alone (harness/mt_pure.c); p0 = rounds per thread
        seq("mt_tsan", "tsan", "mt_pure.c", 32, 3200, mode="json", params={0: 150}, wrap=True, leak=False),
        seq("mt_rel", "rel", "mt_pure.c", 32, 3200, mode="json", params={0: 1500}, leak=False),
    ],
    rule=("case = one JSON value tree. Case indices 0-9 are seed-independent sweeps: all integers 2^k-1, 2^k, 2^k+1 (k=0..63, "
          "both signs) as decimal text and through aws_json_value_new_number; 51 special doubles (+-0, +-DBL_MAX and its "
          "predecessors, DBL_MIN, subnormals, values around INT_MAX/INT_MIN where the printer switches format, 2^53+-1, 15-/16-/17-"
          "digit decimals) plus 2^k-{1,2,3}ulp and 2^k+1ulp for k=-30..64, through the API and as '%.17g' text; every byte value "
          "1..255 as object key (API; 'a'..'z' must be refused after 'A'..'Z') and as string in three random spellings (text). "
          "All other cases are PRNG-derived: ~49% trees built through the API by programs of add (new key / exact duplicate / "
          "case variant), get+has (present / variant / absent), remove (present / variant / absent), array add / get / remove "
          "(first, middle, last, index==size, index>size incl. > INT_MAX) with the container compared with an ordered "
          "association list (ASCII-case-insensitive keys) after every call; ~49% trees parsed from text of the harness's own "
          "writer (random \\uXXXX / surrogate-pair / \\/ / short escapes, exponent spellings, insignificant whitespace, repeated "
          "keys, cursor not NUL-terminated), half of them followed by access operations on a random container; ~1.5% chains of "
          "64..998 nested arrays/objects (API or text); ~1.5% wide shallow trees of 300..3000 mostly empty or tiny containers "
          "in one text (flat array / flat object / array chain with siblings / two-level; counts around 1000).  Depth <= 8 otherwise, <= 400 nodes, strings of 0..3000 elements over all "
          "bytes 1..255 (control characters, quotes, backslashes, 2/3/4-byte UTF-8, lone continuation bytes, invalid leads). "
          "Every tree is read back through the public API only (is_x, typed getters, const_iterate_x, get by index and by key) "
          "and compared with the generating tree; then serialised compact and formatted (appended after a random prefix), both "
          "outputs read by an independent strict RFC 8259 reader and re-parsed by the library, each result compared with the "
          "generating tree (numbers: unchanged if strtod('%.15g') reproduces the value, else |diff| <= 2^-52 * max(|a|,|b|)), "
          "compact vs formatted re-parse compared exactly; duplicate read back and aws_json_value_compare(duplicate, original) "
          "in both case modes (skipped when more than 10 objects are nested on one path: cJSON_Compare is exponential in that "
          "depth); allocator balance after destroy. non-trivial = at least 4 mechanism flags observed in the case; distinct = "
          "distinct FNV fingerprints of (budget, operation classes, final tree contents). coverage.python_rechecked_* = trees "
          "re-read offline by Python's json module (sampled)."),
    assumptions=[
        "C locale (tolower in the vendored lookup folds ASCII letters only; the harness never calls setlocale)",
        "key lookup / duplicate test are ASCII-case-insensitive (DESIGN.md: the vendored lookup's behaviour) although json.h says "
        "'Is case sensitive' for get/has/remove; failures of case-variant operations have their own keys (C11:object:case-variant:*)",
        "number tolerance 'one part in 2^52' is taken relative to the larger magnitude (the printer's documented criterion); values "
        "passing only under that reading are counted in numbers_within_symmetric_tolerance_only, not alarmed",
        "glibc strtod/snprintf are correctly rounded (second-guessed by Python float on the recorded sample)",
        "number literals in harness text are <= 40 characters (the parser copies at most 63 characters of a literal)",
        "harness allocator never fails (library aborts on OOM)",
        "get/remove at index == size is exercised for memory safety and 'nothing else changed' only",
    ],
    min_counts={"any": {
        "tree_built_through_api": 1000, "tree_parsed_from_harness_text": 1000,
        "out_number_integer_format": 500, "out_number_le15_digits": 500, "out_number_16_17_digits": 500,
        "number_inexact_within_tolerance": 50,
        "out_short_escape": 500, "out_u00xx_escape": 500, "out_raw_bytes_ge_0x80": 500, "strings_with_invalid_utf8": 200,
        "in_uXXXX_escape": 200, "in_surrogate_pair": 100, "in_escaped_solidus": 50, "in_exponent_literal": 100,
        "duplicate_key_refused": 100, "case_variant_key_refused": 100, "case_variant_lookup": 50,
        "object_member_removed": 100, "array_remove_first": 50, "array_remove_middle": 50, "array_remove_last": 50,
        "array_index_eq_size": 30, "array_index_beyond_size": 30, "absent_key_lookup": 100,
        "deep_chain_ge_500": 10, "wide_tree_ge_1000_containers": 10, "duplicated_member_added_under_case_variant_key": 100, "print_buffer_grew_gt_256": 300, "text_tree_duplicate_keys": 100,
        "compare_duplicate_checked": 2000, "iterate_early_stop": 100,
        "sweep_numbers": 2 * 2872, "sweep_key_bytes": 2 * 255, "sweep_string_bytes": 2 * 255,
        "python_records_written": 1000,
    }},
    post=c11_json.post,
)

META = dict(
    level_text=("Generating-tree monitor: tens of thousands (quick) to millions (thorough) of PRNG-derived JSON value trees plus "
                "seed-independent sweeps of the number and byte edge cases are pushed through the real library - built by programs "
                "of API calls checked call by call against an ordered association list, or parsed from hostile but valid text of "
                "the harness's own writer - then read back through the public API only, serialised compact and formatted, read by "
                "an independent strict RFC 8259 reader, re-parsed, duplicated and compared, with the number rule of the property "
                "(exact up to 15 significant digits, 2^-52 otherwise) and allocator balance through a counting guard allocator "
                "installed as the JSON module allocator; ASan + library pre/post-conditions (Debug) and the shipped -O2 build; a "
                "sample is re-read offline by Python's json. Exploration is the right level: the property quantifies over all "
                "trees, doubles, strings and access programs; the oracle is exact per tree."),
    design_ref="DESIGN.md section 5, C11",
    level_note=("Trusted: the harness's model tree, writer and strict reader (cross-checked against each other on every text case "
                "and by Python on a sample), glibc strtod/printf, gcc ASan, the guard allocator. Holds for the trees generated "
                "(depth <= 8 and chains <= 998, <= 400 nodes, strings <= 3000 bytes, C locale). aws_json_value_compare is only "
                "called for trees with at most 10 objects nested on one path (its cost doubles per nested object level)."),
    technique="runtime monitoring: generating-tree oracle through the public API + independent strict reader + guard-allocator balance + ASan/UBSan + offline Python json",
)
