from propdefs.common import seq

PROP = "C06"

CFG = dict(
    stages=[
        seq("asan", "asan", "c06_pq.c", 40000, 4000000),
        seq("rel", "rel", "c06_pq.c", 10000, 1000000),
    ],
    rule=("case = PRNG-derived sequence of 10-300 priority-queue operations (push, push_ref with/without handle, pop, top, "
          "remove by live/dead/never-used handle, clear) on a dynamic or fenced static queue with item size from "
          "{1,2,8,9,16,24,100,127,128,129,200,256,300}; after EVERY operation the queue is compared with a reference multiset "
          "and all handle/backpointer/heap-order invariants are checked. non-trivial = at least 3 distinct mechanisms "
          "observed in the case (see mechanisms_observed); distinct = distinct FNV fingerprints of (configuration, op stream)."),
    assumptions=["comparator is a total preorder on the key byte", "harness allocator never fails (library aborts on OOM)"],
    min_counts={"any": {"remove_middle": 10, "handle_array_created_late": 10, "sliced_swap_item_gt_128": 10,
                        "comparator_boolean_a_gt_b": 100, "comparator_INT_MIN_INT_MAX": 100}},
)

META = dict(
    level_text=("Reference-multiset monitor: tens of thousands (quick) to millions (thorough) of PRNG-derived operation "
                "histories on the real priority queue, with size, contents, heap order, handle<->slot bijection and "
                "dead-handle marking compared against an independent model after every single operation, under ASan + "
                "library pre/post-conditions (Debug) and again on the shipped -O2 build. Exploration is the right level: "
                "the property quantifies over programs, and the oracle is exact per operation."),
    design_ref="DESIGN.md section 5, C06",
    level_note=("Trusted: the harness's reference model (array + linear search) and gcc ASan. Holds only for the "
                "histories generated (<=300 ops, <=96 handles, item sizes listed in the evidence rule)."),
    technique="runtime monitoring: reference-model oracle after every operation + ASan/UBSan + canaries",
)

CFG["rule"] += (" " + 'Additions: the comparator style is drawn per case (three-way, boolean a > b, scaled difference, INT_MIN/INT_MAX); stale aws_last_error()/errno between operations. One removal in four passes a by-value copy of the handle (the parameter is a pointer to const); the registered handle must be the one that ends up marked and the copy must not be written. Once per -O2 stage run: a static queue of 2^31+2 one-byte elements built through the API (2^31-1 equal elements, then 2, 1, 9), one pop that sends an element down to slot 2^31, heap order and contents checked over the whole array.')
