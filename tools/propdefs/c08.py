from propdefs.common import seq

PROP = "C08"

CFG = dict(
    stages=[
        seq("tsan", "tsan", "c08_tsched.c", 1600, 60000, wrap=True, per_proc_timeout=1800, nprocs=16),
        seq("asanh", "asanh", "c08_tsched.c", 1600, 60000, wrap=True, leak=True, per_proc_timeout=1800, nprocs=16),
        # the shipped optimisation level (-O2 -DNDEBUG: AWS_ASSERT and the library's pre/post-conditions compile to nothing):
        # under TSan, and uninstrumented at full speed
        seq("tsanrel", "tsanrel", "c08_tsched.c", 1600, 60000, wrap=True, per_proc_timeout=1800, nprocs=16),
        seq("rel", "rel", "c08_tsched.c", 1600, 60000, per_proc_timeout=1800, nprocs=16),
    ],
    rule=("case = one scenario: a real aws_thread_scheduler, 1-3 client threads running PRNG-generated scripts (schedule "
          "now / near future / >1h future / past, cancel of own earlier tasks, acquire+release pairs, pauses), task "
          "functions that schedule children, cancel other tasks from the scheduler thread or re-schedule themselves, and "
          "a final release issued by the main thread (optionally right after a last schedule) or by whichever client "
          "finishes last; schedule perturbation at pthread lock/cond/create/join calls and at atomic builtins. The "
          "merged client-boundary event log is checked for: every scheduled incarnation invoked, exactly-once per cancel "
          "class (strict: far-future cancel, cancel issued on the scheduler thread before the victim started; ambiguous "
          "racing cancels are counted, not judged), RUN only on one non-client thread and never with the clock below the "
          "task's time, CANCELED-without-cancel only inside a release call, nothing after the scheduler memory is freed, "
          "allocator balance. non-trivial = >= 3 mechanisms observed; distinct = fingerprint of (scripts, profile, "
          "schedule-point trace signature)."),
    assumptions=["callers keep task memory alive for the scenario and never cancel an unscheduled task (documented usage)",
                 "timed waits longer than 200 ms are shortened by legal spurious wake-ups (POSIX allows them)"],
    min_counts={"any": {"cancel_far_future_strict": 20, "release_right_after_schedule": 20, "tasks_pending_at_release": 20,
                        "cancel_from_task_on_scheduler_thread": 10, "final_release_by_client": 20,
                        "cancel_returned_before_task_time_strict": 50,
                        "release_right_after_last_task_returned_scheduler_empty": 20,
                        "cancel_and_schedule_from_a_CANCELED_callback": 50}},
)

META = dict(
    level_text=("Real-thread scenarios (hundreds quick, tens of thousands thorough) against the real scheduler under TSan and "
                "under ASan+LeakSanitizer, with randomised delays injected at every pthread lock/condvar/create/join call "
                "and atomic access; an event-log checker decides lost / duplicated / early / wrong-thread / late invocations "
                "and leaks per scenario. Interleavings are sampled (counts of distinct schedule-point traces are in the "
                "evidence), so this is exploration, which is what a runtime-monitoring technique can give for a "
                "for-all-schedules property."),
    design_ref="DESIGN.md section 5, C08 and section 4.4",
    level_note=("Trusted: TSan/ASan, the harness's event log (relaxed logical clock), the classification of cancels. Racing "
                "client cancels of due tasks are observationally ambiguous and only counted. Deadlock = scenario exceeding the "
                "watchdog."),
    technique="runtime monitoring: event-log checker (exactly-once, thread, not-early, not-after-release) + TSan/ASan/LSan under schedule perturbation",
)

CFG["rule"] += (" " + 'Additions: scenarios without far-future tasks release the scheduler 0-120 us after the last task function returned; one scenario in three ends with a parent cancelled from main whose CANCELED callback cancels a child and schedules a follow-up; stages tsanrel (-O2 under TSan) and rel (-O2, uninstrumented, no shortening of timed waits). Half of the schedule-now calls are made on a task object whose timestamp field still holds a far-future time from an earlier use.')
