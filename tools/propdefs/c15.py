from propdefs.common import seq

PROP = "C15"

CFG = dict(
    stages=[
        seq("seq_asan", "asan", "c15_ring.c", 20000, 2000000, mode="seq"),
        seq("seq_rel", "rel", "c15_ring.c", 10000, 1000000, mode="seq"),
        seq("conc_tsan", "tsan", "c15_ring.c", 96, 1600, mode="conc", wrap=True, params={0: 6000}, per_proc_timeout=1500),
        seq("conc_tsanrel", "tsanrel", "c15_ring.c", 96, 1600, mode="conc", wrap=True, params={0: 6000},
            per_proc_timeout=1500),
        seq("conc_asanh", "asanh", "c15_ring.c", 96, 1600, mode="conc", wrap=True, params={0: 12000},
            per_proc_timeout=1500),
        seq("conc_rel", "rel", "c15_ring.c", 96, 1600, mode="conc", params={0: 20000}, per_proc_timeout=1500),
    ],
    rule=("seq: case = 20-420 FIFO operations (acquire / acquire_up_to / release-oldest) on a ring of size from "
          "{1,2,3,7,16,64,100,255,4096} or random 1..300, interval oracle over the outstanding set, fill patterns, "
          "success-when-empty and full-capacity-after-drain asserted, failures while fragmented only counted. "
          "conc: case = one scenario of 3000-12000 (tsan) .. 40000 (rel) acquisitions by an acquirer thread with a "
          "releaser thread releasing in acquisition order; harness synchronisation is forward-only, so the library's "
          "tail release/acquire pair is the only edge that makes memory re-use race-free (TSan), overlap is judged "
          "against buffers whose release had certainly not started; schedule points at every atomic load/store. "
          "non-trivial = >= 3 mechanisms observed; distinct = fingerprint of (ring size, request stream[, interleaving "
          "signature of the schedule-point trace])."),
    assumptions=["single acquirer thread and single releaser thread releasing in acquisition order (the documented usage)",
                 "x86-64 host: weaker hardware reorderings are not produced, only what gcc emits + TSan's model"],
    min_counts={"any": {"conc_releases_completed_during_an_acquire_call": 50,
                        "conc_acquisitions_wrapped_to_start_with_outstanding": 1000,
                        "acquire_wrapped_to_start": 100, "space_before_tail_used": 100,
                        "up_to_request_far_beyond_ring_incl_SIZE_MAX": 100, "ring_of_4GiB_or_more": 100, "up_to_minimum_above_ring_size_refused": 100}},
)

META = dict(
    level_text=("Sequential histories decide containment, size, no-overlap, success-when-empty and full-capacity-after-"
                "drain exactly per operation; concurrent scenarios run the real two-thread protocol under TSan (Debug and "
                "-O2 builds), ASan and the plain -O2 build with schedule points injected at every atomic access of head and "
                "tail, an overlap oracle that is sound under concurrency, and fill patterns. Interleavings are sampled, "
                "not enumerated; evidence counts how many releases landed inside an acquire call and how many distinct "
                "schedule-point traces were seen."),
    design_ref="DESIGN.md section 5, C15 and section 4.4",
    level_note=("Trusted: gcc ThreadSanitizer's happens-before model, the harness's forward-only synchronisation. Not "
                "covered: interleavings not produced by the OS scheduler + perturbation; non-x86 memory models."),
    technique="runtime monitoring: interval/overlap oracle + fill patterns + ThreadSanitizer under schedule perturbation",
)

CFG["rule"] += (" " + 'Additions: up-to requests far beyond the ring (to SIZE_MAX) and with an impossible minimum (ring+1.., top bit set); every 64th sequential case uses a ring of 2^32-1 .. 2^33+1 bytes on an address-space-only allocator that records the requested size; aws_ring_buffer_buf_belongs_to_pool checked; stale aws_last_error()/errno.')
