from propdefs.common import seq

PROP = "C01"

CFG = dict(
    stages=[
        seq("asan", "asan", "c01_bytebuf.c", 80000, 6000000),
        # shipped -O2 -DNDEBUG build: secure zero / nospec mask are optimiser dependent; no library
        # pre/post-conditions, so the harness's own shadow model and canaries are the only oracle here
        seq("rel", "rel", "c01_bytebuf.c", 40000, 3000000),
        seq("asan_latin1", "asan", "c01_bytebuf.c", 20000, 500000, env={"VERIF_LOCALE": "latin1"}),  # 8-bit libc locale: results must not change
    ],
    rule=("case = 1-3 initialisations + 1-60 PRNG-chosen calls from byte_buf.h on a pool of 5 buffers (dynamic from the guard "
          "allocator with and without realloc entry point, static views over canary-fenced arrays, zero-capacity, "
          "from_array/from_empty_array/from_c_str) and 6 cursors (into 5 fenced read-only inputs, into pool buffers "
          "including the destination, {NULL,0}, non-NULL empty). Before each call the shadow model computes the documented "
          "outcome; after it: return value, header-named error code, all struct fields, bytes [0,len) of every buffer, every "
          "cursor, all canaries / red zones / read-only inputs; when the call reports failure the full pre-call snapshot of "
          "[0,capacity) and of the cursor. Length arguments are drawn around the remaining room (exact fit, one short, one "
          "less, 0, 1) and from {SIZE_MAX/2-1, SIZE_MAX/2, SIZE_MAX/2+1, SIZE_MAX-7, SIZE_MAX-1, SIZE_MAX}; forged huge "
          "len fields only for cursor advance/nospec, write, write_u8_n, append (refusal) and the documented overflow of "
          "append_dynamic / reserve_relative / init_cache_and_update_cursors. Blocks released by clean_up_secure, "
          "append[_byte]_dynamic_secure, aws_string_destroy_secure and aws_array_list_clean_up_secure are inspected by the "
          "allocator's release hook. non-trivial = at least 3 distinct mechanisms observed in the case (see "
          "mechanisms_observed); distinct = distinct FNV fingerprints of (inputs sizes, op stream, argument sizes)."),
    assumptions=[
        "harness allocator never fails (aws_mem_acquire aborts on OOM): OOM paths are not exercised",
        "real allocations stay below ~256 KiB: arithmetic near SIZE_MAX is reached through length arguments and forged "
        "length fields only, never through genuinely huge buffers",
        "reads outside a cursor are visible in the asan stage only (poisoned canaries); the rel stage sees writes only",
        "aliasing is limited to what the header allows: append/append_dynamic/append_and_update with a cursor into the "
        "destination",
    ],
    min_counts={"any": {
        "dynamic_growth": 200,
        "dynamic_growth_of_buffer_of_16MiB_or_more": 50,
        "dynamic_growth_source_inside_destination": 5,
        "secure_release_inspected": 100,
        "secure_releases_nonzero_before_call": 100,
        "failed_calls_compared_with_snapshot": 2000,
        "exact_fit_accepted": 100,
        "one_short_refused": 100,
        "huge_length_argument_refused": 100,
        "forged_huge_field_refused": 50,
        "split_static_list_filled_up": 20,
        "cat_stopped_part_way": 5,
        "file_read": 50,
        "static_fenced_buffer_used": 200,
        "zero_capacity_buffer_used": 100,
    }},
)

META = dict(
    level_text=("Shadow-model monitor: tens of thousands (quick) to millions (thorough) of PRNG-derived call sequences over "
                "almost every function of byte_buf.h on the real library; an independent per-operation model predicts the "
                "documented outcome, and after EVERY call return value, error code, struct fields, contents, canaries and - on "
                "failure - the complete pre-call snapshot are compared; blocks released by the secure variants are inspected "
                "at release time. Run under ASan + gating UBSan with library pre/post-conditions live (Debug) and again on the "
                "shipped -O2 -DNDEBUG build. Exploration is the right level: the property quantifies over programs x inputs and "
                "the oracle is exact per call."),
    design_ref="DESIGN.md section 5, C01",
    level_note=("Trusted: the harness's shadow model, the guard allocator / fence canaries of mon.c and gcc ASan. Holds only for "
                "the sequences generated (<= 63 calls, 5 buffers, 6 cursors, real sizes <= ~256 KiB, sizes near SIZE_MAX only as "
                "arguments / forged fields). Not covered: see 'left out' in the harness report (OOM paths, Windows-only code)."),
    technique="runtime monitoring: shadow-model oracle after every call + snapshot-on-failure + canaries + release-time inspection + ASan/UBSan",
)

CFG["rule"] += (" " + 'Additions: every 512th case runs real dynamic / secure / self appends on buffers of 8-40 MiB; every 16th case evaluates the precision the AWS_BYTE_*_PRI macros hand to printf for forged lengths and prints a fenced cursor; a third of write_from_whole_cursor calls go through the aws_string entry point; stale aws_last_error()/errno values are left between operations; stage asan_latin1 repeats cases under a single-byte libc locale. Every 16th case also wipes 24 views of 0-24 bytes at every address alignment inside a 64-byte region that ends at an inaccessible page (aws_secure_zero, aws_byte_buf_secure_zero, reset(buf,true), clean_up_secure, a sub-buffer from aws_byte_buf_advance): exactly the view becomes zero. In one cat source in five the destination itself is the source (also as second or third source).')
