"""Helpers for property definition modules."""
from runner import Stage

Q, T = "quick", "thorough"


def seq(name, variant, src, quick, thorough, **kw):
    """A stage running harness/<src> (plus optional extra sources) against library variant `variant`."""
    srcs = ["harness/" + s for s in ([src] if isinstance(src, str) else src)]
    return Stage(name, variant, srcs, {Q: quick, T: thorough}, **kw)
