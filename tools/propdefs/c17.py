from propdefs.common import seq

PROP = "C17"

CFG = dict(
    stages=[
        seq("seq_asan", "asan", "c17_memtrace.c", 2000, 100000, mode="seq"),
        seq("seq_rel", "rel", "c17_memtrace.c", 1000, 50000, mode="seq"),
        seq("thr_tsan", "tsan", "c17_memtrace.c", 96, 4800, mode="thr", wrap=True, params={0: 500}, per_proc_timeout=1800),
        seq("thr_asanh", "asanh", "c17_memtrace.c", 96, 4800, mode="thr", wrap=True, params={0: 800}, per_proc_timeout=1800),
        seq("thr_tsanrel", "tsanrel", "c17_memtrace.c", 96, 4800, mode="thr", wrap=True, params={0: 500}, per_proc_timeout=1800),  # -O2 under TSan
    ],
    rule=("seq: case = history of 100-3000 operations (acquire, calloc, realloc grow/shrink/same/to 0/from NULL, release, "
          "dump) through the public aws_mem_* API on a tracer at level NONE/BYTES/STACKS (frames per stack 0,1,8,128,500) "
          "wrapping the guard allocator with or without its own realloc/calloc; aws_mem_tracer_bytes and _count compared "
          "with the reference live set after EVERY operation, fill patterns across realloc, zero check for calloc, dump must "
          "change nothing, wrapped-allocator balance after destroy. thr: 2-8 threads on one tracer, blocks released by other "
          "threads; exact comparison at barriers, and every concurrent reading of bytes/count checked against the interval "
          "bound computed from the call/return event log. non-trivial = >= 4 (seq) / >= 3 (thr) mechanisms; distinct = "
          "fingerprint of (configuration, op stream[, schedule trace])."),
    assumptions=["x86-64: a relaxed atomic RMW used as logical clock orders events consistently with real time",
                 "the logger used during aws_mem_tracer_dump does not allocate from the traced allocator (caller obligation)"],
    min_counts={"any": {"level_none": 100, "level_stacks": 100, "realloc_same_pointer": 100, "realloc_moved": 100,
                        "dump_with_live_allocations": 100, "reading_with_activity_in_flight": 20,
                        "block_released_by_another_thread": 50,
                        "untracked_block_resized_through_tracer": 100, "more_than_4000_distinct_call_stacks": 20, "untracked_block_released_through_tracer": 100}},
)

META = dict(
    level_text=("Reference live-set monitor: byte total and allocation count compared after every operation in thousands of "
                "single-threaded histories across all tracing levels and stack depths; in multi-threaded scenarios exact "
                "comparison at barriers plus a sound interval bound for every concurrent reading, under TSan and ASan with "
                "schedule perturbation at the tracer mutex and the atomic counter."),
    design_ref="DESIGN.md section 5, C17",
    level_note="Trusted: harness live-set model, event-log clock (x86). Thread interleavings are sampled.",
    technique="runtime monitoring: reference live-set model after every operation + interval-bound checker over the event log + TSan/ASan",
)

CFG["rule"] += (" " + 'Additions: blocks obtained directly from the wrapped allocator are released / resized through the tracer; every 64th sequential case makes 4000-8192 allocations at level STACKS through as many distinct call chains; stage thr_tsanrel (-O2 under TSan). Every 512th sequential case puts four callocs of 4 GiB and more (1 x (4 GiB+4096), 65537 x 65536, (2^32+3) x 1, 48 x 100 MiB) through the tracer over an address-space-only allocator and compares the totals with the full products.')
