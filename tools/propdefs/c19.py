from propdefs.common import seq
from oracles import calendar

PROP = "C19"

SRC = "c19_date.c"
UTC = {"TZ": "UTC"}
IST = {"TZ": "Asia/Kolkata"}
# case indices 0..8029 = year sweeps 1970..9999, 8030..8039 = special blocks, then blocks of 16 PRNG-derived instants.
# p0 = UTC offset (s) the process's TZ must have (verified at start-up); p1 = one in p1 instants goes to the Python recheck.
SWEEP = 8040
Q_ASAN, T_ASAN = SWEEP + 6250, SWEEP + 625000      # + 100 000 / 10 000 000 random instants
Q_REL, T_REL = SWEEP + 1250, SWEEP + 125000        # + 20 000 / 2 000 000 random instants

CFG = dict(
    stages=[
        seq("asan_utc", "asan", SRC, Q_ASAN, T_ASAN, params={0: 0, 1: 16}, env=UTC),
        seq("asan_kolkata", "asan", SRC, Q_ASAN, T_ASAN, params={0: 19800, 1: 16}, env=IST),
        seq("rel_utc", "rel", SRC, Q_REL, T_REL, params={0: 0, 1: 64}, env=UTC),
        seq("rel_kolkata", "rel", SRC, Q_REL, T_REL, params={0: 19800, 1: 64}, env=IST),
        # a zone with daylight saving (US rules as a POSIX TZ string): every text names UTC or carries its offset, so nothing
        # may depend on it; the local-accessor oracle is off in this stage (p3)
        seq("asan_dst", "asan", SRC, Q_ASAN, T_ASAN, params={0: 0, 1: 16, 3: 1}, env={"TZ": "EST5EDT,M3.2.0,M11.1.0"}),
        # reentrancy: 2..8 threads run PRNG-derived workloads on this module at once; each thread's digest of everything it
        # observed must equal the digest of the same workload run alone (harness/mt_pure.c); p0 = rounds per thread
        seq("mt_tsan", "tsan", "mt_pure.c", 32, 3200, mode="date", params={0: 150}, wrap=True, leak=False),
        seq("mt_rel", "rel", "mt_pure.c", 32, 3200, mode="date", params={0: 1500}, leak=False),
    ],
    rule=("case = a block of second-resolution instants, identical in all stages for a given (seed, case index). Cases 0..8029: "
          "year 1970+c: every month boundary -1 s / 0 / +1 s, Feb 28 00:00:00, Feb 28 23:59:59, the second after it (Feb 29 or "
          "Mar 1), a random second of that day, Feb 29 23:59:59 in leap years, the last second of the year (for 9999 the "
          "maximum 9999-12-31T23:59:59Z) and one random instant of the year (~44 instants). Cases 8030..8039: special blocks "
          "(0,1,59,60,...,86401; 2^31 and 2^32 +-2 s; the last seconds/minutes/hours/day of 9999; the uint64 and int64 "
          "nanosecond limits +-2 s; Feb 28 -> Mar 1 of 2000..2500, 2800, 3000, 4000, 5000, 8000, 9600, 9900; powers of ten; "
          "a week of consecutive days; 2^33..2^37 +-1; random year ends). Later cases: 16 PRNG-derived instants (uniform over "
          "1970..9999, uniform over 1970..2099, day boundaries +-1 s, instants built from random calendar fields, +-1 h around "
          "month boundaries, Feb 29 of leap years, +-100 000 s around 2^31 and 2^32). For EVERY instant: both epoch "
          "constructors (milliseconds / double seconds, with and without a sub-second part), all UTC and local accessors and "
          "the three epoch views against a days-from-civil reference (itself compared with a naive year-table calendar); the "
          "six renderings (RFC 822, ISO 8601 extended, basic; full and date-only) each into fenced buffers of four regimes "
          "(large, exactly text+terminator, capacity == text length, shorter; 1 in 4 appended at a non-zero len) and compared "
          "byte for byte with the reference text; each rendered text parsed from an exact-size heap block with the explicit "
          "format and with AUTO_DETECT (alternating byte_buf/cursor entry points) plus one cross ISO/ISO_BASIC parse; 4 "
          "strings built from the same instant with a numeric offset (+-hh:mm / +-hhmm for ISO, +-hhmm for RFC 822; real-world "
          "and random offsets up to 23:59, local fields = instant + offset) or a designator (Z z for ISO; Z z UT ut UTC utc GMT "
          "gmt for RFC 822), optional fraction (.5 / ,123456 / 1-9 random digits), separator T / t / space. "
          "non-trivial = every instant of the case round-tripped in the five parseable renderings in both modes, at least one "
          "offset/designator string parsed to the right instant, and at least 4 mechanisms observed (mechanisms_observed); "
          "distinct = distinct FNV fingerprints of (instants, generated strings, parse modes). coverage.tz_cross_check compares "
          "per-case digests of inputs and of all UTC-term results between the TZ=UTC and TZ=Asia/Kolkata stages; "
          "coverage.python_rechecked_* is the Python datetime / fromisoformat / email.utils second opinion on the recorded "
          "sample (all special instants and every 16th/64th other instant, at most 8000 per process)."),
    assumptions=["the process's TZ is the one the stage sets (verified at start-up through localtime_r at 1970 and 2100; otherwise "
                 "the run is inconclusive)",
                 "tzdata provides Asia/Kolkata as a fixed +05:30 zone without DST for 1970..9999",
                 "C locale (strftime day and month names)",
                 "capacity == text length (no room for strftime's terminator) may be refused or accepted; both are counted"],
    min_counts={"any": {
        "tz_confirmed_utc_processes": 2, "tz_confirmed_nonutc_processes": 2,
        # complete year sweep in all four stages: 8030 years x 12 months x 3 instants - 1 (1969-12-31T23:59:59 is out of range)
        "month_boundary_instants": 4 * (8030 * 36 - 1),
        "leap_day_instants": 4 * 1947 * 4,   # 1947 leap years in 1970..9999, 4 instants on Feb 29 each
        "century_non_leap_feb28_mar1": 4 * 60, "century_leap_feb29": 4 * 20, "extreme_instant": 4 * 3,
        "nanos_saturated_at_uint64_max": 1000, "short_buffer_refused": 1000, "append_at_nonzero_len": 1000,
        "offset_local_date_differs_from_utc_date": 1000, "offset_local_year_differs_from_utc_year": 10,
        "iso_basic_with_offset": 1000, "rfc822_numeric_offset": 1000, "lowercase_designator": 1000,
        "fractional_seconds": 1000, "date_only_truncates_to_midnight": 1000,
        "offset_strings_parsed": 100000, "designator_strings_parsed": 100000, "roundtrips_ok": 1000000,
    }},
    post=calendar.post,
)

META = dict(
    level_text=("Reference-calendar monitor: the real library formats and re-parses every month boundary +-1 s of the years "
                "1970..9999 (289 079 instants), every Feb 28/29 -> Mar 1 transition, the century-rule years, the 32-bit "
                "roll-overs, the nanosecond saturation point, both extremes and 10^5 (quick) to 10^7 (thorough) PRNG-derived "
                "instants; for each instant all accessors, the three epoch views, six renderings x four buffer regimes in fenced "
                "storage, both parse modes and four generated offset/designator strings are compared with a days-from-civil "
                "calendar written for the harness (cross-checked against a naive year table in the harness and against Python's "
                "datetime, fromisoformat and email.utils on a recorded sample). Everything runs with TZ=UTC and again with "
                "TZ=Asia/Kolkata, with per-case digests of all UTC-term results compared between the two, under ASan + library "
                "pre/post-conditions (Debug) and on the shipped -O2 build. Exploration is the right level: the property "
                "quantifies over ~2.5x10^11 instants x formats x offsets; the month-boundary sweep is exhaustive, the rest is "
                "sampled."),
    design_ref="DESIGN.md section 5, C19",
    level_note=("Trusted: the in-harness calendars (second-guessed by Python on a sample), glibc's TZ handling for the two "
                "zones, gcc ASan, the fence canaries. Holds for the instants and strings generated; strings the library's own "
                "formatter cannot produce (no weekday, two-digit years, named non-UTC zones, missing zone = local time) are not "
                "part of C19. The RFC 822 date-only rendering cannot be parsed back (key C19:rfc822:date-only-roundtrip, "
                "reported once per process and counted per instant). Sub-second instants after 2554-07-21 make as_nanos wrap "
                "instead of saturating: outside the quantifier (second-resolution instants), recorded as a note."),
    technique="runtime monitoring: reference-calendar oracle + canaries + TZ cross-digests + Python datetime second opinion + ASan/UBSan",
)

CFG["rule"] += (" " + 'Additions: wall-clock readings at and just before the epoch with west offsets; readings inside daylight-saving switch windows; stage asan_dst runs under TZ=EST5EDT,M3.2.0,M11.1.0 with the local-accessor oracle off; stages mt_tsan/mt_rel; stale aws_last_error()/errno (ERANGE among them) before every parse and format call. A quarter of the generated fractions have 10-40 digits.')
