from propdefs.common import seq

PROP = "C02"

CFG = dict(
    stages=[
        seq("asan", "asan", "c02_hash.c", 30000, 1000000, per_proc_timeout=3600),
        seq("rel", "rel", "c02_hash.c", 10000, 500000, per_proc_timeout=3600),
        seq("asan_latin1", "asan", "c02_hash.c", 8000, 200000, per_proc_timeout=3600, env={"VERIF_LOCALE": "latin1"}),  # 8-bit libc locale
        # reentrancy: 2..8 threads run PRNG-derived workloads on this module at once; each thread's digest of everything it
        # observed must equal the digest of the same workload run alone (harness/mt_pure.c); p0 = rounds per thread
        seq("mt_tsan", "tsan", "mt_pure.c", 32, 3200, mode="hash", params={0: 150}, wrap=True, leak=False),
        seq("mt_rel", "rel", "mt_pure.c", 32, 3200, mode="hash", params={0: 1500}, leak=False),
    ],
    rule=("case = PRNG-derived history of 20-400 operations (put, create(+value assignment), find(+value assignment), "
          "remove with/without out-parameter, find+remove_element, iterator walk with PRNG-chosen iter_delete(destroy "
          "true/false) and early stop, foreach with CONTINUE / DELETE|CONTINUE / stop / DELETE+stop / ERROR(+DELETE), "
          "clear, swap, move, clean_up(+second clean_up)+re-init, eq, mirror-then-eq) on two tables over a universe of "
          "2-64 key equality classes (optionally one of them the NULL key) with several equal-but-distinct key objects "
          "per class; initial sizes 0-64; key/value destructors present or absent per table; hash function either "
          "table-driven (constant, all-zero, all-ones, end-of-array home slots, high-bits-only, two clusters, identity, "
          "random, mixed incl. 0/1/42, straddling the wrap point, stride 64) or one of the library's own hash/equality "
          "pairs (aws_string, C string, byte cursor, case-insensitive byte cursor, pointer, uint64 by identity). After "
          "EVERY operation (also after each single delete inside an iterator walk or foreach): entry count, find of "
          "every class, every slot against the reference map (key and value pointers, stored hash code, no duplicate "
          "key), Robin-Hood order/reachability, occupied slots = entry_count, geometry, exact destructor accounting per "
          "key/value object, and bit-identity of every table the operation must not modify. non-trivial = at least "
          "two of {resize, backward shift across the wrap-around point, iterator limit decreased, iterator deleted "
          "slot 0, displacement >= 4, key hashing to 0, NULL key} observed in the case; distinct = distinct FNV "
          "fingerprints of (configuration, op stream)."),
    assumptions=["hash_fn/equals_fn handed to the table are consistent and stable (table-driven per case)",
                 "harness allocator never fails (library aborts on OOM)",
                 "key objects are exclusive to one table at a time; a destroyed key object is never used again"],
    min_counts={"any": {"resize": 100, "backward_shift_crossed_wraparound": 50, "iter_limit_decreased": 50,
                        "iter_deleted_slot0_slot_wrapped": 50, "displacement_ge_4": 100, "hash_zero_key": 50,
                        "null_key": 100, "library_hash_eq_pair": 100, "foreach_delete": 100,
                        "overwrite_other_key_object": 100}},
)

META = dict(
    level_text=("Reference-map monitor: tens of thousands (quick) to millions (thorough) of PRNG-derived operation "
                "histories on two real hash tables with hostile table-driven hash functions and with the library's own "
                "hash/equality pairs; count, look-up of every key class, slot contents, Robin-Hood/reachability "
                "invariants (through private/hash_table_impl.h), exact per-object destructor counts and the "
                "iteration-with-delete oracle are checked after every single operation, under ASan + library "
                "pre/post-conditions (Debug) and again on the shipped -O2 build. Exploration is the right level: the "
                "property quantifies over programs x hash layouts, and the oracle is exact per operation."),
    design_ref="DESIGN.md section 5, C02",
    level_note=("Trusted: the harness's reference map (arrays + linear search), its table-driven hash functions and gcc "
                "ASan. Holds only for the histories generated (<= 400 operations, <= 64 key classes, slot arrays <= 128, "
                "hash layouts listed in the evidence rule)."),
    technique="runtime monitoring: reference-model oracle after every operation + structural invariants + ASan/UBSan",
)

CFG["rule"] += (" " + "Additions: random bytes are stored around cursor keys; stale aws_last_error()/errno between operations; stage asan_latin1 (single-byte libc locale); stages mt_tsan/mt_rel run 2-8 threads on hash functions and private tables and compare each thread's digest with the same workload run alone. In the ignore-case cursor family a third of the key bytes are non-letters (the high half preferred) and the letters A/a/Z/z occur more often.")
