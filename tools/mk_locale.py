#!/usr/bin/env python3
"""Compiles a minimal single-byte locale (LC_CTYPE only: ASCII plus the Latin-1 letters 0xC0-0xFF as upper/lower-case
letters) with localedef into <BUILD_ROOT>/locale/xx_XX.  The sandbox ships only C, C.utf8 and POSIX; stages that want
to run the library in a process whose libc <ctype.h> classification differs from the C locale use this one
(LOCPATH=<dir> LC_ALL=xx_XX, harness calls setlocale(LC_ALL, "") when VERIF_SETLOCALE=1).  Returns the LOCPATH or None."""
import os
import subprocess
import sys

sys.path.insert(0, os.path.dirname(os.path.abspath(__file__)))
import build  # noqa: E402


def ensure():
    root = os.path.join(build.BUILD_ROOT, "locale")
    target = os.path.join(root, "xx_XX")
    if os.path.exists(os.path.join(target, "LC_CTYPE")):
        return root
    os.makedirs(root, exist_ok=True)
    cm = os.path.join(root, "charmap")
    with open(cm, "w") as f:
        f.write("<escape_char> /\n<comment_char> %\n<code_set_name> LATIN1MIN\n<mb_cur_min> 1\n<mb_cur_max> 1\nCHARMAP\n")
        for i in range(256):
            f.write("<U%04X> /x%02x\n" % (i, i))
        f.write("END CHARMAP\n")

    def seq(a, b):
        return ";".join("<U%04X>" % i for i in range(a, b + 1) if i not in (215, 247))

    src = os.path.join(root, "src")
    with open(src, "w") as f:
        f.write("LC_CTYPE\n")
        f.write("upper %s;%s\n" % (seq(65, 90), seq(192, 222)))
        f.write("lower %s;%s\n" % (seq(97, 122), seq(223, 255)))
        f.write("digit %s\n" % seq(48, 57))
        f.write("space <U0020>;<U0009>;<U000A>;<U000B>;<U000C>;<U000D>;<U00A0>\n")
        pairs = [(i, i + 32) for i in list(range(65, 91)) + [j for j in range(192, 223) if j != 215]]
        f.write("toupper %s\n" % ";".join("(<U%04X>,<U%04X>)" % (lo, up) for up, lo in pairs))
        f.write("tolower %s\n" % ";".join("(<U%04X>,<U%04X>)" % (up, lo) for up, lo in pairs))
        f.write("END LC_CTYPE\n")
    subprocess.run(["localedef", "-c", "-f", cm, "-i", src, target], stdout=subprocess.DEVNULL, stderr=subprocess.DEVNULL)
    return root if os.path.exists(os.path.join(target, "LC_CTYPE")) else None


if __name__ == "__main__":
    print(ensure())
