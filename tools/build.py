#!/usr/bin/env python3
"""Build variants of /repo's *working tree* and harness executables against them.

Every check calls build_variant() (incremental through ninja, so edits under /repo
are picked up) and then compile_harness() (always recompiled: harnesses inline a
large part of the library from /repo/include).

Variants (DESIGN.md section 3.1):
  asan   gcc Debug (DEBUG_BUILD => library pre/post-conditions live), ASan + gating UBSan subset
  rel    the shipped configuration: RelWithDebInfo (-O2 -g -DNDEBUG), no sanitizer
  tsan   gcc Debug, TSan, force-included schedule-point header (AWS_C_COMMON_VERIF)
  tsanrel  as tsan but RelWithDebInfo (-O2 -DNDEBUG)
  asanh  asan + force-included schedule-point header
  ubcen  census build: -fsanitize=undefined, recover=all (reports are notes, never gate)
"""
import fcntl
import hashlib
import os
import subprocess
import sys
import time

VERIF = os.path.dirname(os.path.dirname(os.path.abspath(__file__)))
REPO = os.environ.get("VERIF_REPO", "/repo")
BUILD_ROOT = os.environ.get("VERIF_BUILD_ROOT") or os.path.join(VERIF, ".build")

UBSAN_GATE = ("bounds,null,pointer-overflow,vla-bound,return,unreachable,"
              "integer-divide-by-zero,bool,enum,builtin")

HOOK_FLAGS = "-DAWS_C_COMMON_VERIF=1 -include %s/hooks/verif_hooks.h" % VERIF

VARIANTS = {
    "asan": dict(
        build_type="Debug",
        cflags="-O1 -g -fno-omit-frame-pointer -fsanitize=address -fsanitize=%s "
               "-fno-sanitize-recover=all -Wno-error" % UBSAN_GATE,
        ldflags="-fsanitize=address -fsanitize=%s" % UBSAN_GATE),
    "asanh": dict(
        build_type="Debug",
        cflags="-O1 -g -fno-omit-frame-pointer -fsanitize=address -fsanitize=%s "
               "-fno-sanitize-recover=all -Wno-error %s" % (UBSAN_GATE, HOOK_FLAGS),
        ldflags="-fsanitize=address -fsanitize=%s" % UBSAN_GATE),
    "rel": dict(
        build_type="RelWithDebInfo",
        cflags="-Wno-error",
        ldflags=""),
    "tsan": dict(
        build_type="Debug",
        cflags="-O1 -g -fno-omit-frame-pointer -fsanitize=thread -Wno-error %s" % HOOK_FLAGS,
        ldflags="-fsanitize=thread"),
    # shipped optimisation level under TSan: library pre/post-conditions (which perform
    # seq_cst loads of the very atomics under test) are compiled out
    "tsanrel": dict(
        build_type="RelWithDebInfo",
        cflags="-fno-omit-frame-pointer -fsanitize=thread -Wno-error %s" % HOOK_FLAGS,
        ldflags="-fsanitize=thread"),
    # clang 14 + libFuzzer instrumentation (coverage feedback) + ASan + the gating UBSan subset; the harness drives
    # libFuzzer through LLVMFuzzerRunDriver (libclang_rt.fuzzer_no_main)
    "fuzz": dict(
        build_type="Debug", cc="clang",
        # clang's pointer-overflow check is left out here: it fires on `decl_body->ptr[decl_body->len - 1]` for the
        # XML declaration `<>` (index SIZE_MAX, i.e. ptr[-1], which is the '<' of the input: in bounds) - UB by the
        # letter, but not an access outside the input, which is what C04 states (DESIGN.md section 9).
        cflags="-O1 -g -fno-omit-frame-pointer -fsanitize=fuzzer-no-link,address -fsanitize=bounds,null,"
               "vla-bound,return,unreachable,integer-divide-by-zero,bool,enum,builtin "
               "-fno-sanitize=object-size -fno-sanitize-recover=all -Wno-error",
        ldflags="-fsanitize=address -fsanitize=bounds,null,vla-bound,return,unreachable,"
                "integer-divide-by-zero,bool,enum,builtin "
                "/usr/lib/llvm-14/lib/clang/14.0.6/lib/linux/libclang_rt.fuzzer_no_main-x86_64.a -lstdc++"),
    "ubcen": dict(
        build_type="Debug",
        cflags="-O1 -g -fno-omit-frame-pointer -fsanitize=undefined -fsanitize-recover=all -Wno-error",
        ldflags="-fsanitize=undefined"),
}

# flags of CMAKE_BUILD_TYPE that the harness TU must share with the library
BT_FLAGS = {"Debug": "-g -DDEBUG_BUILD", "RelWithDebInfo": "-O2 -g -DNDEBUG"}


class BuildError(Exception):
    pass


def _run(cmd, log, **kw):
    with open(log, "ab") as f:
        f.write(("\n$ %s\n" % " ".join(cmd)).encode())
        f.flush()
        p = subprocess.run(cmd, stdout=f, stderr=subprocess.STDOUT, **kw)
    return p.returncode


def variant_dir(variant):
    return os.path.join(BUILD_ROOT, variant)


def build_variant(variant, quiet=True):
    """cmake+ninja build of /repo's working tree; returns the build directory."""
    v = VARIANTS[variant]
    bdir = variant_dir(variant)
    os.makedirs(bdir, exist_ok=True)
    log = os.path.join(bdir, "verif_build.log")
    lock = open(os.path.join(BUILD_ROOT, variant + ".lock"), "w")
    fcntl.flock(lock, fcntl.LOCK_EX)
    try:
        t0 = time.time()
        if os.path.exists(log) and os.path.getsize(log) > (1 << 20):
            os.remove(log)
        if not os.path.exists(os.path.join(bdir, "build.ninja")):
            cmd = ["cmake", "-G", "Ninja", "-S", REPO, "-B", bdir,
                   "-DCMAKE_BUILD_TYPE=" + v["build_type"],
                   "-DBUILD_TESTING=OFF", "-DBUILD_SHARED_LIBS=OFF",
                   "-DCMAKE_C_COMPILER=" + v.get("cc", "gcc"),
                   "-DCMAKE_C_FLAGS=" + v["cflags"]]
            if _run(cmd, log) != 0:
                raise BuildError("cmake configure failed for %s (see %s)" % (variant, log))
        if _run(["cmake", "--build", bdir, "-j", "16"], log) != 0:
            raise BuildError("build failed for %s (see %s)" % (variant, log))
        lib = os.path.join(bdir, "libaws-c-common.a")
        if not os.path.exists(lib):
            raise BuildError("no libaws-c-common.a in %s" % bdir)
        if not quiet:
            print("built %s in %.1fs" % (variant, time.time() - t0))
        return bdir
    finally:
        fcntl.flock(lock, fcntl.LOCK_UN)
        lock.close()


WRAP_SYMS = ["pthread_mutex_lock", "pthread_mutex_unlock", "pthread_cond_wait",
             "pthread_cond_timedwait", "pthread_cond_signal", "pthread_cond_broadcast",
             "pthread_create", "pthread_join"]


def compile_harness(variant, sources, out_name, extra_cflags="", wrap=False, extra_ld="",
                    mon=True, hooks_in_harness=False):
    """Compile harness sources + monitor library against the variant's libaws-c-common.a."""
    v = VARIANTS[variant]
    bdir = variant_dir(variant)
    hdir = os.path.join(bdir, "harness")
    os.makedirs(hdir, exist_ok=True)
    out = os.path.join(hdir, out_name)
    log = os.path.join(hdir, out_name + ".log")
    if os.path.exists(log):
        os.remove(log)
    base = v["cflags"]
    # the monitor library and the harness are compiled WITHOUT the force-included hook header
    # (verif_sched_point would recurse into itself); harness atomics are the harness's own.
    if not hooks_in_harness:
        base = base.replace(HOOK_FLAGS, "-DAWS_C_COMMON_VERIF=1")
    cflags = (base + " " + BT_FLAGS[v["build_type"]] + " -std=gnu99 -D_GNU_SOURCE "
              "-Wall -Wno-unused-function -Wno-unused-variable -Wno-unused-but-set-variable "
              "-DVERIF_VARIANT_%s=1 " % variant.upper() + extra_cflags).split()
    inc = ["-I" + os.path.join(REPO, "include"), "-I" + os.path.join(bdir, "generated", "include"),
           "-I" + os.path.join(VERIF, "mon"), "-I" + os.path.join(VERIF, "harness"),
           "-I" + os.path.join(REPO, "source")]
    srcs = [s if os.path.isabs(s) else os.path.join(VERIF, s) for s in sources]
    if mon:
        srcs.append(os.path.join(VERIF, "mon", "mon.c"))
    ld = v["ldflags"].split() + extra_ld.split()
    # perturb.c is always linked (harnesses may use its API; tsan/asanh library objects reference
    # verif_sched_point); the __wrap_pthread_* functions only when the link uses --wrap
    if mon:
        srcs.append(os.path.join(VERIF, "mon", "perturb.c"))
    if wrap:
        ld += ["-Wl," + ",".join("--wrap=" + s for s in WRAP_SYMS)]
    else:
        cflags.append("-DVERIF_NO_WRAP=1")
    cmd = ([v.get("cc", "gcc")] + cflags + inc + srcs + [os.path.join(bdir, "libaws-c-common.a")]
           + ld + ["-lpthread", "-ldl", "-lm", "-o", out])
    if _run(cmd, log) != 0:
        raise BuildError("harness compile failed: %s (see %s)\n%s" %
                         (out_name, log, open(log, errors="replace").read()[-1500:]))
    return out


def tree_hash():
    h = hashlib.sha256()
    for top in ("source", "include", "cmake", "CMakeLists.txt"):
        p = os.path.join(REPO, top)
        if os.path.isfile(p):
            h.update(open(p, "rb").read())
            continue
        for root, dirs, files in os.walk(p):
            dirs.sort()
            for fn in sorted(files):
                fp = os.path.join(root, fn)
                h.update(fp.encode())
                try:
                    h.update(open(fp, "rb").read())
                except OSError:
                    pass
    return h.hexdigest()[:16]


if __name__ == "__main__":
    names = sys.argv[1:] or ["asan", "rel", "tsan", "asanh"]
    for n in names:
        try:
            build_variant(n, quiet=False)
        except BuildError as e:
            print("BUILD ERROR:", e)
            sys.exit(2)
