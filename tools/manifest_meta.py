"""Human-written manifest text per property."""

HOOK_COMMITS = []
NOTES = ("All checks are runtime monitors over executions of the real library (DESIGN.md). "
         "Exit 0 = held on everything observed, 1 = violation (VIOLATION line + replay file), 2 = inconclusive.")
NOT_APPLICABLE = {}

