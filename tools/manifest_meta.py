"""Human-written manifest text per property."""

HOOK_COMMITS = []
NOTES = ("All checks are runtime monitors over executions of the real library (DESIGN.md). "
         "Exit 0 = held on everything observed, 1 = violation (VIOLATION line + replay file), 2 = inconclusive.")
NOT_APPLICABLE = {}


# Only properties listed here are claimed in MANIFEST.json (a propdef may exist while its monitor is
# still being validated).
REGISTERED = ["C01", "C02", "C03", "C04", "C05", "C06", "C07", "C08", "C09", "C10", "C11", "C12", "C13", "C14", "C15", "C16", "C17", "C18", "C19", "C20"]
