"""Human-written manifest text per property."""

HOOK_COMMITS = []
NOTES = ("All checks are runtime monitors over executions of the real library (DESIGN.md). "
         "Exit 0 = held on everything observed, 1 = violation (VIOLATION line + replay file), 2 = inconclusive.")
NOT_APPLICABLE = {}

META = {}

META["C06"] = dict(
    level_text=("Reference-multiset monitor: tens of thousands (quick) to millions (thorough) of PRNG-derived operation "
                "histories on the real priority queue, with size, contents, heap order, handle<->slot bijection and "
                "dead-handle marking compared against an independent model after every single operation, under ASan + "
                "library pre/post-conditions (Debug) and again on the shipped -O2 build. Exploration is the right level: "
                "the property quantifies over programs, and the oracle is exact per operation."),
    design_ref="DESIGN.md section 5, C06",
    level_note=("Trusted: the harness's reference model (array + linear search) and gcc ASan. Holds only for the "
                "histories generated (<=300 ops, <=96 handles, item sizes listed in the evidence rule)."),
    technique="runtime monitoring: reference-model oracle after every operation + ASan/UBSan + canaries",
)
