#!/usr/bin/env python3
"""Generic driver for the runtime-monitoring checks (DESIGN.md section 3.2).

A property is a list of *stages*.  A stage = one harness executable built against one
library variant, run as N parallel processes over disjoint slices of case indices.
The driver watches every process (exit status, sanitizer reports, progress file),
restarts a slice after a crash so one defect does not mask the rest, maps every
observation to a *violation key*, consults known_findings.json, writes the evidence
file and prints VIOLATION / KNOWN-FINDING lines.

Exit codes: 0 held on everything observed, 1 violation, 2 inconclusive (harness failure).
"""
import glob
import json
import os
import re
import shutil
import signal
import struct
import subprocess
import sys
import time

sys.path.insert(0, os.path.dirname(os.path.abspath(__file__)))
import build  # noqa: E402

VERIF = build.VERIF
REPO = build.REPO
NCPU = min(16, os.cpu_count() or 1)


class Inconclusive(Exception):
    pass


# ----------------------------------------------------------------------------- known findings
def load_known():
    p = os.path.join(VERIF, "known_findings.json")
    if not os.path.exists(p):
        return []
    with open(p) as f:
        data = json.load(f)
    return [e for e in data.get("findings", []) if e.get("status") == "known"]


def match_known(known, prop, key):
    for e in known:
        if e.get("property") != prop:
            continue
        k = e.get("key", "")
        if k == key or (k.endswith("*") and key.startswith(k[:-1])):
            return e
    return None


# ----------------------------------------------------------------------------- report parsing
FRAME_RE = re.compile(r"^\s*#(\d+)\s+(?:0x[0-9a-f]+\s+)?(?:in\s+)?(\S+)\s*(.*)$")


def _interesting_frame(func, loc):
    if func.startswith("__") or func in ("memcpy", "memmove", "memset", "memchr", "memcmp", "strlen", "malloc", "free",
                                          "calloc", "realloc", "posix_memalign", "strtod", "vsnprintf", "snprintf",
                                          "printf_common", "pthread_mutex_lock", "pthread_mutex_unlock"):
        return False
    if "sanitizer" in loc or "libasan" in loc or "libtsan" in loc or "libubsan" in loc:
        return False
    if func.startswith("mon_") or func.startswith("guard_") or func.startswith("s_guard_") or func.startswith("verif_"):
        return False
    return True


def parse_asan(text):
    """Returns list of (kind, top_function) for each ASan/LSan error block."""
    out = []
    lines = text.splitlines()
    i = 0
    while i < len(lines):
        m = re.search(r"ERROR: (AddressSanitizer|LeakSanitizer): ([A-Za-z0-9_\-]+)", lines[i])
        if m:
            tool, kind = m.group(1), m.group(2)
            if kind == "detected":
                kind = "memory-leak"
            func = "?"
            j = i + 1
            while j < len(lines) and j < i + 60:
                fm = FRAME_RE.match(lines[j])
                if fm and _interesting_frame(fm.group(2), fm.group(3)):
                    func = fm.group(2)
                    break
                if lines[j].startswith("SUMMARY") or ("allocated by" in lines[j] and func != "?"):
                    break
                j += 1
            out.append(("asan" if tool == "AddressSanitizer" else "lsan", kind, func))
        i += 1
    return out


def parse_ubsan(text):
    out = []
    for m in re.finditer(r"^(\S+?):(\d+):(\d+): runtime error: (.*)$", text, re.M):
        f, msg = os.path.basename(m.group(1)), m.group(4)
        cls = re.sub(r"0x[0-9a-f]+|-?\d+", "N", msg)[:60].strip()
        out.append(("ubsan", cls, f))
    return out


def parse_assert(text):
    out = []
    for m in re.finditer(r"Fatal error condition occurred in (\S+?):(\d+): (.*)$", text, re.M):
        out.append(("assert", os.path.basename(m.group(1)), m.group(3).strip()[:80]))
    return out


def parse_tsan(text):
    """Returns list of (type, funcA, funcB) for every ThreadSanitizer warning block."""
    out = []
    blocks = re.split(r"^={18}\s*$", text, flags=re.M)
    for b in blocks:
        m = re.search(r"WARNING: ThreadSanitizer: ([^\(\n]+)", b)
        if not m:
            continue
        typ = m.group(1).strip().replace(" ", "-")
        tops = []
        cur_has = True
        for line in b.splitlines():
            if re.match(r"^\s*(Write|Read|Previous|Atomic|Mutex|Thread|Location|Cycle|As if|  Heap block)", line) or \
                    line.strip().endswith(":") and not line.strip().startswith("#"):
                cur_has = False
                continue
            fm = FRAME_RE.match(line)
            if fm and not cur_has and _interesting_frame(fm.group(2), fm.group(3)):
                tops.append(fm.group(2))
                cur_has = True
        tops = tops[:2] + ["?"] * (2 - len(tops[:2]))
        out.append(("tsan", typ, "|".join(sorted(tops[:2]))))
    return out


# ----------------------------------------------------------------------------- stage running
def _read_progress(outdir, slice_idx):
    p = os.path.join(outdir, "progress.%d" % slice_idx)
    try:
        with open(p, "rb") as f:
            data = f.read(24)
        cur, state, done = struct.unpack("<QQQ", data)
        return cur, state, done
    except Exception:
        return None


def _signame(rc):
    if rc >= 0:
        return None
    try:
        return signal.Signals(-rc).name
    except ValueError:
        return "SIG%d" % -rc


def _no_progress_for(info, outdir, now):
    """Seconds since the process last started or finished a case (progress file). The outer watchdog is a
    per-case limit: the total run time of a slice is bounded by its case count, not by wall-clock."""
    prog = _read_progress(outdir, info["sub"])
    mark = (prog[0], prog[2]) if prog else None
    if mark != info.get("last_mark"):
        info["last_mark"] = mark
        info["last_change"] = now
    return now - info.get("last_change", info["t0"])


class Stage:
    """One harness on one library variant."""

    def __init__(self, name, variant, sources, cases, mode="", params=None, env=None, wrap=False, leak=False,
                 nprocs=None, per_proc_timeout=900, extra_cflags="", extra_ld="", single_case_timeout=120,
                 min_events=None, cases_per_proc_min=1, hooks_in_harness=False, asan_opts="", tsan_opts=""):
        self.name = name
        self.variant = variant
        self.sources = sources
        self.cases = cases  # dict tier -> count
        self.mode = mode
        self.params = params or {}
        self.env = env or {}
        self.wrap = wrap
        self.leak = leak
        self.nprocs = nprocs
        self.per_proc_timeout = per_proc_timeout
        self.extra_cflags = extra_cflags
        self.extra_ld = extra_ld
        self.single_case_timeout = single_case_timeout
        self.min_events = min_events or {}
        self.cases_per_proc_min = cases_per_proc_min
        self.hooks_in_harness = hooks_in_harness
        self.asan_opts = asan_opts
        self.tsan_opts = tsan_opts


class Observation:
    def __init__(self, key, what, stage, case=None, detail="", slice_idx=0):
        self.key = key
        self.what = what
        self.stage = stage
        self.case = case
        self.detail = detail
        self.slice_idx = slice_idx


def _san_env(stage, outdir, slice_idx, attempt):
    env = dict(os.environ)
    env.update(stage.env)
    if stage.env.get("VERIF_LOCALE"):
        # run the harness in a process whose libc locale is a single-byte one built by tools/mk_locale.py
        import mk_locale
        lp = mk_locale.ensure()
        if not lp:
            raise Inconclusive("localedef could not build the 8-bit locale needed by stage %s" % stage.name)
        env["LOCPATH"] = lp
        env["LC_ALL"] = "xx_XX"
        env["VERIF_SETLOCALE"] = "1"
    leak = "1" if stage.leak else "0"
    env["ASAN_OPTIONS"] = ("abort_on_error=1:detect_leaks=%s:allocator_may_return_null=0:handle_abort=0:"
                           "detect_stack_use_after_return=0:print_summary=1:malloc_context_size=12" % leak)
    if stage.asan_opts:
        env["ASAN_OPTIONS"] += ":" + stage.asan_opts
    env["UBSAN_OPTIONS"] = "print_stacktrace=1:halt_on_error=1"
    env["LSAN_OPTIONS"] = "exitcode=23:print_suppressions=0"
    tl = os.path.join(outdir, "tsan.%d.%d" % (slice_idx, attempt))
    env["TSAN_OPTIONS"] = ("halt_on_error=0:report_signal_unsafe=0:second_deadlock_stack=1:history_size=4:"
                           "exitcode=0:log_path=%s:suppressions=%s" % (tl, os.path.join(VERIF, "tools", "tsan.supp")))
    if stage.tsan_opts:
        env["TSAN_OPTIONS"] += ":" + stage.tsan_opts
    if stage.variant == "ubcen":
        env["UBSAN_OPTIONS"] = "print_stacktrace=0:halt_on_error=0:log_path=%s" % os.path.join(
            outdir, "ubsan.%d.%d" % (slice_idx, attempt))
    return env


def _harness_cmd(exe, stage, seed, start, count, slice_idx, outdir, nsamples):
    cmd = [exe, "--seed", str(seed), "--start", str(start), "--count", str(count), "--slice", str(slice_idx),
           "--out", outdir, "--samples", str(nsamples)]
    if stage.mode:
        cmd += ["--mode", stage.mode]
    for k, v in stage.params.items():
        cmd += ["--p%d" % k, str(v)]
    return cmd


def run_stage(prop, stage, tier, seed, workdir, log):
    """Runs all slices of a stage. Returns dict with observations, summaries, fingerprints ..."""
    t0 = time.time()
    build.build_variant(stage.variant)
    exe_name = "%s_%s" % (prop.lower(), stage.name)
    exe = build.compile_harness(stage.variant, stage.sources, exe_name, extra_cflags=stage.extra_cflags,
                                wrap=stage.wrap, extra_ld=stage.extra_ld, hooks_in_harness=stage.hooks_in_harness)
    t_build = time.time() - t0
    total = stage.cases[tier]
    nprocs = stage.nprocs or NCPU
    nprocs = max(1, min(nprocs, total // max(1, stage.cases_per_proc_min) or 1))
    outdir = os.path.join(workdir, stage.name)
    shutil.rmtree(outdir, ignore_errors=True)
    os.makedirs(outdir)
    # slices: contiguous ranges
    per = total // nprocs
    rem = total % nprocs
    slices = []
    pos = 0
    for i in range(nprocs):
        n = per + (1 if i < rem else 0)
        slices.append([i, pos, n])
        pos += n
    obs = []
    summaries = []
    harness_fail = []
    MAX_RESTARTS = 6

    running = {}

    def launch(slice_idx, start, count, attempt, sub, hangs=0):
        sdir = outdir
        cmd = _harness_cmd(exe, stage, seed, start, count, sub, sdir, 3 if slice_idx == 0 and attempt == 0 else 0)
        errp = os.path.join(outdir, "stderr.%d" % sub)
        errf = open(errp, "wb")
        p = subprocess.Popen(cmd, stdout=errf, stderr=subprocess.STDOUT, env=_san_env(stage, outdir, sub, 0),
                             cwd=outdir, preexec_fn=os.setsid)
        running[p.pid] = dict(proc=p, slice=slice_idx, start=start, count=count, attempt=attempt, sub=sub,
                              t0=time.time(), errp=errp, errf=errf, cmd=cmd, hangs=hangs)

    # sub index: unique per process launch so files never collide
    next_sub = [0]

    def new_sub():
        next_sub[0] += 1
        return next_sub[0] - 1

    for s in slices:
        if s[2] > 0:
            launch(s[0], s[1], s[2], 0, new_sub())

    def handle_exit(info, rc, timed_out):
        info["errf"].close()
        sub = info["sub"]
        try:
            errtxt = open(info["errp"], errors="replace").read()
        except OSError:
            errtxt = ""
        prog = _read_progress(outdir, sub)
        # violations reported by the oracle
        vp = os.path.join(outdir, "viol.%d" % sub)
        if os.path.exists(vp):
            for line in open(vp, errors="replace"):
                line = line.strip()
                if not line:
                    continue
                try:
                    v = json.loads(line)
                except ValueError:
                    continue
                obs.append(Observation(v["key"], v["detail"][:600], stage, v.get("case"), v["detail"], sub))
        # sanitizer logs
        san_found = []
        for kind, a, b in parse_asan(errtxt):
            san_found.append(("%s:%s:%s:%s" % (prop, kind, a, b), "%s %s in %s" % (kind, a, b)))
        for kind, a, b in parse_ubsan(errtxt):
            san_found.append(("%s:ubsan:%s:%s" % (prop, b, a), "UBSan %s in %s" % (a, b)))
        for kind, a, b in parse_assert(errtxt):
            san_found.append(("%s:assert:%s:%s" % (prop, a, b), "library assertion '%s' failed in %s" % (b, a)))
        for tl in glob.glob(os.path.join(outdir, "tsan.%d.*" % sub)):
            try:
                ttxt = open(tl, errors="replace").read()
            except OSError:
                continue
            for kind, a, b in parse_tsan(ttxt):
                san_found.append(("%s:tsan:%s:%s" % (prop, a, b), "ThreadSanitizer %s between %s" % (a, b)))
        cur_case = prog[0] if prog else None
        in_case = prog and prog[1] == 1
        finished = prog and prog[1] == 2
        crashed = (rc not in (0, 1)) or timed_out or not finished
        seen = set()
        for key, what in san_found:
            if key in seen:
                continue
            seen.add(key)
            obs.append(Observation(key, what, stage, cur_case if crashed else None, errtxt[-3000:], sub))
        sp = os.path.join(outdir, "summary.%d" % sub)
        if finished and os.path.exists(sp):
            try:
                summaries.append(json.load(open(sp)))
            except ValueError:
                harness_fail.append("unreadable summary %s" % sp)
        if crashed:
            if timed_out:
                obs.append(Observation("%s:hang:%s" % (prop, stage.name), "no case started or finished for %ds (case %s)" % (
                    stage.per_proc_timeout, cur_case), stage, cur_case, errtxt[-2000:], sub))
            elif rc == 3:
                pass  # in-harness watchdog: the violation record is already in the viol file
            elif not san_found and rc is not None:
                sn = _signame(rc) or ("exit%d" % rc)
                if rc == 2 and "mon:" in errtxt:
                    harness_fail.append("harness error in %s: %s" % (stage.name, errtxt[-400:]))
                else:
                    obs.append(Observation("%s:crash:%s:%s" % (prop, sn, stage.name),
                                           "process died with %s at case %s" % (sn, cur_case), stage, cur_case,
                                           errtxt[-3000:], sub))
            # partial summary is lost; count completed cases for the evidence
            done = prog[2] if prog else 0
            summaries.append(dict(prop=prop, mode=stage.mode, evaluations=done, nontrivial=0, violations=0,
                                  wall_s=time.time() - info["t0"], flags={}, counters={}, max_counters=[],
                                  partial=True))
            # restart after the offending case; a slice whose scenarios keep hanging is abandoned after two
            # watchdog exits (every further scenario would cost a full watchdog period)
            hung = timed_out or rc == 3
            info_hangs = info.get("hangs", 0) + (1 if hung else 0)
            if hung and info_hangs >= 2:
                pass
            elif cur_case is not None and info["attempt"] < MAX_RESTARTS:
                nxt = cur_case + 1
                end = info["start"] + info["count"]
                if nxt < end:
                    launch(info["slice"], nxt, end - nxt, info["attempt"] + 1, new_sub(), info_hangs)
            elif cur_case is not None:
                harness_fail.append("slice %d of %s crashed more than %d times" % (info["slice"], stage.name,
                                                                                    MAX_RESTARTS))

    while running:
        time.sleep(0.05)
        now = time.time()
        for pid in list(running):
            info = running[pid]
            rc = info["proc"].poll()
            if rc is not None:
                del running[pid]
                handle_exit(info, rc, False)
            elif _no_progress_for(info, outdir, now) > stage.per_proc_timeout:
                try:
                    os.killpg(os.getpgid(pid), signal.SIGKILL)
                except OSError:
                    pass
                info["proc"].wait()
                del running[pid]
                handle_exit(info, None, True)
    # fingerprints
    fps = set()
    for fp in glob.glob(os.path.join(outdir, "fp.*")):
        data = open(fp, "rb").read()
        n = len(data) // 8
        if n:
            fps.update(struct.unpack("<%dQ" % n, data[:n * 8]))
    samples = []
    for sp in sorted(glob.glob(os.path.join(outdir, "samples.*"))):
        for line in open(sp, errors="replace"):
            try:
                samples.append(json.loads(line))
            except ValueError:
                pass
    notes = []
    for np_ in sorted(glob.glob(os.path.join(outdir, "notes.*"))):
        for line in open(np_, errors="replace"):
            try:
                notes.append(json.loads(line))
            except ValueError:
                pass
    distinct = {}
    for dp in glob.glob(os.path.join(outdir, "dist.*")):
        for line in open(dp, errors="replace"):
            parts = line.split()
            if len(parts) == 2:
                distinct.setdefault(parts[0], set()).add(parts[1])
    census = []
    for up in glob.glob(os.path.join(outdir, "ubsan.*")):
        try:
            census += parse_ubsan(open(up, errors="replace").read())
        except OSError:
            pass
    return dict(stage=stage, obs=obs, summaries=summaries, fps=fps, samples=samples, notes=notes,
                harness_fail=harness_fail, wall=time.time() - t0, build_s=t_build, exe=exe, nprocs=nprocs,
                total=total, census=census, outdir=outdir, distinct=distinct)


# ----------------------------------------------------------------------------- property running
def merge_counts(summaries):
    flags, counters, maxnames = {}, {}, set()
    ev = nt = 0
    for s in summaries:
        ev += s.get("evaluations", 0)
        nt += s.get("nontrivial", 0)
        for k in s.get("max_counters", []):
            maxnames.add(k)
    for s in summaries:
        for k, v in s.get("flags", {}).items():
            flags[k] = flags.get(k, 0) + v
        for k, v in s.get("counters", {}).items():
            if k in maxnames:
                counters[k] = max(counters.get(k, 0), v)
            else:
                counters[k] = counters.get(k, 0) + v
    return ev, nt, flags, counters


def sanitize(s):
    return re.sub(r"[^A-Za-z0-9_.\-]+", "_", s)[:120]


def write_evidence(prop, tier, seed, level, coverage, assumptions, wall, nviol):
    # scratch runs against another tree (VERIF_REPO / VERIF_BUILD_ROOT: mutation and seeded-change experiments) must
    # not overwrite the evidence of the real tree
    scratch = bool(os.environ.get("VERIF_REPO") or os.environ.get("VERIF_BUILD_ROOT"))
    evdir = os.path.join(build.BUILD_ROOT, "evidence") if scratch else os.path.join(VERIF, "evidence")
    os.makedirs(evdir, exist_ok=True)
    ev = dict(property_id=prop, tier=tier, seed=seed, level=level, coverage=coverage, assumptions=assumptions,
              wall_s=round(wall, 2), violations=nviol)
    path = os.path.join(evdir, prop + ".json")
    tmp = path + ".tmp"
    with open(tmp, "w") as f:
        json.dump(ev, f, indent=1, sort_keys=False)
        f.write("\n")
    os.replace(tmp, path)
    return path


def run_property(prop, cfg, tier, seed, only_stage=None, post=None):
    """cfg: dict(stages=[Stage], rule=str, assumptions=[str], min_counts={counter: min}, post=callable)"""
    t0 = time.time()
    known = load_known()
    workdir = os.path.join(build.BUILD_ROOT, "runs", "%s-%s" % (prop, tier))
    shutil.rmtree(workdir, ignore_errors=True)
    os.makedirs(workdir)
    results = []
    inconclusive = []
    for st in cfg["stages"]:
        if only_stage and st.name != only_stage:
            continue
        if tier not in st.cases or st.cases[tier] <= 0:
            continue
        try:
            r = run_stage(prop, st, tier, seed, workdir, None)
        except build.BuildError as e:
            inconclusive.append("build: %s" % e)
            continue
        results.append(r)
        inconclusive += r["harness_fail"]
    all_obs = []
    for r in results:
        all_obs += r["obs"]
    extra_cov = {}
    if cfg.get("post"):
        try:
            pobs, pcov = cfg["post"](prop, tier, seed, results)
            all_obs += pobs
            extra_cov.update(pcov)
        except Inconclusive as e:
            inconclusive.append("post: %s" % e)
    # evidence
    all_summ = [s for r in results for s in r["summaries"]]
    ev, nt, flags, counters = merge_counts(all_summ)
    fps = set()
    for r in results:
        fps |= r["fps"]
    samples = []
    for r in results:
        for s in r["samples"][:3]:
            s = dict(s)
            s["stage"] = r["stage"].name
            samples.append(s)
    samples = samples[:8]
    stage_tbl = []
    for r in results:
        e2, n2, _, _ = merge_counts(r["summaries"])
        stage_tbl.append(dict(stage=r["stage"].name, variant=r["stage"].variant, mode=r["stage"].mode,
                              env=r["stage"].env, processes=r["nprocs"], cases_requested=r["total"],
                              cases_executed=e2, nontrivial=n2, observations=len(r["obs"]),
                              wall_s=round(r["wall"], 2), build_s=round(r["build_s"], 2)))
        if e2 < r["total"] and not r["obs"]:
            inconclusive.append("stage %s executed %d of %d cases" % (r["stage"].name, e2, r["total"]))
    # minimum-observation rule: a run that observed nothing is inconclusive
    for cname, cmin in cfg.get("min_counts", {}).get(tier, cfg.get("min_counts", {}).get("any", {})).items():
        have = counters.get(cname, flags.get(cname, 0))
        if have < cmin:
            inconclusive.append("observed %s=%d < required %d" % (cname, have, cmin))
    # classify observations
    by_key = {}
    for o in all_obs:
        by_key.setdefault(o.key, []).append(o)
    violations = []
    known_hits = []
    replay_dir = os.path.join(build.BUILD_ROOT, "replays") if (os.environ.get("VERIF_REPO") or os.environ.get("VERIF_BUILD_ROOT")) else os.path.join(VERIF, "replays")
    os.makedirs(replay_dir, exist_ok=True)
    for key, lst in sorted(by_key.items()):
        o = lst[0]
        kf = match_known(known, prop, key)
        if kf:
            known_hits.append((key, kf, len(lst)))
            continue
        rp = os.path.join(replay_dir, "%s-%s.json" % (prop, sanitize(key)))
        st = o.stage
        with open(rp, "w") as f:
            json.dump(dict(property=prop, key=key, what=o.what, occurrences=len(lst), tier=tier, seed=seed,
                           stage=st.name if st else None, variant=st.variant if st else None,
                           mode=st.mode if st else None, params=st.params if st else None,
                           env=st.env if st else None, case=o.case, detail=o.detail[-4000:],
                           replay_cmd="./check %s --replay %s" % (prop, rp)), f, indent=1)
        violations.append((key, rp, o))
    notes = []
    for r in results:
        notes += r["notes"][:20]
    census = {}
    for r in results:
        for k, a, b in r["census"]:
            census["%s:%s" % (b, a)] = census.get("%s:%s" % (b, a), 0) + 1
    coverage = dict(
        evaluations=ev,
        distinct_nontrivial=len(fps),
        nontrivial_cases=nt,
        rule=cfg["rule"],
        samples=samples if samples else [{"note": "no sample recorded"}],
        mechanisms_observed=flags,
        counters=counters,
        stages=stage_tbl,
        known_findings_hit=[dict(key=k, occurrences=n, what=kf.get("what")) for k, kf, n in known_hits],
        violation_keys=[k for k, _, _ in violations],
        notes=notes[:40],
        inconclusive=inconclusive,
        tree_hash=build.tree_hash(),
    )
    dist_all = {}
    for r in results:
        for k, vs in r.get("distinct", {}).items():
            dist_all.setdefault(k, set()).update("%s:%s" % (r["stage"].name, v) for v in vs)
    if dist_all:
        coverage["distinct_observed"] = {k: len(v) for k, v in sorted(dist_all.items())}
    if census:
        coverage["ubsan_census_non_gating"] = census
    coverage.update(extra_cov)
    write_evidence(prop, tier, seed, "exploration", coverage, cfg.get("assumptions", []), time.time() - t0,
                   len(violations))
    for key, kf, n in known_hits:
        print("KNOWN-FINDING: property=%s %s [key=%s, seen %d time(s)]" % (prop, kf.get("what", ""), key, n))
    for key, rp, o in violations:
        print("VIOLATION property=%s replay=%s" % (prop, rp))
        print("  key=%s stage=%s case=%s: %s" % (key, o.stage.name if o.stage else "-", o.case, o.what[:400]))
    if violations:
        return 1
    if inconclusive:
        for m in inconclusive:
            print("INCONCLUSIVE: %s" % m)
        return 2
    print("OK property=%s tier=%s seed=%d cases=%d distinct_nontrivial=%d wall=%.1fs" % (
        prop, tier, seed, ev, len(fps), time.time() - t0))
    return 0


def replay(prop, cfg, path):
    info = json.load(open(path))
    st = None
    for s in cfg["stages"]:
        if s.name == info.get("stage"):
            st = s
    if st is None:
        print("replay: unknown stage %r" % info.get("stage"))
        return 2
    if info.get("case") is None:
        print("replay: observation has no single case (sanitizer report collected over a slice); re-running stage")
        cases = st.cases.get(info.get("tier", "quick"), 1)
        start = 0
    else:
        cases, start = 1, info["case"]
    build.build_variant(st.variant)
    exe = build.compile_harness(st.variant, st.sources, "%s_%s" % (prop.lower(), st.name),
                                extra_cflags=st.extra_cflags, wrap=st.wrap, extra_ld=st.extra_ld,
                                hooks_in_harness=st.hooks_in_harness)
    outdir = os.path.join(build.BUILD_ROOT, "runs", "%s-replay" % prop)
    shutil.rmtree(outdir, ignore_errors=True)
    os.makedirs(outdir)
    cmd = _harness_cmd(exe, st, info["seed"], start, cases, 0, outdir, 1)
    env = _san_env(st, outdir, 0, 0)
    env["VERIF_VERBOSE"] = "1"
    print("$ " + " ".join(cmd))
    p = subprocess.run(cmd, env=env, cwd=outdir)
    for tl in glob.glob(os.path.join(outdir, "tsan.*")):
        sys.stdout.write(open(tl, errors="replace").read())
    vp = os.path.join(outdir, "viol.0")
    n = 0
    if os.path.exists(vp):
        for line in open(vp):
            print(line.strip())
            n += 1
    print("replay exit status %s, %d oracle violation(s)" % (p.returncode, n))
    return 1 if (n or p.returncode not in (0,)) else 0
