#!/bin/bash
# usage: seedcheck.sh <seed_out_dir> <PROP> [extra props...]
# Verifies an independently written breaking change: applies patch.diff to a scratch worktree of /repo's HEAD, builds,
# runs the 451 baseline tests, runs the author's demonstration on the changed and on the pristine tree, then runs
# ./check PROP (quick) against the changed tree.  Prints a summary; copies the material to /verif/seeded/<name>/.
set -u
SRC=$1; shift
NAME=$(basename "$SRC")
WT=/tmp/sv_wt_$NAME
VB=/tmp/sv_vb_$NAME
OUT=/verif/seeded/$NAME
rm -rf "$WT" "$VB"; git -C /repo worktree prune
git -C /repo worktree add --detach "$WT" HEAD >/dev/null 2>&1 || { echo "worktree failed"; exit 2; }
cd "$WT"
if ! git apply "$SRC/patch.diff"; then echo "RESULT $NAME: patch does not apply"; git -C /repo worktree remove --force "$WT"; exit 2; fi
cmake -G Ninja -S . -B _b -DCMAKE_BUILD_TYPE=RelWithDebInfo -DCMAKE_C_FLAGS=-Wno-error >/dev/null 2>&1
if ! cmake --build _b -j16 >/tmp/sv_build_$NAME.log 2>&1; then echo "RESULT $NAME: does not compile"; tail -5 /tmp/sv_build_$NAME.log; fi
TESTS=$(ctest --test-dir _b -j16 --timeout 900 2>&1 | grep -E "tests passed|tests failed" | head -1)
echo "baseline tests on changed tree: $TESTS"
rm -rf _b
if [ -x "$SRC/run.sh" ] || [ -f "$SRC/run.sh" ]; then
  (cd "$SRC" && timeout 900 bash ./run.sh "$WT" >/tmp/sv_demo_mod_$NAME.log 2>&1); DM=$?
  (cd "$SRC" && timeout 900 bash ./run.sh /repo >/tmp/sv_demo_base_$NAME.log 2>&1); DB=$?
  echo "demo: changed tree exit=$DM  pristine tree exit=$DB"
else
  DM=NA; DB=NA; echo "no run.sh"
fi
find "$WT" -maxdepth 1 -name "_*" -type d -exec rm -rf {} + 2>/dev/null
mkdir -p "$OUT"; cp -f "$SRC"/patch.diff "$SRC"/meta.json "$OUT"/ 2>/dev/null; cp -f "$SRC"/demo* "$SRC"/run.sh "$OUT"/ 2>/dev/null
CHK=""
for P in "$@"; do
  RES=$(cd /verif && VERIF_REPO="$WT" VERIF_BUILD_ROOT="$VB" timeout 3000 ./check "$P" 2>&1 | grep -v "^KNOWN-FINDING")
  RC=$(echo "$RES" | grep -c "^VIOLATION")
  echo "--- ./check $P on changed tree: $RC violation line(s)"
  echo "$RES" | grep -E "^(VIOLATION|  key=|OK|INCONCLUSIVE)" | cut -c1-260 | head -8
  KEYS=$(echo "$RES" | grep "^  key=" | sed 's/^  key=\([^ ]*\).*/\1/' | sort -u | tr '\n' ' ')
  CHK="$CHK $P:[$KEYS]"
done
python3 - "$OUT" "$NAME" "$TESTS" "$DM" "$DB" "$CHK" <<'PY'
import json,sys,os
out,name,tests,dm,db,chk=sys.argv[1:7]
p=os.path.join(out,'meta.json')
try: m=json.load(open(p))
except Exception: m={}
m['verified']={'baseline_tests_on_changed_tree':tests,'demo_exit_changed_tree':dm,'demo_exit_pristine_tree':db,
               'checks_run':chk.strip(),'commands':['git apply patch.diff (scratch worktree of /repo HEAD)','cmake+ctest (451 tests)','run.sh <changed>, run.sh /repo','VERIF_REPO=<changed> ./check <PROP> (quick)']}
json.dump(m,open(p,'w'),indent=1)
PY
git -C /repo worktree remove --force "$WT" 2>/dev/null; rm -rf "$VB"
echo "RESULT $NAME done"
