#!/bin/bash
# soak: every quick check at several seeds; prints one line per run and a summary of non-OK runs
cd "$(dirname "$0")/.."
SEEDS=${SEEDS:-"2 3 7 42 1234"}
PROPS=${PROPS:-"C01 C02 C03 C04 C05 C06 C07 C08 C09 C10 C11 C12 C13 C14 C15 C16 C17 C18 C19 C20"}
TIER=${TIER:-quick}
bad=0
for s in $SEEDS; do
  for p in $PROPS; do
    out=$(VERIF_SEED=$s ./check $p --tier $TIER 2>&1); rc=$?
    echo "seed=$s $p rc=$rc $(echo "$out" | grep -E '^(OK|VIOLATION|INCONCLUSIVE)' | head -3 | tr '\n' '|' | cut -c1-300)"
    if [ $rc -ne 0 ]; then bad=$((bad+1)); fi
  done
done
echo "SOAK DONE non-zero exits: $bad"
