#!/usr/bin/env python3
"""Regenerates seeded/INDEX.md from the meta.json files."""
import glob, json, os
V = os.path.dirname(os.path.dirname(os.path.abspath(__file__)))
idx = os.path.join(V, 'seeded', 'INDEX.md')
hdr = open(idx).read().split('| change |')[0]
rows = ["| change | property | what it does | needs | caught by (quick tier, keys) |", "|---|---|---|---|---|"]
for d in sorted(glob.glob(os.path.join(V, 'seeded', 'C*_*'))):
    m = json.load(open(d + '/meta.json'))
    v = m.get('verified', {})
    note = (" — NOTE: " + v['history']) if 'history' in v else ""
    cl = lambda s, n: str(s).replace('|', '/').replace('\n', ' ')[:n]
    rows.append("| %s | %s | %s | %s | %s%s |" % (os.path.basename(d), m.get('property'), cl(m.get('summary', ''), 300),
                                                  cl(m.get('needs', ''), 220), cl(v.get('checks_run', ''), 300), cl(note, 600)))
open(idx, 'w').write(hdr + "\n".join(rows) + "\n")
print(len(rows) - 2, "entries")
