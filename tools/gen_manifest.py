#!/usr/bin/env python3
"""Regenerates /verif/MANIFEST.json from tools/props.py + tools/manifest_meta.py and validates it."""
import json
import os
import sys

HERE = os.path.dirname(os.path.abspath(__file__))
sys.path.insert(0, HERE)
import props  # noqa: E402
import manifest_meta as mm  # noqa: E402

VERIF = os.path.dirname(HERE)


def main():
    all_ids = [json.loads(l)["id"] for l in open(os.path.join(VERIF, "properties.jsonl")) if l.strip()]
    checks = []
    for pid in all_ids:
        if pid not in props.PROPS or pid not in props.METAS or pid not in mm.REGISTERED:
            continue
        m = props.METAS[pid]
        checks.append(dict(
            property_id=pid,
            quick_cmd="./check %s --tier quick" % pid,
            thorough_cmd="./check %s --tier thorough" % pid,
            evidence_file="/verif/evidence/%s.json" % pid,
            replay_cmd_template="./check %s --replay {path}" % pid,
            engine="runtime-monitor",
            level_claimed=dict(category="exploration", text=m["level_text"], design_ref=m["design_ref"]),
            level_note=m["level_note"],
            technique=m["technique"],
        ))
    claimed = {c["property_id"] for c in checks}
    na = [dict(property_id=p, reason=mm.NOT_APPLICABLE.get(p, "check not registered yet in this revision of /verif"))
          for p in all_ids if p not in claimed]
    man = dict(
        version=1,
        setup_cmd="python3 tools/build.py asan rel tsan asanh",
        hooks=dict(
            guard="AWS_C_COMMON_VERIF",
            enable=("no source hooks: tsan/asanh variants are built with -DAWS_C_COMMON_VERIF=1 -include "
                    "/verif/hooks/verif_hooks.h (schedule points at atomic builtins) and harnesses are linked with "
                    "-Wl,--wrap=pthread_* (tools/build.py)"),
            baseline_off_cmd="cmake --build /repo/_build && ctest --test-dir /repo/_build -j8 --timeout 900",
            source_commits=mm.HOOK_COMMITS,
            add_only=True,
        ),
        engines=[dict(name="runtime-monitor", path="/verif/check", serves_properties=sorted(claimed),
                      kind_free_text=("seeded hostile workloads against the real library built from /repo's working tree "
                                      "under ASan/UBSan-subset/TSan, with reference-model monitors, canaries, guard "
                                      "allocator, event-log checkers and schedule perturbation"))],
        checks=checks,
        notes=mm.NOTES,
        not_applicable=na,
    )
    out = os.path.join(VERIF, "MANIFEST.json")
    with open(out + ".tmp", "w") as f:
        json.dump(man, f, indent=1)
        f.write("\n")
    os.replace(out + ".tmp", out)
    try:
        import jsonschema
        jsonschema.validate(man, json.load(open("/root/.vp/MANIFEST.schema.json")))
        print("MANIFEST.json valid: %d checks, %d not_applicable" % (len(checks), len(na)))
    except ImportError:
        print("MANIFEST.json written (jsonschema not importable here; validate with python3-vt)")


if __name__ == "__main__":
    main()
