#!/usr/bin/env python3
"""tools/coverage.py [Cxx ...]  -- what part of the anchored code did the monitors' workloads actually execute?

Diagnostic, not a check: builds /repo's working tree with gcc --coverage (variant `cov`, Debug, -O0), compiles every
stage's harness of a property against it (same sources, mode, parameters, extra flags; sanitizer-specific stages map
to the same `cov` library), runs the quick tier's cases of every stage (same slicing as the driver, seed 1), and reports line/branch coverage of the files the property is anchored in (properties.jsonl), with the list of
lines never executed.  Inline code from include/ is measured in the harness translation unit.

Output: coverage/<Cxx>.txt (committed as part of the validation record, DESIGN.md section 11.3).
"""
import glob
import json
import os
import re
import shutil
import subprocess
import sys

HERE = os.path.dirname(os.path.abspath(__file__))
sys.path.insert(0, HERE)
import build  # noqa: E402
import props  # noqa: E402
import runner  # noqa: E402

VERIF = build.VERIF
build.VARIANTS["cov"] = dict(build_type="Debug",
                             cflags="-O0 -g --coverage -fprofile-update=atomic -Wno-error",
                             ldflags="--coverage")
SKIP_VARIANTS = ("fuzz", "ubcen")


def anchors():
    out = {}
    for line in open(os.path.join(VERIF, "properties.jsonl")):
        d = json.loads(line)
        out[d["id"]] = d["anchors"]["files"]
    return out


def gcov_json(gcno_or_gcda, cwd):
    p = subprocess.run(["gcov", "-b", "-c", "--json-format", "--stdout", gcno_or_gcda], cwd=cwd,
                       stdout=subprocess.PIPE, stderr=subprocess.DEVNULL)
    if p.returncode != 0 or not p.stdout.strip():
        return []
    res = []
    for chunk in p.stdout.decode(errors="replace").splitlines():
        chunk = chunk.strip()
        if chunk.startswith("{"):
            try:
                res.append(json.loads(chunk))
            except ValueError:
                pass
    return res


def merge(acc, doc, repo):
    for f in doc.get("files", []):
        name = os.path.normpath(os.path.join(doc.get("current_working_directory", ""), f["file"]))
        if not name.startswith(repo + "/"):
            continue
        rel = name[len(repo) + 1:]
        a = acc.setdefault(rel, {})
        for ln in f["lines"]:
            e = a.setdefault(ln["line_number"], [0, {}, ln.get("function_name", "")])
            e[0] += ln["count"]
            for bi, b in enumerate(ln.get("branches", [])):
                if b.get("throw"):
                    continue
                e[1][bi] = e[1].get(bi, 0) + b["count"]


def run_prop(prop, anchor_files):
    cfg = props.PROPS[prop]
    bdir = build.build_variant("cov")
    for f in glob.glob(os.path.join(bdir, "**", "*.gcda"), recursive=True):
        os.remove(f)
    hdir = os.path.join(bdir, "harness")
    shutil.rmtree(hdir, ignore_errors=True)
    ran = []
    for st in cfg["stages"]:
        if st.variant in SKIP_VARIANTS:
            continue
        exe_name = "%s_%s" % (prop.lower(), st.name)
        cflags = st.extra_cflags
        exe = build.compile_harness("cov", st.sources, exe_name, extra_cflags=cflags, wrap=st.wrap,
                                    extra_ld=st.extra_ld, hooks_in_harness=False)
        n = st.cases["quick"]
        if n <= 0:
            continue
        nprocs = max(1, min(st.nprocs or 16, n // max(1, st.cases_per_proc_min) or 1))
        per, rem, pos, procs = n // nprocs, n % nprocs, 0, []
        env = dict(os.environ)
        env.update(st.env)
        for i in range(nprocs):
            cnt = per + (1 if i < rem else 0)
            outdir = os.path.join(bdir, "runs", exe_name, str(i))
            shutil.rmtree(outdir, ignore_errors=True)
            os.makedirs(outdir)
            cmd = runner._harness_cmd(exe, st, 1, pos, cnt, i, outdir, 0)
            procs.append(subprocess.Popen(cmd, env=env, stdout=subprocess.DEVNULL, stderr=subprocess.DEVNULL, cwd=hdir))
            pos += cnt
        rc = 0
        for pr in procs:
            try:
                r1 = pr.wait(timeout=st.per_proc_timeout)
            except subprocess.TimeoutExpired:
                pr.kill()
                r1 = "timeout"
            if r1 != 0:
                rc = r1
        ran.append((st.name, st.variant, n, rc))
    acc = {}
    repo = os.path.realpath(build.REPO)
    objdir = os.path.join(bdir, "CMakeFiles", "aws-c-common.dir")
    for gcda in glob.glob(os.path.join(objdir, "**", "*.gcda"), recursive=True):
        for doc in gcov_json(gcda, os.path.dirname(gcda)):
            merge(acc, doc, repo)
    for gcda in glob.glob(os.path.join(hdir, "*.gcda")):
        for doc in gcov_json(gcda, hdir):
            merge(acc, doc, repo)
    lines = ["coverage of the code %s is anchored in, by the property's own workloads "
             "(gcc --coverage, -O0 Debug build of /repo's working tree)" % prop,
             "stages run (quick-tier case ranges, seed 1): " +
             ", ".join("%s[%s as cov] %d cases rc=%s" % r for r in ran), ""]
    for af in anchor_files:
        a = acc.get(af)
        if not a:
            lines.append("%-58s no executable lines recorded (declarations only, or not compiled on this platform)" % af)
            continue
        tot = len(a)
        hit = sum(1 for v in a.values() if v[0] > 0)
        btot = sum(len(v[1]) for v in a.values())
        bhit = sum(1 for v in a.values() for c in v[1].values() if c > 0)
        lines.append("%-58s lines %5d/%-5d %5.1f%%   branch outcomes %5d/%-5d %5.1f%%" %
                     (af, hit, tot, 100.0 * hit / max(1, tot), bhit, btot, 100.0 * bhit / max(1, btot)))
    lines.append("")
    for af in anchor_files:
        a = acc.get(af)
        if not a:
            continue
        src = []
        try:
            src = open(os.path.join(repo, af), errors="replace").read().splitlines()
        except OSError:
            pass
        # functions: executed / not
        fn = {}
        for ln, v in a.items():
            f = fn.setdefault(v[2], [0, 0])
            f[1] += 1
            f[0] += v[0] > 0
        never = sorted(k for k, v in fn.items() if v[0] == 0 and k)
        if never:
            lines.append("%s: functions never entered: %s" % (af, ", ".join(never)))
        miss = sorted(ln for ln, v in a.items() if v[0] == 0 and fn.get(v[2], [1])[0] > 0)
        if miss:
            lines.append("%s: lines never executed inside entered functions:" % af)
            for ln in miss:
                text = src[ln - 1].strip() if 0 < ln <= len(src) else ""
                lines.append("    %5d  %-28s %s" % (ln, a[ln][2][:28], text[:110]))
        half = sorted(ln for ln, v in a.items() if v[0] > 0 and v[1] and any(c == 0 for c in v[1].values()))
        if half:
            lines.append("%s: executed lines with a branch outcome never taken (%d): %s" %
                         (af, len(half), " ".join(str(x) for x in half)))
        lines.append("")
    os.makedirs(os.path.join(VERIF, "coverage"), exist_ok=True)
    out = os.path.join(VERIF, "coverage", prop + ".txt")
    open(out, "w").write("\n".join(lines) + "\n")
    print("\n".join(lines[:3 + len(anchor_files)]))
    print("-> %s" % out)


def main():
    an = anchors()
    want = sys.argv[1:] or sorted(an)
    for p in want:
        run_prop(p, an[p])
    return 0


if __name__ == "__main__":
    sys.exit(main())
