"""Offline second opinion for C13 (DESIGN.md section 5, C13; section 4.6).

Every harness process writes py.<n>: JSON lines sampled from its encoder/decoder cases
  {"k": "path"|"param"|"dec", "case": n, "in": hex, "ok": bool, "out": hex}
where "out" is what BOTH the library and the in-harness reference produced (the harness only records cases in which the
two agreed).  Here the same inputs go through Python's urllib.parse, which shares no code and no author with either:
  path  : quote(bytes, safe='/')      param : quote(bytes, safe='')      dec : unquote_to_bytes(text)
A difference means the harness reference and the library share a misunderstanding of RFC 3986 (violation
C13:python-second-opinion:<kind>).  urllib's decoder is lenient (it leaves malformed escapes in place), so for rejected
inputs Python is only asked whether a '%' not followed by two hex digits really exists.
"""
import glob
import json
import os
import re
import urllib.parse

import runner

_BAD_ESCAPE = re.compile(rb"%(?![0-9A-Fa-f]{2})")


def post(prop, tier, seed, results):
    obs, cov = [], {}
    checked = {"path": 0, "param": 0, "dec_accepted": 0, "dec_rejected": 0}
    for res in results:
        st = res["stage"]
        for p in sorted(glob.glob(os.path.join(res["outdir"], "py.*"))):
            for line in open(p, errors="replace"):
                try:
                    r = json.loads(line)
                    k, inp, out = r["k"], bytes.fromhex(r["in"]), bytes.fromhex(r["out"])
                except (ValueError, KeyError):
                    continue  # truncated last line of a crashed process
                bad = None
                if k == "path":
                    want = urllib.parse.quote(inp, safe="/").encode("ascii")
                    checked["path"] += 1
                    if want != out:
                        bad = "path encoding of %s: library and harness reference %r, urllib.parse.quote(safe='/') %r" % (r["in"], out, want)
                elif k == "param":
                    want = urllib.parse.quote(inp, safe="").encode("ascii")
                    checked["param"] += 1
                    if want != out:
                        bad = "param encoding of %s: library and harness reference %r, urllib.parse.quote(safe='') %r" % (r["in"], out, want)
                elif k == "dec":
                    has_bad = _BAD_ESCAPE.search(inp) is not None
                    if r["ok"]:
                        checked["dec_accepted"] += 1
                        want = urllib.parse.unquote_to_bytes(inp)
                        if has_bad:
                            bad = "decoder accepted %r which contains a '%%' not followed by two hex digits" % inp
                        elif want != out:
                            bad = "decoding of %r: library and harness reference %r, urllib.parse.unquote_to_bytes %r" % (inp, out, want)
                    else:
                        checked["dec_rejected"] += 1
                        if not has_bad:
                            bad = "decoder rejected %r in which every '%%' is followed by two hex digits" % inp
                else:
                    continue
                if bad:
                    obs.append(runner.Observation("C13:python-second-opinion:%s" % k, bad[:600], st, r.get("case"), bad))
    for k, v in checked.items():
        cov["python_rechecked_" + k] = v
    return obs, cov
