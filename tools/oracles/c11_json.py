"""Offline second opinion for C11 (DESIGN.md section 5, C11; section 4.6): Python's json module.

Every harness process writes py.<n>: JSON lines {"case", "origin", "m", "c", "f"} (hex) for a sample of the trees whose
in-harness round trip succeeded:
  m = the generating tree written by the harness's canonical writer (numbers as "%.17g")
  c = aws_byte_buf_append_json_string output, f = aws_byte_buf_append_json_string_formatted output
Python must accept c and f (strict mode: raw control characters are rejected) and read both as the tree it reads from m:
same structure and member order (object_pairs_hook keeps order and repeated keys), same strings, same booleans/nulls,
numbers unchanged when '%.15g' reproduces them and within 2^-52 relative otherwise.  Ill-formed UTF-8 bytes (the library
copies string bytes verbatim) are carried through with the surrogateescape error handler, so equality of the decoded
strings is equality of the bytes.
"""
import glob
import json
import math
import os

import runner


class _Obj(object):
    __slots__ = ("pairs",)

    def __init__(self, pairs):
        self.pairs = pairs


def _load(raw):
    return json.loads(raw.decode("utf-8", "surrogateescape"), object_pairs_hook=_Obj)


def _num_ok(w, g):
    w, g = float(w), float(g)
    if w == g:
        return True
    if math.isinf(g) or math.isnan(g):
        return False
    if float("%.15g" % w) == w:
        return False
    return abs(g - w) <= max(abs(g), abs(w)) * 2.0 ** -52


def _diff(w, g, path, stats):
    """returns None or (what, text)"""
    if isinstance(w, bool) or isinstance(g, bool) or w is None or g is None:
        if type(w) is not type(g) or w != g:
            return "literal", "%s: expected %r, Python reads %r" % (path, w, g)
        return None
    if isinstance(w, (int, float)):
        if not isinstance(g, (int, float)):
            return "kind", "%s: expected a number, Python reads %s" % (path, type(g).__name__)
        stats["numbers"] += 1
        if math.isinf(float(g)) and not math.isinf(float(w)):
            return "infinity", "%s: expected %r, the printed literal reads as %r" % (path, w, g)
        if not _num_ok(w, g):
            return "number", "%s: expected %r, Python reads %r" % (path, w, g)
        return None
    if isinstance(w, str):
        if not isinstance(g, str):
            return "kind", "%s: expected a string, Python reads %s" % (path, type(g).__name__)
        stats["strings"] += 1
        if w != g:
            return "string", "%s: expected %r, Python reads %r" % (path, w[:80], g[:80])
        return None
    if isinstance(w, list):
        if not isinstance(g, list):
            return "kind", "%s: expected an array, Python reads %s" % (path, type(g).__name__)
        if len(w) != len(g):
            return "length", "%s: expected %d elements, Python reads %d" % (path, len(w), len(g))
        for i in range(len(w)):
            d = _diff(w[i], g[i], "%s[%d]" % (path, i), stats)
            if d:
                return d
        return None
    if isinstance(w, _Obj):
        if not isinstance(g, _Obj):
            return "kind", "%s: expected an object, Python reads %s" % (path, type(g).__name__)
        if len(w.pairs) != len(g.pairs):
            return "length", "%s: expected %d members, Python reads %d" % (path, len(w.pairs), len(g.pairs))
        for i in range(len(w.pairs)):
            if w.pairs[i][0] != g.pairs[i][0]:
                return "key", "%s: member %d expected key %r, Python reads %r" % (path, i, w.pairs[i][0], g.pairs[i][0])
            stats["strings"] += 1
            d = _diff(w.pairs[i][1], g.pairs[i][1], "%s.#%d" % (path, i), stats)
            if d:
                return d
        return None
    return "kind", "%s: unexpected Python type %s" % (path, type(w).__name__)


def post(prop, tier, seed, results):
    obs, cov = [], {}
    stats = dict(trees=0, numbers=0, strings=0, valid_utf8_documents=0, api=0, text=0)
    for res in results:
        st = res["stage"]
        for p in sorted(glob.glob(os.path.join(res["outdir"], "py.*"))):
            for line in open(p, errors="replace"):
                try:
                    r = json.loads(line)
                    m, texts = bytes.fromhex(r["m"]), (("compact", bytes.fromhex(r["c"])), ("formatted", bytes.fromhex(r["f"])))
                except (ValueError, KeyError):
                    continue  # truncated last line of a process that died
                try:
                    want = _load(m)
                except (ValueError, RecursionError) as e:
                    raise runner.Inconclusive("C11: Python rejects the harness's own model text of case %s: %s" % (r.get("case"), e))
                stats["trees"] += 1
                stats["api" if "api" in r.get("origin", "") else "text"] += 1
                try:
                    m.decode("utf-8")
                    stats["valid_utf8_documents"] += 1
                except UnicodeDecodeError:
                    pass
                for name, raw in texts:
                    try:
                        got = _load(raw)
                    except (ValueError, RecursionError) as e:
                        what = "Python json rejects the %s output of case %s: %s; text (hex, first 200 bytes) %s" % (
                            name, r.get("case"), e, raw[:200].hex())
                        obs.append(runner.Observation("C11:python:rejects-output:%s" % name, what[:600], st, r.get("case"), what))
                        continue
                    d = _diff(want, got, "$", stats)
                    if d:
                        key = ("C11:number:finite-value-reads-back-as-infinity" if d[0] == "infinity"
                               else "C11:python:tree-differs:%s:%s" % (name, d[0]))
                        what = "case %s (%s), %s output: %s" % (r.get("case"), r.get("origin"), name, d[1])
                        obs.append(runner.Observation(key, what[:600], st, r.get("case"), what + "; output (hex, first 300 bytes) " + raw[:300].hex()))
    for k, v in stats.items():
        cov["python_rechecked_" + k] = v
    if results and stats["trees"] == 0 and not any(r["obs"] for r in results):
        raise runner.Inconclusive("C11: no tree reached the Python second opinion")
    return obs, cov
