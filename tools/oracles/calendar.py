"""Offline checkers for C19 (DESIGN.md section 5, C19; section 4.6).

1. Second opinion on the in-harness calendar: py.<n> = JSON lines sampled by the harness (every extreme and special
   instant, every p1-th other instant).  Each line carries the instant t, the calendar fields the LIBRARY's accessors
   returned, the six texts the LIBRARY rendered and every (string, format, accepted, timestamp) the LIBRARY parsed for
   that instant.  Fields and texts are recomputed with Python's datetime (epoch + timedelta, valid to year 9999);
   ISO 8601 strings are re-parsed with datetime.fromisoformat and RFC 822 strings with
   email.utils.parsedate_to_datetime, both independent of the harness and of the library.
2. TZ independence: every harness process writes xd.<n> = records of three little-endian uint64 (case index, digest of
   the inputs, digest of all results in UTC terms: texts, verdicts, parsed timestamps, UTC accessor values, epoch
   views).  The TZ=UTC stage and the TZ=Asia/Kolkata stage of the same build variant must agree case by case.
"""
import datetime
import email.utils
import glob
import json
import os
import struct

import runner

UTC = datetime.timezone.utc
EPOCH = datetime.datetime(1970, 1, 1, tzinfo=UTC)
WD = ["Mon", "Tue", "Wed", "Thu", "Fri", "Sat", "Sun"]  # datetime.weekday(): Monday == 0
MON = ["Jan", "Feb", "Mar", "Apr", "May", "Jun", "Jul", "Aug", "Sep", "Oct", "Nov", "Dec"]
T_MAX = 253402300799


def _texts(dt):
    return [
        "%s, %02d %s %04d %02d:%02d:%02d GMT" % (WD[dt.weekday()], dt.day, MON[dt.month - 1], dt.year, dt.hour, dt.minute,
                                                 dt.second),
        "%04d-%02d-%02dT%02d:%02d:%02dZ" % (dt.year, dt.month, dt.day, dt.hour, dt.minute, dt.second),
        "%04d%02d%02dT%02d%02d%02dZ" % (dt.year, dt.month, dt.day, dt.hour, dt.minute, dt.second),
        "%s, %02d %s %04d" % (WD[dt.weekday()], dt.day, MON[dt.month - 1], dt.year),
        "%04d-%02d-%02d" % (dt.year, dt.month, dt.day),
        "%04d%02d%02d" % (dt.year, dt.month, dt.day),
    ]


def _py_parse(text):
    """Independent parse; returns epoch seconds (fraction dropped) or None when Python cannot express/parse it."""
    s = text.strip()
    if s[:3].isalpha():
        if len(s) <= 16:
            return None  # date-only RFC 822: email.utils needs a time part as well
        try:
            dt = email.utils.parsedate_to_datetime(s.upper() if s[-1].islower() else s)
        except (TypeError, ValueError, OverflowError):
            return None
        if dt.tzinfo is None:
            dt = dt.replace(tzinfo=UTC)
    else:
        u = s.upper().replace(",", ".")
        try:
            dt = datetime.datetime.fromisoformat(u)
        except (ValueError, OverflowError):
            return None
        if dt.tzinfo is None:
            dt = dt.replace(tzinfo=UTC)  # date-only forms: midnight UTC
    try:
        delta = dt - EPOCH
    except OverflowError:
        return None
    return delta.days * 86400 + delta.seconds


def _python_recheck(res, obs, cov):
    st = res["stage"]
    n_rec = n_fields = n_texts = n_parse = n_parse_skipped = extremes = 0
    for p in sorted(glob.glob(os.path.join(res["outdir"], "py.*"))):
        for line in open(p, errors="replace"):
            try:
                r = json.loads(line)
            except ValueError:
                continue  # truncated last line of a stopped process
            t = r["t"]
            n_rec += 1
            if t in (0, T_MAX):
                extremes += 1
            dt = EPOCH + datetime.timedelta(seconds=t)
            # C weekday: Sunday == 0
            want = [dt.year, dt.month, dt.day, (dt.weekday() + 1) % 7, dt.hour, dt.minute, dt.second]
            bad = None
            if r["lib"] != want:
                bad = ("fields", "t=%d: library accessors (y,m,d,wd,h,mi,s) = %s, Python datetime = %s" % (t, r["lib"], want))
            n_fields += 1
            wt = _texts(dt)
            for i, (got, w) in enumerate(zip(r["txt"], wt)):
                n_texts += 1
                if got != w and got != "?" and not bad:  # "?": the harness has already reported that rendering
                    bad = ("text", "t=%d: library rendered %r, Python datetime gives %r" % (t, got, w))
            for text, fmt, ok, ts in r["parse"]:
                pv = _py_parse(text)
                if pv is None:
                    n_parse_skipped += 1
                    continue
                n_parse += 1
                if ok and ts != pv and not bad:
                    bad = ("parse", "t=%d: library parsed %r (%s) to %d, Python parses it to %d" % (t, text, fmt, ts, pv))
                elif not ok and not bad:
                    bad = ("parse-rejected", "t=%d: library rejects %r (%s), Python parses it to %d" % (t, text, fmt, pv))
            if bad:
                obs.append(runner.Observation("C19:python-second-opinion:%s" % bad[0], bad[1][:600], st, r.get("case"), bad[1]))
    for k, v in (("records", n_rec), ("fields", n_fields), ("texts", n_texts), ("parsed_strings", n_parse),
                 ("strings_python_cannot_parse", n_parse_skipped), ("extreme_records", extremes)):
        cov["python_rechecked_" + k] = cov.get("python_rechecked_" + k, 0) + v
    return n_rec, extremes


def _load_xd(outdir):
    d = {}
    for p in glob.glob(os.path.join(outdir, "xd.*")):
        data = open(p, "rb").read()
        for off in range(0, len(data) - 23, 24):
            c, din, dres = struct.unpack_from("<3Q", data, off)
            d[c] = (din, dres)
    return d


def post(prop, tier, seed, results):
    obs, cov = [], {}
    by_name = {r["stage"].name: r for r in results}
    table = []
    for variant in ("asan", "rel"):
        ru, rk = by_name.get(variant + "_utc"), by_name.get(variant + "_kolkata")
        if not ru or not rk:
            continue
        du, dk = _load_xd(ru["outdir"]), _load_xd(rk["outdir"])
        common = sorted(set(du) & set(dk))
        same = diff_in = diff_res = 0
        first_in = first_res = None
        for c in common:
            if du[c][0] != dk[c][0]:
                diff_in += 1
                first_in = c if first_in is None else first_in
            elif du[c][1] != dk[c][1]:
                diff_res += 1
                first_res = c if first_res is None else first_res
            else:
                same += 1
        table.append(dict(variant=variant, cases_compared=len(common), cases_equal=same, cases_input_mismatch=diff_in,
                          cases_result_mismatch=diff_res,
                          results_digest_utc="%016x" % (sum(du[c][1] for c in common) & ((1 << 64) - 1)),
                          results_digest_kolkata="%016x" % (sum(dk[c][1] for c in common) & ((1 << 64) - 1))))
        if diff_in:
            raise runner.Inconclusive("C19 %s: the UTC and Asia/Kolkata processes saw different inputs in %d case(s), first %d"
                                      % (variant, diff_in, first_in))
        if diff_res:
            what = ("texts, verdicts, parsed timestamps or UTC accessor values differ between TZ=UTC and TZ=Asia/Kolkata for "
                    "identical inputs in %d case(s) (%s build); first case %d" % (diff_res, variant, first_res))
            obs.append(runner.Observation("C19:tz-dependence:result-digest", what, ru["stage"], first_res, what))
        if not common and not (ru["obs"] or rk["obs"]):
            raise runner.Inconclusive("C19 %s: no case to compare between the two TZ stages" % variant)
    cov["tz_cross_check"] = table
    total = ext = 0
    for r in results:
        n, e = _python_recheck(r, obs, cov)
        total += n
        ext += e
    if results and (total == 0 or ext == 0):
        raise runner.Inconclusive("C19: Python second opinion saw %d records, %d of them extremes" % (total, ext))
    return obs, cov
