#!/usr/bin/env python3
"""Offline second opinion for C10: an independent CBOR reader in Python (RFC 8949, struct for the floats).

Input: the JSONL files `c10dump.<slice>` written by harness/c10_cbor.c for the first small cases of every process:
    {"case": N, "hex": "<encoded bytes>", "exp": [[offset, end_index, kind, value...], ...]}
kinds: u uint, n negint, f float (width, raw bits | "nan"), b/t bytes/text (hex), a array(count), m map(count),
       g tag, o bool, z null, x undefined, k break, ib/it/ia/im indefinite starts.
For every case the bytes are parsed from scratch (heads, shortest-head rule, nesting) and compared with `exp`:
element kinds and values, byte offsets, and the index of the element following each complete data item.

Usable by hand:  python3 tools/oracles/cbor_ref.py <dump files...>
"""
import json
import math
import struct
import sys


class Malformed(Exception):
    pass


def read_elements(buf):
    """-> list of dicts(off, kind, val, end) ; raises Malformed"""
    out = []
    stack = []  # [start_index, mode, major, remaining/count]  mode: 'def' | 'tag' | 'indef'
    pos = 0
    n = len(buf)
    while pos < n:
        ib = buf[pos]
        major, ai = ib >> 5, ib & 31
        off = pos
        pos += 1
        if 28 <= ai <= 30:
            raise Malformed("reserved additional information %d at %d" % (ai, off))
        width = {24: 1, 25: 2, 26: 4, 27: 8}.get(ai, 0)
        if pos + width > n:
            raise Malformed("head at %d truncated" % off)
        arg = ai if ai < 24 else int.from_bytes(buf[pos:pos + width], "big") if width else None
        raw = bytes(buf[pos:pos + width])
        pos += width
        indef = ai == 31
        if major <= 6 and not indef:
            least = {0: 0, 1: 24, 2: 0x100, 4: 0x10000, 8: 0x100000000}[width]
            if arg < least:
                raise Malformed("non-shortest head: major %d argument %d in %d bytes at %d" % (major, arg, 1 + width, off))
        if indef and major in (0, 1, 6):
            raise Malformed("indefinite marker on major %d at %d" % (major, off))
        el = dict(off=off, end=-1)
        opens = None
        if major == 0:
            el.update(kind="u", val=arg)
        elif major == 1:
            el.update(kind="n", val=arg)
        elif major in (2, 3):
            if indef:
                el.update(kind="ib" if major == 2 else "it", val=None)
                opens = ("indef", 0)
            else:
                if pos + arg > n:
                    raise Malformed("string at %d runs past the end" % off)
                el.update(kind="b" if major == 2 else "t", val=bytes(buf[pos:pos + arg]))
                if major == 3:
                    try:
                        el["val"].decode("utf-8")
                    except UnicodeDecodeError:
                        el["utf8_invalid"] = True
                pos += arg
        elif major in (4, 5):
            if indef:
                el.update(kind="ia" if major == 4 else "im", val=None)
                opens = ("indef", 0)
            else:
                el.update(kind="a" if major == 4 else "m", val=arg)
                cnt = arg if major == 4 else 2 * arg
                if cnt:
                    opens = ("def", cnt)
        elif major == 6:
            el.update(kind="g", val=arg)
            opens = ("tag", 1)
        else:
            if ai == 20 or ai == 21:
                el.update(kind="o", val=ai == 21)
            elif ai == 22:
                el.update(kind="z", val=None)
            elif ai == 23:
                el.update(kind="x", val=None)
            elif ai == 25:
                el.update(kind="f", width=2, bits=arg, val=struct.unpack(">e", raw)[0])
            elif ai == 26:
                el.update(kind="f", width=4, bits=arg, val=struct.unpack(">f", raw)[0])
            elif ai == 27:
                el.update(kind="f", width=8, bits=arg, val=struct.unpack(">d", raw)[0])
            elif ai == 31:
                el.update(kind="k", val=None)
            else:
                raise Malformed("unsupported simple value head 0x%02x at %d" % (ib, off))
        # context
        if stack and stack[-1][1] == "indef" and stack[-1][2] in (2, 3):
            if el["kind"] != "k" and not (el["kind"] == ("b" if stack[-1][2] == 2 else "t")):
                raise Malformed("chunk at %d is not a definite string of the enclosing type" % off)
        out.append(el)
        idx = len(out)
        done = False
        if el["kind"] == "k":
            if not stack or stack[-1][1] != "indef":
                raise Malformed("break outside an indefinite item at %d" % off)
            if stack[-1][2] == 5 and stack[-1][3] % 2:
                raise Malformed("indefinite map closed after an odd number of items at %d" % off)
            out[stack.pop()[0]]["end"] = idx
            done = True
        elif opens:
            stack.append([idx - 1, opens[0], major, opens[1]])
        else:
            el["end"] = idx
            done = True
        while done and stack:
            top = stack[-1]
            if top[1] == "indef":
                top[3] += 1
                break
            top[3] -= 1
            if top[3] > 0:
                break
            out[stack.pop()[0]]["end"] = idx
    if stack:
        raise Malformed("input ends inside %d open item(s)" % len(stack))
    return out


def check_record(rec):
    """-> list of (key, detail)"""
    buf = bytes.fromhex(rec["hex"])
    try:
        got = read_elements(buf)
    except Malformed as e:
        key = "C10:py-non-shortest-head" if "non-shortest" in str(e) else "C10:py-malformed"
        return [(key, "python reader: %s; encoding %s" % (e, rec["hex"][:160]))]
    exp = rec["exp"]
    if len(got) != len(exp):
        return [("C10:py-sequence", "python reader found %d elements, harness expected %d; encoding %s" % (
            len(got), len(exp), rec["hex"][:160]))]
    for i, (g, x) in enumerate(zip(got, exp)):
        off, end, kind = x[0], x[1], x[2]
        ok = g["kind"] == kind and g["off"] == off and g["end"] == end
        if ok:
            if kind in ("u", "n", "a", "m", "g"):
                ok = g["val"] == x[3]
            elif kind in ("b", "t"):
                ok = g["val"] == bytes.fromhex(x[3])
            elif kind == "o":
                ok = g["val"] == bool(x[3])
            elif kind == "f":
                if x[4] == "nan":
                    ok = g["width"] == x[3] and math.isnan(g["val"])
                else:
                    ok = g["width"] == x[3] and g["bits"] == x[4]
        if not ok:
            shown = dict(g)
            if isinstance(shown.get("val"), bytes):
                shown["val"] = shown["val"][:24].hex()
            return [("C10:py-sequence", "element %d: harness expected %r, python reader sees %r; encoding %s" % (
                i, x[:5], shown, rec["hex"][:160]))]
    return []


def check_file(path):
    """-> (records_checked, elements_checked, [(case, key, detail)])"""
    nrec = nel = 0
    bad = []
    with open(path, errors="replace") as f:
        for line in f:
            line = line.strip()
            if not line:
                continue
            try:
                rec = json.loads(line)
            except ValueError:
                continue  # truncated last line of a crashed process
            nrec += 1
            nel += len(rec["exp"])
            for key, detail in check_record(rec):
                bad.append((rec["case"], key, detail))
    return nrec, nel, bad


if __name__ == "__main__":
    rc = 0
    for p in sys.argv[1:]:
        nrec, nel, bad = check_file(p)
        print("%s: %d records, %d elements, %d disagreements" % (p, nrec, nel, len(bad)))
        for case, key, detail in bad:
            print("  case %s %s: %s" % (case, key, detail))
            rc = 1
    sys.exit(rc)
