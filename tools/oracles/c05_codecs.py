"""Offline checkers for C05 (DESIGN.md section 5, C05; section 4.6).

1. Cross-path comparison: every harness process writes xd.<n> = records of four little-endian uint64
   (block = case index // 64, cases in block, sum of per-case input digests, sum of per-case result digests).
   The vector-path stage and the portable-path stage of the same build variant must agree block by block:
   differing input digests mean the two processes did not see the same inputs (harness failure, inconclusive);
   equal inputs with differing result digests mean a verdict, a reported length or an output byte depended on
   the CPU path (violation).
2. Second opinion on the in-harness reference: py.<n> = JSON lines sampled by the harness; encodings and accepted
   decodings are recomputed with Python's base64/binascii, UTF-8 verdicts and code points with bytes.decode.
"""
import base64
import binascii
import glob
import json
import os
import struct

import runner

M64 = (1 << 64) - 1


def _load_xd(outdir):
    blocks = {}
    for p in glob.glob(os.path.join(outdir, "xd.*")):
        data = open(p, "rb").read()
        for off in range(0, len(data) - 31, 32):
            b, n, din, dres = struct.unpack_from("<4Q", data, off)
            cur = blocks.get(b, (0, 0, 0))
            blocks[b] = (cur[0] + n, (cur[1] + din) & M64, (cur[2] + dres) & M64)
    return blocks


def _counter(res, name):
    return sum(s.get("counters", {}).get(name, 0) for s in res["summaries"])


def _python_recheck(res, obs, cov):
    st = res["stage"]
    checked = {"b64enc": 0, "b64dec": 0, "hexenc": 0, "hexdec": 0, "utf8": 0, "utf8_skipped_above_10FFFF": 0}
    for p in sorted(glob.glob(os.path.join(res["outdir"], "py.*"))):
        for line in open(p, errors="replace"):
            try:
                r = json.loads(line)
            except ValueError:
                continue  # truncated last line of a crashed process
            k, inp = r["k"], bytes.fromhex(r["in"])
            bad = None
            if k == "b64enc":
                want = base64.b64encode(inp)
                if bytes.fromhex(r["out"]) != want:
                    bad = "aws_base64_encode(%s) = %r, Python base64.b64encode = %r" % (r["in"], bytes.fromhex(r["out"]), want)
            elif k == "hexenc":
                want = binascii.hexlify(inp)
                if bytes.fromhex(r["out"]) != want:
                    bad = "aws_hex_encode(%s) = %r, Python binascii.hexlify = %r" % (r["in"], bytes.fromhex(r["out"]), want)
            elif k == "b64dec":
                if not r["ok"]:
                    continue
                try:
                    want = binascii.a2b_base64(inp, strict_mode=True)
                except (binascii.Error, ValueError) as e:
                    want = None
                    bad = "aws_base64_decode accepted %r which Python a2b_base64(strict_mode=True) rejects (%s)" % (inp, e)
                if want is not None and want != bytes.fromhex(r["out"]):
                    bad = "aws_base64_decode(%r) = %s, Python = %s" % (inp, r["out"], want.hex())
            elif k == "hexdec":
                if not r["ok"]:
                    continue
                txt = inp if len(inp) % 2 == 0 else b"0" + inp
                try:
                    want = binascii.unhexlify(txt)
                except (binascii.Error, ValueError) as e:
                    want = None
                    bad = "aws_hex_decode accepted %r which Python unhexlify rejects (%s)" % (inp, e)
                if want is not None and want != bytes.fromhex(r["out"]):
                    bad = "aws_hex_decode(%r) = %s, Python = %s" % (inp, r["out"], want.hex())
            elif k == "utf8":
                if any(cp > 0x10FFFF for cp in r["cps"]):
                    checked["utf8_skipped_above_10FFFF"] += 1
                    continue
                try:
                    s = inp.decode("utf-8", errors="strict")
                    pok, pcps = True, [ord(ch) for ch in s]
                except UnicodeDecodeError as e:
                    pok = False
                    pcps = [ord(ch) for ch in inp[:e.start].decode("utf-8")]
                if pok != r["ok"] or pcps != r["cps"]:
                    bad = "aws_decode_utf8(%s): %s %s; Python: %s %s" % (r["in"], "valid" if r["ok"] else "invalid", r["cps"],
                                                                         "valid" if pok else "invalid", pcps)
            else:
                continue
            checked[k] += 1
            if bad:
                obs.append(runner.Observation("C05:python-second-opinion:%s" % k, bad[:600], st, r.get("case"), bad))
    for k, v in checked.items():
        cov["python_rechecked_" + k] = cov.get("python_rechecked_" + k, 0) + v


def post(prop, tier, seed, results):
    obs, cov = [], {}
    by_name = {r["stage"].name: r for r in results}
    table = []
    for variant in ("asan", "rel"):
        rv, rp = by_name.get(variant + "_vector"), by_name.get(variant + "_portable")
        if not rv or not rp:
            continue
        conf_v = _counter(rv, "path_confirmed_vector_" + variant)
        conf_p = _counter(rp, "path_confirmed_portable_" + variant)
        row = dict(variant=variant, vector_processes_confirmed=conf_v, portable_processes_confirmed=conf_p)
        if not conf_v or not conf_p or _counter(rv, "path_unconfirmed") or _counter(rp, "path_unconfirmed"):
            row["compared"] = "no: a CPU path could not be confirmed (inconclusive, see min_counts)"
            table.append(row)
            continue
        bv, bp = _load_xd(rv["outdir"]), _load_xd(rp["outdir"])
        same = diff_in = diff_res = skipped = 0
        first_res = first_in = None
        for b in sorted(set(bv) | set(bp)):
            v, p = bv.get(b), bp.get(b)
            if v is None or p is None or v[0] != p[0]:
                skipped += 1  # a process stopped early (violations / crash): already reported by that stage
                continue
            if v[1] != p[1] and (rv["obs"] or rp["obs"]):
                skipped += 1  # a case that reported violations cuts its sweep short, so it digests fewer inputs
            elif v[1] != p[1]:
                diff_in += 1
                first_in = b if first_in is None else first_in
            elif v[2] != p[2]:
                diff_res += 1
                first_res = b if first_res is None else first_res
            else:
                same += 1
        row.update(blocks_equal=same, blocks_input_mismatch=diff_in, blocks_result_mismatch=diff_res,
                   blocks_not_comparable=skipped, cases_per_block=64,
                   inputs_digest_vector="%016x" % (sum(x[1] for x in bv.values()) & M64),
                   inputs_digest_portable="%016x" % (sum(x[1] for x in bp.values()) & M64),
                   results_digest_vector="%016x" % (sum(x[2] for x in bv.values()) & M64),
                   results_digest_portable="%016x" % (sum(x[2] for x in bp.values()) & M64))
        table.append(row)
        if diff_in:
            raise runner.Inconclusive("C05 %s: vector and portable processes saw different inputs in %d block(s), first cases %d..%d"
                                      % (variant, diff_in, first_in * 64, first_in * 64 + 63))
        if diff_res:
            what = ("verdict, reported length or output bytes differ between AWS_COMMON_AVX2=1 and =0 for identical inputs in %d "
                    "block(s) of 64 cases (%s build); first block: cases %d..%d" % (diff_res, variant, first_res * 64,
                                                                                  first_res * 64 + 63))
            obs.append(runner.Observation("C05:cross-path:result-digest", what, rv["stage"], first_res * 64, what))
        if same == 0 and not (rv["obs"] or rp["obs"]):
            raise runner.Inconclusive("C05 %s: no comparable digest block" % variant)
    cov["cross_path"] = table
    for r in results:
        _python_recheck(r, obs, cov)
    return obs, cov
