"""Collects per-property definitions from tools/propdefs/cXX.py.

Each module defines:  PROP = "Cxx";  CFG = dict(stages=[...], rule=..., assumptions=[...], min_counts={...}, post=fn?)
                      META = dict(level_text=..., design_ref=..., level_note=..., technique=...)
"""
import importlib
import os
import pkgutil
import sys

HERE = os.path.dirname(os.path.abspath(__file__))
sys.path.insert(0, HERE)

PROPS = {}
METAS = {}

import propdefs  # noqa: E402

for _m in sorted(pkgutil.iter_modules(propdefs.__path__), key=lambda m: m.name):
    mod = importlib.import_module("propdefs." + _m.name)
    if getattr(mod, "PROP", None) and getattr(mod, "CFG", None):
        PROPS[mod.PROP] = mod.CFG
        if getattr(mod, "META", None):
            METAS[mod.PROP] = mod.META
