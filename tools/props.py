"""Per-property stage tables (DESIGN.md section 5)."""
from runner import Stage

Q, T = "quick", "thorough"


def seq(name, variant, src, quick, thorough, **kw):
    return Stage(name, variant, ["harness/" + src], {Q: quick, T: thorough}, **kw)


PROPS = {}

PROPS["C06"] = dict(
    stages=[
        seq("asan", "asan", "c06_pq.c", 40000, 4000000),
        seq("rel", "rel", "c06_pq.c", 10000, 1000000),
    ],
    rule=("case = PRNG-derived sequence of 10-300 priority-queue operations (push, push_ref with/without handle, pop, top, "
          "remove by live/dead/never-used handle, clear) on a dynamic or fenced static queue with item size from "
          "{1,2,8,9,16,24,100,127,128,129,200,256,300}; after EVERY operation the queue is compared with a reference multiset "
          "and all handle/backpointer/heap-order invariants are checked. non-trivial = at least 3 distinct mechanisms "
          "observed in the case (see mechanisms_observed); distinct = distinct FNV fingerprints of (configuration, op stream)."),
    assumptions=["comparator is a total preorder on the key byte", "harness allocator never fails (library aborts on OOM)"],
    min_counts={"any": {"remove_middle": 10, "handle_array_created_late": 10, "sliced_swap_item_gt_128": 10}},
)
