/*
 * Monitor library shared by all harnesses (DESIGN.md section 4).
 *   - splittable PRNG: every case is reproducible from (seed, property, case index)
 *   - case bookkeeping: fingerprints, mechanism flags, counters, samples, violations
 *   - guard allocator (red zones, junk fill, release-time inspection, balance)
 *   - fenced caller-provided storage (canaries)
 *   - per-thread event log with a relaxed logical clock (threaded harnesses)
 */
#ifndef VERIF_MON_H
#define VERIF_MON_H

#include <stdarg.h>
#include <stdbool.h>
#include <stddef.h>
#include <stdint.h>
#include <stdio.h>
#include <string.h>

struct aws_allocator;

/* ------------------------------------------------------------------ PRNG */
struct mon_rng {
    uint64_t s[4];
};
uint64_t mon_splitmix(uint64_t *x);
void mon_rng_seed(struct mon_rng *r, uint64_t seed, uint64_t stream, uint64_t idx);
uint64_t mon_rand(struct mon_rng *r);
/* uniform in [0,n); n==0 -> 0 */
uint64_t mon_below(struct mon_rng *r, uint64_t n);
/* uniform in [lo,hi] */
uint64_t mon_range(struct mon_rng *r, uint64_t lo, uint64_t hi);
/* true with probability num/den */
bool mon_chance(struct mon_rng *r, unsigned num, unsigned den);
/* size in [0,max] biased to edges: 0,1,max,max-1, powers of two +-1 */
size_t mon_edge_size(struct mon_rng *r, size_t max);
void mon_fill_random(struct mon_rng *r, void *dst, size_t n);

/* ------------------------------------------------------------------ run control */
struct mon_run {
    const char *prop;  /* "C06" */
    uint64_t seed;
    uint64_t start;    /* first case index */
    uint64_t count;    /* number of cases */
    int slice;         /* index of this process among its siblings */
    int nsamples;      /* how many sample cases to write out */
    const char *outdir;
    const char *mode;  /* harness-specific sub-mode (--mode) */
    long param[8];     /* harness-specific numeric parameters (--p0 .. --p7) */
    int max_viol;
};
extern struct mon_run mon_run;
extern struct mon_rng mon_case_rng; /* seeded by mon_case_begin */

/* parses --seed --start --count --slice --samples --out --mode --pN ; returns 0 or exits(2) */
int mon_init(int argc, char **argv, const char *prop);
/* true while another case should run; sets *case_idx */
bool mon_next_case(uint64_t *case_idx);
void mon_case_begin(uint64_t case_idx);
/* nontrivial: did this case reach the mechanisms the property is about */
void mon_case_end(bool nontrivial);
/* mix a value into the current case's fingerprint (operation stream, configuration) */
void mon_fp(uint64_t v);
/* mechanism flag (0..63) OBSERVED in this case; counted per flag over the run */
void mon_flag(int bit);
unsigned mon_flag_count(void); /* popcount of this case's flags */
void mon_flag_name(int bit, const char *name);
/* named counters summed over the run (max 96 distinct names; pointer-stable literals) */
void mon_count(const char *name, uint64_t delta);
void mon_count_max(const char *name, uint64_t value);
/* set-valued observation: the driver reports the number of DISTINCT values seen per name over all processes
 * (e.g. interleaving signatures, completion orders); main thread only */
void mon_distinct(const char *name, uint64_t value);
/* sample text for the evidence file; only recorded while mon_sampling() */
bool mon_sampling(void);
void mon_sample(const char *fmt, ...) __attribute__((format(printf, 1, 2)));
/* violation: key is a stable class of failure, detail is the witness */
void mon_violation(const char *key, const char *fmt, ...) __attribute__((format(printf, 2, 3)));
uint64_t mon_violations(void);
/* a note (not a violation) that ends up in the evidence */
void mon_note(const char *fmt, ...) __attribute__((format(printf, 1, 2)));

/* leaves a stale error code of an unrelated, earlier failure in the thread's last-error slot (or clears it): a successful call
 * must not look at it. Called by harnesses between operations. */
struct mon_rng;
void mon_poison_last_error(struct mon_rng *r);
/* writes summary files; returns process exit code (0 ok, 1 violations) */
int mon_finish(void);
/* Scenario watchdog (threaded harnesses): if mon_watchdog_disarm() is not called within `seconds` of wall-clock
 * time, a violation with `key` is recorded (detail = what) and the process exits with status 3; the driver then
 * restarts the slice after the offending case. Generous limits only: the firing of a watchdog is a hang verdict. */
void mon_watchdog_arm(unsigned seconds, const char *key, const char *what);
void mon_watchdog_disarm(void);
/* hex helper: writes at most max bytes of src as hex into a static ring of buffers */
const char *mon_hex(const void *src, size_t n, size_t max);

#define MON_CHECK(cond, key, ...)                                                                  \
    do {                                                                                           \
        if (!(cond)) {                                                                             \
            mon_violation((key), __VA_ARGS__);                                                     \
        }                                                                                          \
    } while (0)

/* ------------------------------------------------------------------ guard allocator */
struct mon_alloc_stats {
    uint64_t live_blocks;
    uint64_t live_bytes;
    uint64_t total_acquires;
    uint64_t total_releases;
    uint64_t peak_bytes;
    uint64_t redzone_errors;
};
/* every call returns the same allocator object */
struct aws_allocator *mon_guard_allocator(void);
/* same counters/red zones but provides mem_realloc and mem_calloc entry points as well */
struct aws_allocator *mon_guard_allocator_full(void);
void mon_guard_stats(struct mon_alloc_stats *out);
/* called with the payload right before it is junk-filled and freed */
typedef void(mon_release_hook_fn)(void *payload, size_t size, void *user);
void mon_guard_set_release_hook(mon_release_hook_fn *fn, void *user);
/* keep a list of live blocks (off under TSan: the list lock would add happens-before edges) */
void mon_guard_track_live(bool on);
/* hostile address reuse: a released block is kept in a small cache and handed to the very next acquire of the same
 * size from ANY thread (instead of going through malloc's per-thread caches). Turning it off frees the cache. */
void mon_guard_set_reuse(bool on);
/* verify red zones of all tracked live blocks; reports violations with key prefix; returns errors */
int mon_guard_check_live(const char *keyprefix);
/* size of a live payload (from its header) */
size_t mon_guard_block_size(const void *payload);

/* fenced caller-provided storage: exactly n usable bytes, canary zones both sides */
void *mon_fence_new(size_t n);
/* returns number of damaged canary bytes (0 = intact) */
int mon_fence_check(const void *p);
void mon_fence_free(void *p);

/* ------------------------------------------------------------------ event log (threaded) */
struct mon_event {
    uint64_t t;    /* logical time: relaxed fetch_add on one global counter */
    uint32_t tix;  /* harness thread index */
    uint32_t kind; /* harness-defined */
    uint64_t a, b, c;
};
/* per-thread logs; call once per scenario from the main thread */
void mon_ev_reset(unsigned nthreads_max, size_t per_thread_cap);
/* bind the calling thread to log index tix */
void mon_ev_bind(unsigned tix);
unsigned mon_ev_tix(void);
uint64_t mon_ev(uint32_t kind, uint64_t a, uint64_t b, uint64_t c);
uint64_t mon_ev_now(void); /* tick without logging */
/* merged, time-sorted copy of all events (caller frees with free()) */
struct mon_event *mon_ev_merge(size_t *n_out);
uint64_t mon_ev_overflowed(void);

#endif
