/* Schedule perturbation layer (DESIGN.md 4.4).  Compiled WITHOUT the hook header. */
#ifndef VERIF_PERTURB_H
#define VERIF_PERTURB_H
#include <stdbool.h>
#include <stdint.h>

enum {
    PK_LOAD = 1,
    PK_STORE = 2,
    PK_RMW = 3,
    PK_CAS = 4,
    PK_LOCK = 5,
    PK_UNLOCK = 6,
    PK_WAIT = 7,
    PK_TIMEDWAIT = 8,
    PK_SIGNAL = 9,
    PK_BROADCAST = 10,
    PK_CREATE = 11,
    PK_JOIN = 12,
    PK_AFTER_WAIT = 13,
    PK_USER = 14,
    PK_NKINDS = 16
};

struct perturb_profile {
    /* probabilities out of 65536, per kind */
    uint16_t p_yield[PK_NKINDS];
    uint16_t p_spin[PK_NKINDS];
    uint16_t p_sleep[PK_NKINDS];
    uint32_t max_sleep_us;
    int starve_tix;        /* -1: none; this thread's probabilities are multiplied by 8 */
    bool spurious_wakeups; /* convert long timed waits into <=200ms waits that return 0 */
    int fail_create_at;    /* n>=1: the n-th pthread_create of the scenario returns EAGAIN; 0: never */
    int fail_create_every; /* k>=1: additionally every k-th one fails */
};

/* predefined profiles, index 0..perturb_nprofiles()-1; 0 = no perturbation */
int perturb_nprofiles(void);
void perturb_get_profile(int idx, struct perturb_profile *out);
const char *perturb_profile_name(int idx);

/* start of a scenario: resets trace, counters, per-thread PRNGs */
void perturb_begin(uint64_t seed, const struct perturb_profile *p);
/* end of a scenario: stop perturbing (threads may still pass schedule points) */
void perturb_end(void);
/* bind the calling thread to an index (0..31); unbound threads get 32.. automatically */
void perturb_bind(unsigned tix);
unsigned perturb_tix(void);

uint64_t perturb_points(void);          /* schedule points passed in this scenario */
uint64_t perturb_points_kind(int kind); /* per kind */
uint64_t perturb_delays(void);          /* points at which a delay was actually injected */
uint64_t perturb_signature(void);       /* hash of the (thread,kind) trace prefix */
uint64_t perturb_switches(void);        /* thread changes in the trace prefix */
uint64_t perturb_creates_failed(void);
uint64_t perturb_spurious(void);

void verif_sched_point(int kind);

/* thread of the harness itself: created without fault injection and without counting as a pthread_create of the scenario */
#include <pthread.h>
int perturb_create_harness_thread(pthread_t *t, void *(*fn)(void *), void *arg);

#endif
