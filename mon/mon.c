/* Monitor library: see mon.h.  Compiled WITHOUT the force-included hook header. */
#include "mon.h"

#include <aws/common/allocator.h>
#include <aws/common/error.h>

#include <ctype.h>
#include <errno.h>
#include <locale.h>
#include <fcntl.h>
#include <pthread.h>
#include <stdlib.h>
#include <sys/mman.h>
#include <sys/stat.h>
#include <time.h>
#include <unistd.h>

#if defined(__has_feature)
#    if __has_feature(address_sanitizer) && !defined(__SANITIZE_ADDRESS__)
#        define __SANITIZE_ADDRESS__ 1
#    endif
#    if __has_feature(thread_sanitizer) && !defined(__SANITIZE_THREAD__)
#        define __SANITIZE_THREAD__ 1
#    endif
#endif
#if defined(__SANITIZE_ADDRESS__)
#    include <sanitizer/asan_interface.h>
#    define MON_ASAN 1
#else
#    define MON_ASAN 0
#    define ASAN_POISON_MEMORY_REGION(a, s) ((void)(a), (void)(s))
#    define ASAN_UNPOISON_MEMORY_REGION(a, s) ((void)(a), (void)(s))
#endif

#if defined(__SANITIZE_THREAD__)
#    define MON_TSAN 1
#else
#    define MON_TSAN 0
#endif

/* ================================================================== PRNG */
uint64_t mon_splitmix(uint64_t *x) {
    uint64_t z = (*x += 0x9e3779b97f4a7c15ULL);
    z = (z ^ (z >> 30)) * 0xbf58476d1ce4e5b9ULL;
    z = (z ^ (z >> 27)) * 0x94d049bb133111ebULL;
    return z ^ (z >> 31);
}

void mon_rng_seed(struct mon_rng *r, uint64_t seed, uint64_t stream, uint64_t idx) {
    uint64_t x = seed * 0x9e3779b97f4a7c15ULL + 0x1234567;
    x ^= mon_splitmix(&x) + stream * 0xd1342543de82ef95ULL;
    x ^= mon_splitmix(&x) + idx * 0xaf251af3b0f025b5ULL;
    for (int i = 0; i < 4; ++i) {
        r->s[i] = mon_splitmix(&x);
    }
    if (!(r->s[0] | r->s[1] | r->s[2] | r->s[3])) {
        r->s[0] = 1;
    }
}

static inline uint64_t rotl(uint64_t x, int k) {
    return (x << k) | (x >> (64 - k));
}

uint64_t mon_rand(struct mon_rng *r) {
    uint64_t *s = r->s;
    uint64_t result = rotl(s[1] * 5, 7) * 9;
    uint64_t t = s[1] << 17;
    s[2] ^= s[0];
    s[3] ^= s[1];
    s[1] ^= s[2];
    s[0] ^= s[3];
    s[2] ^= t;
    s[3] = rotl(s[3], 45);
    return result;
}

uint64_t mon_below(struct mon_rng *r, uint64_t n) {
    if (n == 0) {
        return 0;
    }
    /* multiply-shift; bias negligible for the n used here */
    return (uint64_t)(((unsigned __int128)mon_rand(r) * n) >> 64);
}

uint64_t mon_range(struct mon_rng *r, uint64_t lo, uint64_t hi) {
    if (hi <= lo) {
        return lo;
    }
    uint64_t span = hi - lo;
    if (span == UINT64_MAX) {
        return mon_rand(r);
    }
    return lo + mon_below(r, span + 1);
}

bool mon_chance(struct mon_rng *r, unsigned num, unsigned den) {
    return mon_below(r, den) < num;
}

size_t mon_edge_size(struct mon_rng *r, size_t max) {
    switch (mon_below(r, 10)) {
        case 0:
            return 0;
        case 1:
            return max ? 1 : 0;
        case 2:
            return max;
        case 3:
            return max ? max - 1 : 0;
        case 4: {
            size_t p = (size_t)1 << mon_below(r, 20);
            size_t v = p + (size_t)mon_below(r, 3) - 1;
            return v > max ? max : v;
        }
        case 5:
        case 6:
            return (size_t)mon_below(r, (max < 16 ? max : 16) + 1);
        default:
            return (size_t)mon_below(r, (uint64_t)max + 1);
    }
}

void mon_fill_random(struct mon_rng *r, void *dst, size_t n) {
    uint8_t *p = dst;
    while (n >= 8) {
        uint64_t v = mon_rand(r);
        memcpy(p, &v, 8);
        p += 8;
        n -= 8;
    }
    if (n) {
        uint64_t v = mon_rand(r);
        memcpy(p, &v, n);
    }
}

/* ================================================================== run control */
struct mon_run mon_run;
struct mon_rng mon_case_rng;

#define MAX_COUNTERS 96
#define MAX_VIOL_KEPT 64
#define SAMPLE_CAP 6000

static struct {
    const char *name;
    uint64_t value;
    bool is_max;
} s_counters[MAX_COUNTERS];
static int s_ncounters;
static pthread_mutex_t s_mon_lock = PTHREAD_MUTEX_INITIALIZER;

static uint64_t s_next_case;
static uint64_t s_cur_case;
static bool s_in_case;
static uint64_t s_fp;
static uint64_t s_flags;
static uint64_t s_flag_counts[64];
static const char *s_flag_names[64];
static uint64_t s_evaluations;
static uint64_t s_nontrivial;
static uint64_t s_violations;
static uint64_t *s_fps;
static size_t s_nfps, s_capfps;
static char *s_sample_buf;
static size_t s_sample_len;
static int s_samples_done;
static FILE *s_samples_file;
static FILE *s_viol_file;
static char s_seen_keys[64][160];
static uint64_t s_seen_counts[64];
static int s_nseen_keys;
static FILE *s_notes_file;
static volatile uint64_t *s_progress; /* [0]=case index, [1]=state (1 in case, 2 finished) */
static struct timespec s_t0;

static uint64_t stoull_or_die(const char *s) {
    char *end = NULL;
    errno = 0;
    uint64_t v = strtoull(s, &end, 0);
    if (errno || !end || *end) {
        fprintf(stderr, "mon: bad number '%s'\n", s);
        exit(2);
    }
    return v;
}

static FILE *open_out(const char *stem, const char *mode) {
    char path[4096];
    snprintf(path, sizeof(path), "%s/%s.%d", mon_run.outdir, stem, mon_run.slice);
    FILE *f = fopen(path, mode);
    if (!f) {
        fprintf(stderr, "mon: cannot open %s: %s\n", path, strerror(errno));
        exit(2);
    }
    return f;
}

static bool s_locale_active;

int mon_init(int argc, char **argv, const char *prop) {
    memset(&mon_run, 0, sizeof(mon_run));
    mon_run.prop = prop;
    mon_run.seed = 1;
    mon_run.count = 1;
    mon_run.outdir = ".";
    mon_run.mode = "";
    mon_run.max_viol = 20;
    const char *env_seed = getenv("VERIF_SEED");
    if (env_seed && *env_seed) {
        mon_run.seed = stoull_or_die(env_seed);
    }
    for (int i = 1; i < argc; ++i) {
        const char *a = argv[i];
        const char *v = (i + 1 < argc) ? argv[i + 1] : NULL;
        if (!strcmp(a, "--seed") && v) {
            mon_run.seed = stoull_or_die(v);
            ++i;
        } else if (!strcmp(a, "--start") && v) {
            mon_run.start = stoull_or_die(v);
            ++i;
        } else if (!strcmp(a, "--count") && v) {
            mon_run.count = stoull_or_die(v);
            ++i;
        } else if (!strcmp(a, "--slice") && v) {
            mon_run.slice = (int)stoull_or_die(v);
            ++i;
        } else if (!strcmp(a, "--samples") && v) {
            mon_run.nsamples = (int)stoull_or_die(v);
            ++i;
        } else if (!strcmp(a, "--out") && v) {
            mon_run.outdir = v;
            ++i;
        } else if (!strcmp(a, "--mode") && v) {
            mon_run.mode = v;
            ++i;
        } else if (!strcmp(a, "--maxviol") && v) {
            mon_run.max_viol = (int)stoull_or_die(v);
            ++i;
        } else if (!strncmp(a, "--p", 3) && a[3] >= '0' && a[3] <= '7' && !a[4] && v) {
            mon_run.param[a[3] - '0'] = strtol(v, NULL, 0);
            ++i;
        } else {
            fprintf(stderr, "mon: unknown argument '%s'\n", a);
            exit(2);
        }
    }
    s_next_case = mon_run.start;
    s_sample_buf = malloc(SAMPLE_CAP);
    s_samples_file = open_out("samples", "w");
    s_viol_file = open_out("viol", "w");
    s_notes_file = open_out("notes", "w");
    char path[4096];
    snprintf(path, sizeof(path), "%s/progress.%d", mon_run.outdir, mon_run.slice);
    int fd = open(path, O_RDWR | O_CREAT | O_TRUNC, 0644);
    if (fd < 0 || ftruncate(fd, 64) != 0) {
        fprintf(stderr, "mon: cannot create %s\n", path);
        exit(2);
    }
    s_progress = mmap(NULL, 64, PROT_READ | PROT_WRITE, MAP_SHARED, fd, 0);
    close(fd);
    if (s_progress == MAP_FAILED) {
        fprintf(stderr, "mon: mmap failed\n");
        exit(2);
    }
    s_progress[0] = mon_run.start;
    s_progress[1] = 0;
    s_progress[2] = 0; /* cases completed */
    clock_gettime(CLOCK_MONOTONIC, &s_t0);
    if (getenv("VERIF_SETLOCALE")) {
        /* stages that run the library in a process whose libc <ctype.h> classification is not the C locale's
         * (tools/mk_locale.py: single-byte locale, 0xC0-0xFF are letters with case, 0xA0 is a space) */
        const char *got = setlocale(LC_ALL, "");
        if (!got || !isalnum(0xE9) || tolower(0xC9) != 0xE9 || !isspace(0xA0)) {
            fprintf(stderr, "mon: the 8-bit locale is not active (setlocale returned %s)\n", got ? got : "NULL");
            exit(2);
        }
        mon_note("process locale: %s (isalnum(0xE9)=1, tolower(0xC9)=0xE9, isspace(0xA0)=1)", got);
        s_locale_active = true;
        mon_count("processes_run_under_8bit_locale", 1);
    }
    return 0;
}

bool mon_next_case(uint64_t *case_idx) {
    if (s_next_case >= mon_run.start + mon_run.count) {
        return false;
    }
    if (s_violations >= (uint64_t)mon_run.max_viol) {
        return false;
    }
    *case_idx = s_next_case++;
    return true;
}

static uint64_t prop_stream(void) {
    uint64_t h = 1469598103934665603ULL;
    for (const char *p = mon_run.prop; *p; ++p) {
        h = (h ^ (uint8_t)*p) * 1099511628211ULL;
    }
    for (const char *p = mon_run.mode; *p; ++p) {
        h = (h ^ (uint8_t)*p) * 1099511628211ULL;
    }
    return h;
}

void mon_case_begin(uint64_t case_idx) {
    s_cur_case = case_idx;
    s_in_case = true;
    s_fp = 0xcbf29ce484222325ULL;
    s_flags = 0;
    s_sample_len = 0;
    if (s_sample_buf) {
        s_sample_buf[0] = 0;
    }
    mon_rng_seed(&mon_case_rng, mon_run.seed, prop_stream(), case_idx);
    s_progress[0] = case_idx;
    s_progress[1] = 1;
}

void mon_fp(uint64_t v) {
    s_fp = (s_fp ^ v) * 1099511628211ULL;
    s_fp ^= s_fp >> 29;
}

void mon_flag(int bit) {
    if (bit >= 0 && bit < 64) {
        s_flags |= (uint64_t)1 << bit;
    }
}

unsigned mon_flag_count(void) {
    return (unsigned)__builtin_popcountll(s_flags);
}

void mon_flag_name(int bit, const char *name) {
    if (bit >= 0 && bit < 64) {
        s_flag_names[bit] = name;
    }
}

static void json_str(FILE *f, const char *s) {
    fputc('"', f);
    for (; *s; ++s) {
        unsigned char c = (unsigned char)*s;
        if (c == '"' || c == '\\') {
            fputc('\\', f);
            fputc(c, f);
        } else if (c == '\n') {
            fputs("\\n", f);
        } else if (c < 0x20 || c >= 0x7f) {
            fprintf(f, "\\u%04x", c);
        } else {
            fputc(c, f);
        }
    }
    fputc('"', f);
}

void mon_case_end(bool nontrivial) {
    s_in_case = false;
    ++s_evaluations;
    for (int i = 0; i < 64; ++i) {
        if (s_flags & ((uint64_t)1 << i)) {
            ++s_flag_counts[i];
        }
    }
    if (nontrivial) {
        ++s_nontrivial;
        if (s_nfps == s_capfps) {
            s_capfps = s_capfps ? s_capfps * 2 : 1024;
            s_fps = realloc(s_fps, s_capfps * sizeof(uint64_t));
        }
        s_fps[s_nfps++] = s_fp;
    }
    if (s_samples_done < mon_run.nsamples && s_sample_len > 0 && nontrivial) {
        fprintf(s_samples_file, "{\"case\":%llu,\"fingerprint\":\"%016llx\",\"text\":", (unsigned long long)s_cur_case,
                (unsigned long long)s_fp);
        json_str(s_samples_file, s_sample_buf);
        fputs("}\n", s_samples_file);
        fflush(s_samples_file);
        ++s_samples_done;
    }
    s_progress[1] = 0;
    s_progress[2] = s_evaluations;
}

bool mon_sampling(void) {
    return s_samples_done < mon_run.nsamples && s_sample_len < SAMPLE_CAP - 200;
}

void mon_sample(const char *fmt, ...) {
    if (!mon_sampling()) {
        return;
    }
    va_list ap;
    va_start(ap, fmt);
    int n = vsnprintf(s_sample_buf + s_sample_len, SAMPLE_CAP - s_sample_len, fmt, ap);
    va_end(ap);
    if (n > 0) {
        s_sample_len += (size_t)n;
        if (s_sample_len >= SAMPLE_CAP) {
            s_sample_len = SAMPLE_CAP - 1;
        }
    }
}

void mon_count(const char *name, uint64_t delta) {
    pthread_mutex_lock(&s_mon_lock);
    int i;
    for (i = 0; i < s_ncounters; ++i) {
        if (s_counters[i].name == name || !strcmp(s_counters[i].name, name)) {
            break;
        }
    }
    if (i == s_ncounters) {
        if (s_ncounters == MAX_COUNTERS) {
            pthread_mutex_unlock(&s_mon_lock);
            return;
        }
        s_counters[s_ncounters++].name = name;
    }
    s_counters[i].value += delta;
    pthread_mutex_unlock(&s_mon_lock);
}

void mon_count_max(const char *name, uint64_t value) {
    pthread_mutex_lock(&s_mon_lock);
    int i;
    for (i = 0; i < s_ncounters; ++i) {
        if (s_counters[i].name == name || !strcmp(s_counters[i].name, name)) {
            break;
        }
    }
    if (i == s_ncounters) {
        if (s_ncounters == MAX_COUNTERS) {
            pthread_mutex_unlock(&s_mon_lock);
            return;
        }
        s_counters[s_ncounters++].name = name;
        s_counters[i].is_max = true;
    }
    if (value > s_counters[i].value) {
        s_counters[i].value = value;
    }
    pthread_mutex_unlock(&s_mon_lock);
}

static FILE *s_dist_file;
void mon_distinct(const char *name, uint64_t value) {
    if (!s_dist_file) {
        s_dist_file = open_out("dist", "w");
    }
    fprintf(s_dist_file, "%s %016llx\n", name, (unsigned long long)value);
}

void mon_violation(const char *key, const char *fmt, ...) {
    char detail[4096];
    va_list ap;
    va_start(ap, fmt);
    vsnprintf(detail, sizeof(detail), fmt, ap);
    va_end(ap);
    pthread_mutex_lock(&s_mon_lock);
    /* one record per violation key and process: a recurring (possibly known) finding must not exhaust the
     * per-process violation budget and hide other keys; repeats are only counted */
    for (int i = 0; i < s_nseen_keys; ++i) {
        if (!strcmp(s_seen_keys[i], key)) {
            ++s_seen_counts[i];
            pthread_mutex_unlock(&s_mon_lock);
            return;
        }
    }
    if (s_nseen_keys < MAX_VIOL_KEPT) {
        snprintf(s_seen_keys[s_nseen_keys], sizeof(s_seen_keys[0]), "%s", key);
        s_seen_counts[s_nseen_keys++] = 1;
    }
    ++s_violations;
    if (s_violations <= MAX_VIOL_KEPT && s_viol_file) {
        fprintf(s_viol_file, "{\"case\":%llu,\"key\":", (unsigned long long)s_cur_case);
        json_str(s_viol_file, key);
        fputs(",\"detail\":", s_viol_file);
        json_str(s_viol_file, detail);
        fputs("}\n", s_viol_file);
        fflush(s_viol_file);
    }
    pthread_mutex_unlock(&s_mon_lock);
    if (getenv("VERIF_VERBOSE")) {
        fprintf(stderr, "[mon] VIOLATION case=%llu key=%s : %s\n", (unsigned long long)s_cur_case, key, detail);
    }
}

uint64_t mon_violations(void) {
    return s_violations;
}

void mon_note(const char *fmt, ...) {
    char detail[2048];
    va_list ap;
    va_start(ap, fmt);
    vsnprintf(detail, sizeof(detail), fmt, ap);
    va_end(ap);
    pthread_mutex_lock(&s_mon_lock);
    if (s_notes_file) {
        json_str(s_notes_file, detail);
        fputc('\n', s_notes_file);
        fflush(s_notes_file);
    }
    pthread_mutex_unlock(&s_mon_lock);
}

const char *mon_hex(const void *src, size_t n, size_t max) {
    static __thread char bufs[4][1100 + 32];
    static __thread int which;
    char *out = bufs[which++ & 3];
    if (max > 512) {
        max = 512;
    }
    size_t m = n < max ? n : max;
    const uint8_t *p = src;
    size_t o = 0;
    for (size_t i = 0; i < m; ++i) {
        o += (size_t)snprintf(out + o, 4, "%02x", p[i]);
    }
    if (n > m) {
        snprintf(out + o, 32, "..(+%zu)", n - m);
    } else {
        out[o] = 0;
    }
    return out;
}

int mon_finish(void) {
    struct timespec t1;
    clock_gettime(CLOCK_MONOTONIC, &t1);
    double wall = (double)(t1.tv_sec - s_t0.tv_sec) + (double)(t1.tv_nsec - s_t0.tv_nsec) / 1e9;
    FILE *f = open_out("fp", "wb");
    if (s_nfps) {
        fwrite(s_fps, sizeof(uint64_t), s_nfps, f);
    }
    fclose(f);
    struct mon_alloc_stats st;
    mon_guard_stats(&st);
    f = open_out("summary", "w");
    fprintf(f, "{\"prop\":\"%s\",\"mode\":", mon_run.prop);
    json_str(f, mon_run.mode);
    fprintf(
        f,
        ",\"seed\":%llu,\"start\":%llu,\"count\":%llu,\"evaluations\":%llu,\"nontrivial\":%llu,\"violations\":%llu,"
        "\"wall_s\":%.3f,\"guard_acquires\":%llu,\"guard_redzone_errors\":%llu,\"flags\":{",
        (unsigned long long)mon_run.seed,
        (unsigned long long)mon_run.start,
        (unsigned long long)mon_run.count,
        (unsigned long long)s_evaluations,
        (unsigned long long)s_nontrivial,
        (unsigned long long)s_violations,
        wall,
        (unsigned long long)st.total_acquires,
        (unsigned long long)st.redzone_errors);
    bool first = true;
    for (int i = 0; i < 64; ++i) {
        if (s_flag_names[i] || s_flag_counts[i]) {
            char nm[32];
            snprintf(nm, sizeof(nm), "flag%d", i);
            fprintf(f, "%s", first ? "" : ",");
            json_str(f, s_flag_names[i] ? s_flag_names[i] : nm);
            fprintf(f, ":%llu", (unsigned long long)s_flag_counts[i]);
            first = false;
        }
    }
    fputs("},\"counters\":{", f);
    for (int i = 0; i < s_ncounters; ++i) {
        fprintf(f, "%s", i ? "," : "");
        json_str(f, s_counters[i].name);
        fprintf(f, ":%llu", (unsigned long long)s_counters[i].value);
    }
    fputs("},\"violation_keys\":{", f);
    for (int i = 0; i < s_nseen_keys; ++i) {
        fprintf(f, "%s", i ? "," : "");
        json_str(f, s_seen_keys[i]);
        fprintf(f, ":%llu", (unsigned long long)s_seen_counts[i]);
    }
    fputs("},\"max_counters\":[", f);
    first = true;
    for (int i = 0; i < s_ncounters; ++i) {
        if (s_counters[i].is_max) {
            fprintf(f, "%s", first ? "" : ",");
            json_str(f, s_counters[i].name);
            first = false;
        }
    }
    fputs("]}\n", f);
    fclose(f);
    if (s_dist_file) {
        fclose(s_dist_file);
        s_dist_file = NULL;
    }
    fclose(s_samples_file);
    fclose(s_viol_file);
    fclose(s_notes_file);
    s_viol_file = NULL;
    s_notes_file = NULL;
    s_progress[1] = 2;
    return s_violations ? 1 : 0;
}

/* ================================================================== watchdog */
static uint64_t s_wd_deadline_ms; /* 0 = disarmed */
static char s_wd_key[160];
static char s_wd_what[512];
static int s_wd_started;

static uint64_t wd_now_ms(void) {
    struct timespec ts;
    clock_gettime(CLOCK_MONOTONIC, &ts);
    return (uint64_t)ts.tv_sec * 1000 + (uint64_t)ts.tv_nsec / 1000000;
}

static void *wd_main(void *arg) {
    (void)arg;
    for (;;) {
        struct timespec ts = {0, 200 * 1000 * 1000};
        nanosleep(&ts, NULL);
        uint64_t dl = __atomic_load_n(&s_wd_deadline_ms, __ATOMIC_ACQUIRE);
        if (dl && wd_now_ms() > dl) {
            /* re-check once after a pause: a stopped (SIGSTOP, debugger) process must not look hung */
            nanosleep(&ts, NULL);
            if (__atomic_load_n(&s_wd_deadline_ms, __ATOMIC_RELAXED) != dl) {
                continue;
            }
            mon_violation(s_wd_key, "scenario did not finish within its watchdog: %s", s_wd_what);
            fprintf(stderr, "mon: watchdog fired (%s)\n", s_wd_key);
            _exit(3);
        }
    }
    return NULL;
}

void mon_watchdog_arm(unsigned seconds, const char *key, const char *what) {
    if (!s_wd_started) {
        pthread_t th;
        pthread_attr_t at;
        pthread_attr_init(&at);
        pthread_attr_setdetachstate(&at, PTHREAD_CREATE_DETACHED);
        if (pthread_create(&th, &at, wd_main, NULL) != 0) {
            fprintf(stderr, "mon: cannot start watchdog thread\n");
            exit(2);
        }
        pthread_attr_destroy(&at);
        s_wd_started = 1;
    }
    snprintf(s_wd_key, sizeof(s_wd_key), "%s", key);
    snprintf(s_wd_what, sizeof(s_wd_what), "%s", what ? what : "");
    __atomic_store_n(&s_wd_deadline_ms, wd_now_ms() + (uint64_t)seconds * 1000, __ATOMIC_RELEASE);
}

void mon_watchdog_disarm(void) {
    __atomic_store_n(&s_wd_deadline_ms, 0, __ATOMIC_RELAXED);
}

/* ================================================================== guard allocator */
#define RZ 32
#define HDR_MAGIC 0x6d6f6e2d67756172ULL /* "mon-guar" */
#define FENCE_MAGIC 0x6d6f6e2d66656e63ULL

struct guard_hdr {
    uint64_t magic;
    size_t size;
    uint64_t id;
    struct guard_hdr *prev, *next; /* live list (optional) */
    uint64_t pad;
    uint8_t rz[RZ];
}; /* 48 + 32 = 80 bytes -> round payload offset to 96 */
#define HDR_SIZE 96

static uint64_t s_live_blocks, s_live_bytes, s_total_acq, s_total_rel, s_peak_bytes, s_rz_errors, s_next_id;
static mon_release_hook_fn *s_release_hook;
static void *s_release_user;
static bool s_track_live = !MON_TSAN;
static struct guard_hdr *s_live_head;
static pthread_mutex_t s_live_lock = PTHREAD_MUTEX_INITIALIZER;

static inline uint8_t rz_byte(const void *base, size_t i) {
    return (uint8_t)(0xC3 ^ (i * 7) ^ ((uintptr_t)base >> 4));
}

static void rz_fill(uint8_t *p, const void *base, size_t n) {
    for (size_t i = 0; i < n; ++i) {
        p[i] = rz_byte(base, i);
    }
}

static int rz_damage(const uint8_t *p, const void *base, size_t n) {
    int bad = 0;
    for (size_t i = 0; i < n; ++i) {
        bad += p[i] != rz_byte(base, i);
    }
    return bad;
}

#define REUSE_SLOTS 24
static struct {
    uint8_t *base;
    size_t total;
} s_reuse[REUSE_SLOTS];
static bool s_reuse_on;
static unsigned s_reuse_next;
static uint64_t s_reuse_hits;
static pthread_mutex_t s_reuse_lock = PTHREAD_MUTEX_INITIALIZER;

void mon_guard_set_reuse(bool on) {
    pthread_mutex_lock(&s_reuse_lock);
    s_reuse_on = on;
    if (!on) {
        for (int i = 0; i < REUSE_SLOTS; ++i) {
            if (s_reuse[i].base) {
                free(s_reuse[i].base);
                s_reuse[i].base = NULL;
            }
        }
    }
    pthread_mutex_unlock(&s_reuse_lock);
}

static uint8_t *reuse_take(size_t total) {
    uint8_t *base = NULL;
    pthread_mutex_lock(&s_reuse_lock);
    if (s_reuse_on) {
        for (int i = 0; i < REUSE_SLOTS; ++i) {
            if (s_reuse[i].base && s_reuse[i].total == total) {
                base = s_reuse[i].base;
                s_reuse[i].base = NULL;
                ++s_reuse_hits;
                break;
            }
        }
    }
    pthread_mutex_unlock(&s_reuse_lock);
    return base;
}

/* returns true when the block was cached instead of freed */
static bool reuse_put(uint8_t *base, size_t total) {
    uint8_t *evicted = NULL;
    bool kept = false;
    pthread_mutex_lock(&s_reuse_lock);
    if (s_reuse_on) {
        unsigned slot = s_reuse_next++ % REUSE_SLOTS;
        evicted = s_reuse[slot].base;
        s_reuse[slot].base = base;
        s_reuse[slot].total = total;
        kept = true;
    }
    pthread_mutex_unlock(&s_reuse_lock);
    if (evicted) {
        free(evicted);
    }
    return kept;
}

static void *guard_acquire_impl(size_t size, uint64_t magic, bool count) {
    size_t total = HDR_SIZE + size + RZ;
    if (total < size) {
        fprintf(stderr, "mon: guard allocation size overflow (%zu)\n", size);
        abort();
    }
    uint8_t *base = count ? reuse_take(total) : NULL;
    if (!base) {
        base = malloc(total);
    }
    if (!base) {
        fprintf(stderr, "mon: guard allocator out of memory (request %zu)\n", size);
        _exit(2); /* harness failure, not a finding */
    }
    struct guard_hdr *h = (struct guard_hdr *)base;
    h->magic = magic;
    h->size = size;
    h->prev = h->next = NULL;
    h->id = __atomic_fetch_add(&s_next_id, 1, __ATOMIC_RELAXED);
    uint8_t *payload = base + HDR_SIZE;
    rz_fill(h->rz, base, RZ);
    rz_fill(base + sizeof(struct guard_hdr), base + 1, HDR_SIZE - sizeof(struct guard_hdr));
    rz_fill(payload + size, base + 2, RZ);
    /* junk pre-fill: "calloc zeroes" and "growth preserves contents" become real tests */
    for (size_t i = 0; i < size; ++i) {
        payload[i] = (uint8_t)(0xA7 + i * 13 + h->id);
    }
    ASAN_POISON_MEMORY_REGION(h->rz, RZ + (HDR_SIZE - sizeof(struct guard_hdr)));
    ASAN_POISON_MEMORY_REGION(payload + size, RZ);
    if (count) {
        __atomic_fetch_add(&s_total_acq, 1, __ATOMIC_RELAXED);
        __atomic_fetch_add(&s_live_blocks, 1, __ATOMIC_RELAXED);
        uint64_t now = __atomic_add_fetch(&s_live_bytes, size, __ATOMIC_RELAXED);
        uint64_t peak = __atomic_load_n(&s_peak_bytes, __ATOMIC_RELAXED);
        while (now > peak && !__atomic_compare_exchange_n(&s_peak_bytes, &peak, now, true, __ATOMIC_RELAXED, __ATOMIC_RELAXED)) {
        }
        if (s_track_live) {
            pthread_mutex_lock(&s_live_lock);
            h->next = s_live_head;
            if (s_live_head) {
                s_live_head->prev = h;
            }
            s_live_head = h;
            pthread_mutex_unlock(&s_live_lock);
        }
    }
    return payload;
}

static int guard_check_block(struct guard_hdr *h, const char *keyprefix) {
    uint8_t *base = (uint8_t *)h;
    uint8_t *payload = base + HDR_SIZE;
    ASAN_UNPOISON_MEMORY_REGION(h->rz, RZ + (HDR_SIZE - sizeof(struct guard_hdr)));
    ASAN_UNPOISON_MEMORY_REGION(payload + h->size, RZ);
    int bad_lo = rz_damage(h->rz, base, RZ) +
                 rz_damage(base + sizeof(struct guard_hdr), base + 1, HDR_SIZE - sizeof(struct guard_hdr));
    int bad_hi = rz_damage(payload + h->size, base + 2, RZ);
    if (bad_lo || bad_hi) {
        __atomic_fetch_add(&s_rz_errors, 1, __ATOMIC_RELAXED);
        char key[128];
        snprintf(key, sizeof(key), "%s:redzone-%s", keyprefix ? keyprefix : "guard", bad_hi ? "after" : "before");
        mon_violation(
            key,
            "block id=%llu size=%zu: %d bytes damaged before, %d after the payload; after=%s",
            (unsigned long long)h->id,
            h->size,
            bad_lo,
            bad_hi,
            mon_hex(payload + h->size, RZ, RZ));
    }
    ASAN_POISON_MEMORY_REGION(h->rz, RZ + (HDR_SIZE - sizeof(struct guard_hdr)));
    ASAN_POISON_MEMORY_REGION(payload + h->size, RZ);
    return bad_lo + bad_hi;
}

static void guard_release_impl(void *ptr, uint64_t magic, bool count) {
    if (!ptr) {
        return;
    }
    uint8_t *payload = ptr;
    struct guard_hdr *h = (struct guard_hdr *)(payload - HDR_SIZE);
    if (h->magic != magic) {
        mon_violation(
            "guard:bad-release", "release of %p which is not a live guard block (magic %llx)", ptr, (unsigned long long)h->magic);
        fprintf(stderr, "mon: release of non-guard or already released pointer %p\n", ptr);
        abort();
    }
    if (count && s_release_hook) {
        s_release_hook(payload, h->size, s_release_user);
    }
    guard_check_block(h, mon_run.prop);
    if (count) {
        __atomic_fetch_add(&s_total_rel, 1, __ATOMIC_RELAXED);
        __atomic_fetch_sub(&s_live_blocks, 1, __ATOMIC_RELAXED);
        __atomic_fetch_sub(&s_live_bytes, h->size, __ATOMIC_RELAXED);
        if (s_track_live) {
            pthread_mutex_lock(&s_live_lock);
            if (h->prev) {
                h->prev->next = h->next;
            } else if (s_live_head == h) {
                s_live_head = h->next;
            }
            if (h->next) {
                h->next->prev = h->prev;
            }
            pthread_mutex_unlock(&s_live_lock);
        }
    }
    ASAN_UNPOISON_MEMORY_REGION(h, HDR_SIZE + h->size + RZ);
    size_t total = HDR_SIZE + h->size + RZ;
    h->magic = 0xdeadbeefdeadbeefULL;
    memset((uint8_t *)h + 8, 0xDD, total - 8);
    if (!count || !reuse_put((uint8_t *)h, total)) {
        free(h);
    }
}

static void *s_guard_acquire(struct aws_allocator *a, size_t size) {
    (void)a;
    return guard_acquire_impl(size, HDR_MAGIC, true);
}

static void s_guard_release(struct aws_allocator *a, void *ptr) {
    (void)a;
    guard_release_impl(ptr, HDR_MAGIC, true);
}

static void *s_guard_realloc(struct aws_allocator *a, void *oldptr, size_t oldsize, size_t newsize) {
    (void)a;
    if (!oldptr) {
        return guard_acquire_impl(newsize, HDR_MAGIC, true);
    }
    struct guard_hdr *h = (struct guard_hdr *)((uint8_t *)oldptr - HDR_SIZE);
    if (h->magic == HDR_MAGIC && h->size != oldsize) {
        mon_violation("guard:realloc-oldsize", "realloc called with oldsize=%zu for a block of %zu bytes", oldsize, h->size);
    }
    void *n = guard_acquire_impl(newsize, HDR_MAGIC, true);
    size_t keep = h->size < newsize ? h->size : newsize;
    memcpy(n, oldptr, keep);
    guard_release_impl(oldptr, HDR_MAGIC, true);
    return n;
}

static void *s_guard_calloc(struct aws_allocator *a, size_t num, size_t size) {
    (void)a;
    size_t total = num * size;
    void *p = guard_acquire_impl(total, HDR_MAGIC, true);
    memset(p, 0, total);
    return p;
}

static struct aws_allocator s_guard_alloc = {
    .mem_acquire = s_guard_acquire,
    .mem_release = s_guard_release,
    .mem_realloc = NULL,
    .mem_calloc = NULL,
    .impl = NULL,
};

static struct aws_allocator s_guard_alloc_full = {
    .mem_acquire = s_guard_acquire,
    .mem_release = s_guard_release,
    .mem_realloc = s_guard_realloc,
    .mem_calloc = s_guard_calloc,
    .impl = NULL,
};

struct aws_allocator *mon_guard_allocator(void) {
    return &s_guard_alloc;
}

struct aws_allocator *mon_guard_allocator_full(void) {
    return &s_guard_alloc_full;
}

void mon_guard_stats(struct mon_alloc_stats *out) {
    out->live_blocks = __atomic_load_n(&s_live_blocks, __ATOMIC_RELAXED);
    out->live_bytes = __atomic_load_n(&s_live_bytes, __ATOMIC_RELAXED);
    out->total_acquires = __atomic_load_n(&s_total_acq, __ATOMIC_RELAXED);
    out->total_releases = __atomic_load_n(&s_total_rel, __ATOMIC_RELAXED);
    out->peak_bytes = __atomic_load_n(&s_peak_bytes, __ATOMIC_RELAXED);
    out->redzone_errors = __atomic_load_n(&s_rz_errors, __ATOMIC_RELAXED);
}

void mon_guard_set_release_hook(mon_release_hook_fn *fn, void *user) {
    s_release_hook = fn;
    s_release_user = user;
}

void mon_guard_track_live(bool on) {
    s_track_live = on;
}

int mon_guard_check_live(const char *keyprefix) {
    int bad = 0;
    if (!s_track_live) {
        return 0;
    }
    pthread_mutex_lock(&s_live_lock);
    for (struct guard_hdr *h = s_live_head; h; h = h->next) {
        bad += guard_check_block(h, keyprefix) ? 1 : 0;
    }
    pthread_mutex_unlock(&s_live_lock);
    return bad;
}

size_t mon_guard_block_size(const void *payload) {
    const struct guard_hdr *h = (const struct guard_hdr *)((const uint8_t *)payload - HDR_SIZE);
    return h->size;
}

void *mon_fence_new(size_t n) {
    return guard_acquire_impl(n, FENCE_MAGIC, false);
}

int mon_fence_check(const void *p) {
    struct guard_hdr *h = (struct guard_hdr *)((uint8_t *)(uintptr_t)p - HDR_SIZE);
    uint8_t *base = (uint8_t *)h;
    uint8_t *payload = base + HDR_SIZE;
    ASAN_UNPOISON_MEMORY_REGION(h->rz, RZ + (HDR_SIZE - sizeof(struct guard_hdr)));
    ASAN_UNPOISON_MEMORY_REGION(payload + h->size, RZ);
    int bad = rz_damage(h->rz, base, RZ) +
              rz_damage(base + sizeof(struct guard_hdr), base + 1, HDR_SIZE - sizeof(struct guard_hdr)) +
              rz_damage(payload + h->size, base + 2, RZ);
    ASAN_POISON_MEMORY_REGION(h->rz, RZ + (HDR_SIZE - sizeof(struct guard_hdr)));
    ASAN_POISON_MEMORY_REGION(payload + h->size, RZ);
    return bad;
}

void mon_fence_free(void *p) {
    guard_release_impl(p, FENCE_MAGIC, false);
}

/* ================================================================== event log */
#define EV_MAX_THREADS 64
static struct {
    struct mon_event *ev;
    size_t n, cap;
} s_evlog[EV_MAX_THREADS];
static unsigned s_ev_nthreads;
static uint64_t s_ev_clock;
static uint64_t s_ev_overflow;
static __thread unsigned t_tix;

void mon_ev_reset(unsigned nthreads_max, size_t per_thread_cap) {
    if (nthreads_max > EV_MAX_THREADS) {
        nthreads_max = EV_MAX_THREADS;
    }
    for (unsigned i = 0; i < nthreads_max; ++i) {
        if (s_evlog[i].cap < per_thread_cap) {
            free(s_evlog[i].ev);
            s_evlog[i].ev = malloc(per_thread_cap * sizeof(struct mon_event));
            s_evlog[i].cap = per_thread_cap;
        }
        s_evlog[i].n = 0;
    }
    for (unsigned i = nthreads_max; i < EV_MAX_THREADS; ++i) {
        s_evlog[i].n = 0;
    }
    s_ev_nthreads = nthreads_max;
    s_ev_clock = 0;
    s_ev_overflow = 0;
}

void mon_ev_bind(unsigned tix) {
    t_tix = tix;
}

unsigned mon_ev_tix(void) {
    return t_tix;
}

uint64_t mon_ev_now(void) {
    return __atomic_fetch_add(&s_ev_clock, 1, __ATOMIC_RELAXED);
}

uint64_t mon_ev(uint32_t kind, uint64_t a, uint64_t b, uint64_t c) {
    uint64_t t = __atomic_fetch_add(&s_ev_clock, 1, __ATOMIC_RELAXED);
    unsigned tix = t_tix;
    if (tix >= s_ev_nthreads || s_evlog[tix].n >= s_evlog[tix].cap) {
        __atomic_fetch_add(&s_ev_overflow, 1, __ATOMIC_RELAXED);
        return t;
    }
    struct mon_event *e = &s_evlog[tix].ev[s_evlog[tix].n++];
    e->t = t;
    e->tix = tix;
    e->kind = kind;
    e->a = a;
    e->b = b;
    e->c = c;
    return t;
}

static int ev_cmp(const void *x, const void *y) {
    const struct mon_event *a = x, *b = y;
    return a->t < b->t ? -1 : a->t > b->t;
}

struct mon_event *mon_ev_merge(size_t *n_out) {
    size_t n = 0;
    for (unsigned i = 0; i < s_ev_nthreads; ++i) {
        n += s_evlog[i].n;
    }
    struct mon_event *all = malloc((n + 1) * sizeof(*all));
    size_t o = 0;
    for (unsigned i = 0; i < s_ev_nthreads; ++i) {
        memcpy(all + o, s_evlog[i].ev, s_evlog[i].n * sizeof(*all));
        o += s_evlog[i].n;
    }
    qsort(all, n, sizeof(*all), ev_cmp);
    *n_out = n;
    return all;
}

uint64_t mon_ev_overflowed(void) {
    return s_ev_overflow;
}

void mon_poison_last_error(struct mon_rng *r) {
    static const int codes[] = {AWS_ERROR_INVALID_INDEX, AWS_ERROR_OOM, AWS_ERROR_LIST_EMPTY, AWS_ERROR_LIST_EXCEEDS_MAX_SIZE, AWS_ERROR_PRIORITY_QUEUE_EMPTY,
                                AWS_ERROR_PRIORITY_QUEUE_BAD_NODE, AWS_ERROR_HASHTBL_ITEM_NOT_FOUND, AWS_ERROR_SHORT_BUFFER, AWS_ERROR_OVERFLOW_DETECTED,
                                AWS_ERROR_INVALID_ARGUMENT, AWS_ERROR_DEST_COPY_TOO_SMALL, AWS_ERROR_INVALID_STATE, AWS_ERROR_UNSUPPORTED_OPERATION};
    /* half of the calls clear the slot instead: oracles of the kind "a failing call must raise SOME error" stay effective */
    uint64_t k = mon_below(r, 2 * (sizeof(codes) / sizeof(codes[0])));
    if (k >= sizeof(codes) / sizeof(codes[0])) {
        aws_reset_error();
    } else {
        aws_raise_error(codes[k]);
    }
    /* the C library's errno as well: a call that succeeds must not interpret what an unrelated earlier call left there */
    static const int errnos[] = {0, 0, ERANGE, EINVAL, EAGAIN, ENOMEM, EDOM, EINTR};
    errno = errnos[mon_below(r, sizeof(errnos) / sizeof(errnos[0]))];
}
