/*
 * Schedule perturbation: verif_sched_point() (called from the force-included atomic
 * hooks inside the library and from the __wrap_pthread_* functions below) injects
 * spins, yields and short sleeps according to a per-scenario profile, and records a
 * (thread, kind) trace through a relaxed atomic cursor.
 *
 * This file must be compiled WITHOUT -include verif_hooks.h.
 */
#include "perturb.h"

#include <errno.h>
#include <pthread.h>
#include <sched.h>
#include <stdlib.h>
#include <string.h>
#include <time.h>
#include <unistd.h>

#define TRACE_CAP (1u << 16)

static struct perturb_profile s_prof;
static int s_active;
static uint64_t s_seed;
static uint64_t s_epoch; /* bumped by perturb_begin: thread-local PRNGs re-seed lazily */
static uint16_t s_trace[TRACE_CAP];
static uint64_t s_cursor;
static uint64_t s_kind_counts[PK_NKINDS];
static uint64_t s_delays;
static uint64_t s_auto_tix = 32;
static uint64_t s_creates, s_creates_failed, s_spurious;

static __thread unsigned t_tix;
static __thread int t_bound;
static __thread uint64_t t_rng;
static __thread uint64_t t_epoch;
static __thread int t_inside;

static const char *s_profile_names[] = {
    "none", "light-all", "atomics-heavy", "locks-heavy", "wait-window", "sleepy", "starve0", "starve1", "signal-delay", "storm"};

int perturb_nprofiles(void) {
    return (int)(sizeof(s_profile_names) / sizeof(s_profile_names[0]));
}

const char *perturb_profile_name(int idx) {
    return s_profile_names[idx % perturb_nprofiles()];
}

static void set_all(struct perturb_profile *p, uint16_t y, uint16_t sp, uint16_t sl) {
    for (int k = 0; k < PK_NKINDS; ++k) {
        p->p_yield[k] = y;
        p->p_spin[k] = sp;
        p->p_sleep[k] = sl;
    }
}

void perturb_get_profile(int idx, struct perturb_profile *p) {
    memset(p, 0, sizeof(*p));
    p->starve_tix = -1;
    p->max_sleep_us = 100;
    p->spurious_wakeups = true;
    switch (idx % perturb_nprofiles()) {
        case 0:
            break;
        case 1:
            set_all(p, 2000, 4000, 300);
            break;
        case 2:
            for (int k = PK_LOAD; k <= PK_CAS; ++k) {
                p->p_yield[k] = 8000;
                p->p_spin[k] = 16000;
                p->p_sleep[k] = 1500;
            }
            p->max_sleep_us = 60;
            break;
        case 3:
            for (int k = PK_LOCK; k <= PK_UNLOCK; ++k) {
                p->p_yield[k] = 12000;
                p->p_spin[k] = 12000;
                p->p_sleep[k] = 3000;
            }
            break;
        case 4:
            /* widen: predicate check -> wait, and after wake-up */
            p->p_sleep[PK_WAIT] = 30000;
            p->p_sleep[PK_TIMEDWAIT] = 30000;
            p->p_sleep[PK_AFTER_WAIT] = 20000;
            p->p_yield[PK_UNLOCK] = 20000;
            p->max_sleep_us = 200;
            break;
        case 5:
            set_all(p, 1000, 1000, 4000);
            p->max_sleep_us = 200;
            break;
        case 6:
            set_all(p, 1500, 3000, 600);
            p->starve_tix = 0;
            break;
        case 7:
            set_all(p, 1500, 3000, 600);
            p->starve_tix = 1;
            break;
        case 8:
            p->p_sleep[PK_SIGNAL] = 40000;
            p->p_sleep[PK_BROADCAST] = 40000;
            p->p_sleep[PK_STORE] = 20000;
            p->p_yield[PK_LOCK] = 8000;
            p->max_sleep_us = 150;
            break;
        case 9:
            set_all(p, 20000, 20000, 2000);
            p->max_sleep_us = 30;
            break;
    }
}

void perturb_begin(uint64_t seed, const struct perturb_profile *p) {
    s_prof = *p;
    s_seed = seed;
    __atomic_store_n(&s_cursor, 0, __ATOMIC_RELAXED);
    for (int k = 0; k < PK_NKINDS; ++k) {
        __atomic_store_n(&s_kind_counts[k], 0, __ATOMIC_RELAXED);
    }
    __atomic_store_n(&s_delays, 0, __ATOMIC_RELAXED);
    __atomic_store_n(&s_auto_tix, 32, __ATOMIC_RELAXED);
    __atomic_store_n(&s_creates, 0, __ATOMIC_RELAXED);
    __atomic_store_n(&s_creates_failed, 0, __ATOMIC_RELAXED);
    __atomic_store_n(&s_spurious, 0, __ATOMIC_RELAXED);
    __atomic_fetch_add(&s_epoch, 1, __ATOMIC_RELAXED);
    __atomic_store_n(&s_active, 1, __ATOMIC_RELAXED);
}

void perturb_end(void) {
    __atomic_store_n(&s_active, 0, __ATOMIC_RELAXED);
}

void perturb_bind(unsigned tix) {
    t_tix = tix;
    t_bound = 1;
    t_epoch = 0;
}

unsigned perturb_tix(void) {
    return t_tix;
}

static inline uint64_t xs(uint64_t *s) {
    uint64_t x = *s;
    x ^= x << 13;
    x ^= x >> 7;
    x ^= x << 17;
    return *s = x;
}

void verif_sched_point(int kind) {
    if (!__atomic_load_n(&s_active, __ATOMIC_RELAXED) || t_inside) {
        return;
    }
    t_inside = 1;
    uint64_t epoch = __atomic_load_n(&s_epoch, __ATOMIC_RELAXED);
    if (t_epoch != epoch) {
        if (!t_bound) {
            t_tix = (unsigned)__atomic_fetch_add(&s_auto_tix, 1, __ATOMIC_RELAXED);
        }
        t_epoch = epoch;
        t_rng = (s_seed + 0x9e3779b97f4a7c15ULL * (t_tix + 1)) | 1;
        xs(&t_rng);
        xs(&t_rng);
    }
    if (kind < 0 || kind >= PK_NKINDS) {
        kind = PK_USER;
    }
    uint64_t c = __atomic_fetch_add(&s_cursor, 1, __ATOMIC_RELAXED);
    if (c < TRACE_CAP) {
        s_trace[c] = (uint16_t)((t_tix << 4) | (unsigned)kind);
    }
    __atomic_fetch_add(&s_kind_counts[kind], 1, __ATOMIC_RELAXED);
    uint32_t r = (uint32_t)(xs(&t_rng) >> 16) & 0xffff;
    unsigned mult = ((int)t_tix == s_prof.starve_tix) ? 8 : 1;
    uint32_t ps = (uint32_t)s_prof.p_sleep[kind] * mult;
    uint32_t py = ps + (uint32_t)s_prof.p_yield[kind] * mult;
    uint32_t pp = py + (uint32_t)s_prof.p_spin[kind] * mult;
    if (r < ps) {
        struct timespec ts = {0, 0};
        uint32_t us = 1 + (uint32_t)(xs(&t_rng) % (s_prof.max_sleep_us ? s_prof.max_sleep_us : 1));
        ts.tv_nsec = (long)us * 1000;
        nanosleep(&ts, NULL);
        __atomic_fetch_add(&s_delays, 1, __ATOMIC_RELAXED);
    } else if (r < py) {
        sched_yield();
        __atomic_fetch_add(&s_delays, 1, __ATOMIC_RELAXED);
    } else if (r < pp) {
        unsigned n = 50 + (unsigned)(xs(&t_rng) & 0x3ff);
        for (volatile unsigned i = 0; i < n; ++i) {
        }
        __atomic_fetch_add(&s_delays, 1, __ATOMIC_RELAXED);
    }
    t_inside = 0;
}

uint64_t perturb_points(void) {
    return __atomic_load_n(&s_cursor, __ATOMIC_RELAXED);
}

uint64_t perturb_points_kind(int kind) {
    return __atomic_load_n(&s_kind_counts[kind], __ATOMIC_RELAXED);
}

uint64_t perturb_delays(void) {
    return __atomic_load_n(&s_delays, __ATOMIC_RELAXED);
}

uint64_t perturb_signature(void) {
    uint64_t n = __atomic_load_n(&s_cursor, __ATOMIC_RELAXED);
    if (n > TRACE_CAP) {
        n = TRACE_CAP;
    }
    uint64_t h = 0xcbf29ce484222325ULL;
    for (uint64_t i = 0; i < n; ++i) {
        h = (h ^ s_trace[i]) * 1099511628211ULL;
    }
    return h ^ n;
}

uint64_t perturb_switches(void) {
    uint64_t n = __atomic_load_n(&s_cursor, __ATOMIC_RELAXED);
    if (n > TRACE_CAP) {
        n = TRACE_CAP;
    }
    uint64_t sw = 0;
    for (uint64_t i = 1; i < n; ++i) {
        sw += (s_trace[i] >> 4) != (s_trace[i - 1] >> 4);
    }
    return sw;
}

uint64_t perturb_creates_failed(void) {
    return __atomic_load_n(&s_creates_failed, __ATOMIC_RELAXED);
}

uint64_t perturb_spurious(void) {
    return __atomic_load_n(&s_spurious, __ATOMIC_RELAXED);
}

#ifndef VERIF_NO_WRAP
/* ------------------------------------------------------------------ link-time interposition */
int __real_pthread_mutex_lock(pthread_mutex_t *m);
int __real_pthread_mutex_unlock(pthread_mutex_t *m);
int __real_pthread_cond_wait(pthread_cond_t *c, pthread_mutex_t *m);
int __real_pthread_cond_timedwait(pthread_cond_t *c, pthread_mutex_t *m, const struct timespec *abstime);
int __real_pthread_cond_signal(pthread_cond_t *c);
int __real_pthread_cond_broadcast(pthread_cond_t *c);
int __real_pthread_create(pthread_t *t, const pthread_attr_t *a, void *(*fn)(void *), void *arg);
int __real_pthread_join(pthread_t t, void **ret);

int __wrap_pthread_mutex_lock(pthread_mutex_t *m) {
    verif_sched_point(PK_LOCK);
    return __real_pthread_mutex_lock(m);
}

int __wrap_pthread_mutex_unlock(pthread_mutex_t *m) {
    int rc = __real_pthread_mutex_unlock(m);
    verif_sched_point(PK_UNLOCK);
    return rc;
}

int __wrap_pthread_cond_wait(pthread_cond_t *c, pthread_mutex_t *m) {
    /* never woken spuriously by us: a lost wake-up must show up as the hang it is */
    verif_sched_point(PK_WAIT);
    int rc = __real_pthread_cond_wait(c, m);
    verif_sched_point(PK_AFTER_WAIT);
    return rc;
}

int __wrap_pthread_cond_timedwait(pthread_cond_t *c, pthread_mutex_t *m, const struct timespec *abstime) {
    verif_sched_point(PK_TIMEDWAIT);
    int rc;
    if (__atomic_load_n(&s_active, __ATOMIC_RELAXED) && s_prof.spurious_wakeups && abstime) {
        /* the library waits on CLOCK_REALTIME absolute times (posix/condition_variable.c) */
        struct timespec now;
        clock_gettime(CLOCK_REALTIME, &now);
        int64_t rem_ns = ((int64_t)abstime->tv_sec - (int64_t)now.tv_sec) * 1000000000LL +
                         ((int64_t)abstime->tv_nsec - (int64_t)now.tv_nsec);
        if (rem_ns > 200000000LL) {
            uint64_t cut_ms = 20 + (xs(&t_rng) % 180);
            struct timespec until = now;
            until.tv_nsec += (long)(cut_ms * 1000000ULL);
            while (until.tv_nsec >= 1000000000L) {
                until.tv_nsec -= 1000000000L;
                until.tv_sec += 1;
            }
            rc = __real_pthread_cond_timedwait(c, m, &until);
            if (rc == ETIMEDOUT) {
                /* legal spurious wake-up: the caller must re-check its predicate */
                __atomic_fetch_add(&s_spurious, 1, __ATOMIC_RELAXED);
                rc = 0;
            }
            verif_sched_point(PK_AFTER_WAIT);
            return rc;
        }
    }
    rc = __real_pthread_cond_timedwait(c, m, abstime);
    verif_sched_point(PK_AFTER_WAIT);
    return rc;
}

int __wrap_pthread_cond_signal(pthread_cond_t *c) {
    verif_sched_point(PK_SIGNAL);
    int rc = __real_pthread_cond_signal(c);
    verif_sched_point(PK_SIGNAL);
    return rc;
}

int __wrap_pthread_cond_broadcast(pthread_cond_t *c) {
    verif_sched_point(PK_BROADCAST);
    int rc = __real_pthread_cond_broadcast(c);
    verif_sched_point(PK_BROADCAST);
    return rc;
}

int __wrap_pthread_create(pthread_t *t, const pthread_attr_t *a, void *(*fn)(void *), void *arg) {
    verif_sched_point(PK_CREATE);
    if (__atomic_load_n(&s_active, __ATOMIC_RELAXED) && !t_inside) {
        uint64_t n = __atomic_add_fetch(&s_creates, 1, __ATOMIC_RELAXED);
        if ((s_prof.fail_create_at > 0 && n == (uint64_t)s_prof.fail_create_at) ||
            (s_prof.fail_create_every > 0 && n % (uint64_t)s_prof.fail_create_every == 0)) {
            __atomic_fetch_add(&s_creates_failed, 1, __ATOMIC_RELAXED);
            return EAGAIN;
        }
    }
    int rc = __real_pthread_create(t, a, fn, arg);
    verif_sched_point(PK_CREATE);
    return rc;
}

int __wrap_pthread_join(pthread_t t, void **ret) {
    verif_sched_point(PK_JOIN);
    int rc = __real_pthread_join(t, ret);
    verif_sched_point(PK_JOIN);
    return rc;
}
#endif

int perturb_create_harness_thread(pthread_t *t, void *(*fn)(void *), void *arg) {
#ifndef VERIF_NO_WRAP
    return __real_pthread_create(t, NULL, fn, arg);
#else
    return pthread_create(t, NULL, fn, arg);
#endif
}
