/*
 * C18 - linked hash table and caches keyed by small integers stored in the pointer (aws_hash_ptr / aws_ptr_eq), the way
 * ids, file descriptors or indices are used as keys; key 0 is the NULL pointer, a legal hash-table key.
 * (DESIGN.md section 10.5, C18.)  The main C18 harness uses key OBJECTS (equal-but-distinct pointers, destructors);
 * this one covers the other configuration: identity keys including NULL, value destructor only.
 *
 * case = one container (linked hash table, FIFO, LIFO or LRU cache; capacity 1..8 for caches), keys 0..K-1 (K 2..12),
 * 20-400 operations: put (new / existing key), find, remove, clear, and for LRU use_lru_element / get_mru_element;
 * linked hash table additionally find_and_move_to_back. After EVERY operation the element count, the iteration order
 * (linked hash table: get_iteration_list; caches: cache->table's list) with keys and values, and the value-destructor
 * counts are compared with a reference ordered list that implements the documented policy.
 */
#include "mon.h"

#include <aws/common/cache.h>
#include <aws/common/common.h>
#include <aws/common/error.h>
#include <aws/common/fifo_cache.h>
#include <aws/common/hash_table.h>
#include <aws/common/lifo_cache.h>
#include <aws/common/linked_hash_table.h>
#include <aws/common/lru_cache.h>

#include <stdlib.h>
#include <string.h>

enum { F_NULL_KEY_STORED, F_NULL_KEY_EVICTED, F_NULL_KEY_REMOVED, F_OVERFLOW_EVICTION, F_OVERWRITE, F_CLEAR_NONEMPTY, F_LRU_USE, F_FIND_MISS, F_KIND_LHT, F_KIND_FIFO, F_KIND_LIFO, F_KIND_LRU, F_BIG_CAPACITY, F_NULL_VALUE_STORED };

enum { KIND_LHT, KIND_FIFO, KIND_LIFO, KIND_LRU };
static const char *const KIND_NAME[] = {"linked_hash_table", "fifo_cache", "lifo_cache", "lru_cache"};

#define MAX_KEYS 12
#define MAX_VALS 2048

struct val {
    uint32_t magic;
    int id;
    int destroyed;
};
static struct val s_vals[MAX_VALS];
static int s_nvals;
static int s_want[MAX_VALS]; /* expected destruction counts, parallel to s_vals */

struct ent {
    uintptr_t key;
    struct val *v;
};
static struct ent s_m[MAX_KEYS + 2];
static int s_n;
static int s_kind;
static size_t s_max;
static const char *s_op = "";
static char s_hist[1600];
static size_t s_hl;

static void hist(const char *fmt, ...) __attribute__((format(printf, 1, 2)));
static void hist(const char *fmt, ...) {
    char b[96];
    va_list ap;
    va_start(ap, fmt);
    int n = vsnprintf(b, sizeof(b), fmt, ap);
    va_end(ap);
    if (n < 0) {
        return;
    }
    if (s_hl + (size_t)n + 1 >= sizeof(s_hist)) {
        size_t drop = sizeof(s_hist) / 2;
        memmove(s_hist, s_hist + drop, s_hl - drop);
        s_hl -= drop;
    }
    memcpy(s_hist + s_hl, b, (size_t)n);
    s_hl += (size_t)n;
    s_hist[s_hl] = 0;
}

#define VIOL(key, fmt, ...) mon_violation((key), "%s max=%zu, after %s: " fmt " | history tail: %s", KIND_NAME[s_kind], s_max, s_op, __VA_ARGS__, s_hist)

/* half of the cases also store NULL as a value (a handle or index 0 kept in the pointer, or the table used as an
 * ordered set): the destructor is still owed once per displaced entry, the calls with NULL are counted */
static bool s_null_values;
static int s_null_destroyed, s_null_want;
#define VID(v) ((v) ? (v)->id : -1)
#define WANT(v) ((v) ? (void)s_want[(v)->id]++ : (void)++s_null_want)

static void on_value_destroy(void *p) {
    struct val *v = p;
    if (!v && s_null_values) {
        ++s_null_destroyed;
        return;
    }
    if (!v || v < s_vals || v >= s_vals + MAX_VALS || v->magic != 0x7A11C0DEu) {
        mon_violation("C18:int:destructor-argument", "value destructor called with %p, which is not a value of this case", p);
        return;
    }
    v->destroyed++;
}

static struct val *new_val(void) {
    struct val *v = &s_vals[s_nvals];
    v->magic = 0x7A11C0DEu;
    v->id = s_nvals++;
    v->destroyed = 0;
    return v;
}

static int m_find(uintptr_t k) {
    for (int i = 0; i < s_n; ++i) {
        if (s_m[i].key == k) {
            return i;
        }
    }
    return -1;
}

static void m_remove_at(int i) {
    memmove(&s_m[i], &s_m[i + 1], sizeof(s_m[0]) * (size_t)(s_n - i - 1));
    --s_n;
}

static void m_move_back(int i) {
    struct ent e = s_m[i];
    m_remove_at(i);
    s_m[s_n++] = e;
}


static void compare(const struct aws_linked_hash_table *t, size_t count) {
    if (count != (size_t)s_n) {
        VIOL("C18:int:count", "element count %zu, reference %d", count, s_n);
        return;
    }
    if (s_kind != KIND_LHT && count > s_max) {
        VIOL("C18:int:over-capacity", "cache holds %zu entries, maximum %zu", count, s_max);
    }
    const struct aws_linked_list *list = aws_linked_hash_table_get_iteration_list(t);
    int i = 0;
    for (struct aws_linked_list_node *n = aws_linked_list_begin(list); n != aws_linked_list_end(list); n = aws_linked_list_next(n), ++i) {
        if (i >= s_n) {
            VIOL("C18:int:order", "iteration list has more than %d nodes", s_n);
            return;
        }
        struct aws_linked_hash_table_node *ln = AWS_CONTAINER_OF(n, struct aws_linked_hash_table_node, node);
        if ((uintptr_t)ln->key != s_m[i].key || ln->value != s_m[i].v) {
            VIOL("C18:int:order", "position %d holds key %zu value #%d, reference key %zu value #%d", i, (size_t)(uintptr_t)ln->key,
                 ln->value ? ((struct val *)ln->value)->id : -1, (size_t)s_m[i].key, VID(s_m[i].v));
            return;
        }
    }
    if (i != s_n) {
        VIOL("C18:int:order", "iteration list has %d nodes, reference %d", i, s_n);
        return;
    }
    for (int v = 0; v < s_nvals; ++v) {
        if (s_vals[v].destroyed != s_want[v]) {
            VIOL("C18:int:value-destructor", "value #%d destroyed %d times, expected %d", v, s_vals[v].destroyed, s_want[v]);
            return;
        }
    }
    if (s_null_destroyed != s_null_want) {
        VIOL("C18:int:value-destructor", "value destructor ran %d times for entries holding a NULL value, expected %d", s_null_destroyed, s_null_want);
    }
}

/* ------------------------------------------------------------------ caches configured for tens of thousands of entries
 * filled to the brim with sequential integer keys: the count is compared after every put, the victim of the first
 * overflows is looked up */
static uint64_t s_big_destroyed;
static void on_big_value_destroy(void *p) {
    (void)p;
    ++s_big_destroyed;
}

static void big_cache_case(void) {
    struct mon_rng *r = &mon_case_rng;
    static const size_t CAPS[] = {65535, 65536, 65537, 100000, 70001, 32769, 131073};
    size_t cap = CAPS[mon_below(r, sizeof(CAPS) / sizeof(CAPS[0]))];
    s_kind = 1 + (int)mon_below(r, 3);
    s_max = cap;
    s_op = "big";
    s_hl = 0;
    s_hist[0] = 0;
    mon_fp(0xB16);
    mon_fp((uint64_t)s_kind * 1000003 + cap);
    struct aws_allocator *alloc = aws_default_allocator();
    struct aws_cache *cache = s_kind == KIND_FIFO   ? aws_cache_new_fifo(alloc, aws_hash_ptr, aws_ptr_eq, NULL, on_big_value_destroy, cap)
                              : s_kind == KIND_LIFO ? aws_cache_new_lifo(alloc, aws_hash_ptr, aws_ptr_eq, NULL, on_big_value_destroy, cap)
                                                    : aws_cache_new_lru(alloc, aws_hash_ptr, aws_ptr_eq, NULL, on_big_value_destroy, cap);
    if (!cache) {
        mon_violation("C18:int:init", "aws_cache_new_* (max_items %zu) returned NULL", cap);
        return;
    }
    s_big_destroyed = 0;
    uint64_t v0 = mon_violations();
    size_t extra = 1 + (size_t)mon_below(r, 50);
    for (size_t k = 0; k < cap + extra && mon_violations() == v0; ++k) {
        /* keys 1..; values are the key again (never dereferenced) */
        if (aws_cache_put(cache, (void *)(uintptr_t)(k + 1), (void *)(uintptr_t)(k + 1))) {
            mon_violation("C18:int:put-failed", "%s max=%zu: put number %zu failed", KIND_NAME[s_kind], cap, k + 1);
            break;
        }
        size_t count = aws_cache_get_element_count(cache);
        size_t want = k + 1 < cap ? k + 1 : cap;
        uint64_t want_destroyed = k + 1 > cap ? k + 1 - cap : 0;
        if (count != want || s_big_destroyed != want_destroyed) {
            mon_violation("C18:int:big-count", "%s with max_items %zu: after %zu puts of distinct keys the cache holds %zu entries (expected %zu) and %llu values were destroyed (expected %llu)",
                          KIND_NAME[s_kind], cap, k + 1, count, want, (unsigned long long)s_big_destroyed, (unsigned long long)want_destroyed);
            break;
        }
    }
    if (mon_violations() == v0) {
        /* which keys went? FIFO / LRU (no finds in between): the oldest `extra`; LIFO: the entries inserted just before each overflowing put */
        void *out = NULL;
        uintptr_t gone = s_kind == KIND_LIFO ? cap : 1, kept = s_kind == KIND_LIFO ? 1 : extra + 1;
        aws_cache_find(cache, (void *)gone, &out);
        if (out != NULL) {
            mon_violation("C18:int:big-victim", "%s max=%zu after %zu extra puts: key %zu should have been evicted but is still found", KIND_NAME[s_kind], cap, extra, (size_t)gone);
        }
        out = NULL;
        aws_cache_find(cache, (void *)kept, &out);
        if (out != (void *)kept) {
            mon_violation("C18:int:big-victim", "%s max=%zu after %zu extra puts: key %zu should still be cached but find returned %p", KIND_NAME[s_kind], cap, extra, (size_t)kept, out);
        }
        out = NULL;
        aws_cache_find(cache, (void *)(uintptr_t)(cap + extra), &out);
        if (out != (void *)(uintptr_t)(cap + extra)) {
            mon_violation("C18:int:big-victim", "%s max=%zu: the entry just inserted is not found", KIND_NAME[s_kind], cap);
        }
    }
    aws_cache_destroy(cache);
    if (mon_violations() == v0 && s_big_destroyed != cap + extra) {
        mon_violation("C18:int:value-destructor", "%s max=%zu: %zu values put, %llu destroyed after the cache was destroyed", KIND_NAME[s_kind], cap, cap + extra,
                      (unsigned long long)s_big_destroyed);
    }
    mon_flag(F_BIG_CAPACITY);
    mon_flag(F_KIND_LHT + s_kind);
    mon_flag(F_OVERFLOW_EVICTION);
    mon_flag(F_FIND_MISS);
    mon_count("caches_with_capacity_above_32768_filled", 1);
}

static void run_case(void) {
    struct mon_rng *r = &mon_case_rng;
    struct aws_allocator *alloc = mon_guard_allocator();
    struct mon_alloc_stats st0, st1;
    mon_guard_stats(&st0);
    s_kind = (int)mon_below(r, 4);
    s_max = 1 + (size_t)mon_below(r, 8);
    int nkeys = 2 + (int)mon_below(r, MAX_KEYS - 1);
    size_t nops = 20 + (size_t)mon_below(r, 381);
    s_n = 0;
    s_nvals = 0;
    s_hl = 0;
    s_hist[0] = 0;
    memset(s_want, 0, sizeof(s_want));
    s_null_values = mon_chance(r, 1, 2);
    s_null_destroyed = s_null_want = 0;
    mon_fp((uint64_t)s_kind * 1000 + s_max * 16 + (uint64_t)nkeys);
    mon_flag(F_KIND_LHT + s_kind);
    struct aws_linked_hash_table lht;
    struct aws_cache *cache = NULL;
    struct aws_linked_hash_table *t;
    if (s_kind == KIND_LHT) {
        if (aws_linked_hash_table_init(&lht, alloc, aws_hash_ptr, aws_ptr_eq, NULL, on_value_destroy, (size_t)mon_below(r, 8))) {
            mon_violation("C18:int:init", "aws_linked_hash_table_init failed");
            return;
        }
        t = &lht;
    } else {
        cache = s_kind == KIND_FIFO   ? aws_cache_new_fifo(alloc, aws_hash_ptr, aws_ptr_eq, NULL, on_value_destroy, s_max)
                : s_kind == KIND_LIFO ? aws_cache_new_lifo(alloc, aws_hash_ptr, aws_ptr_eq, NULL, on_value_destroy, s_max)
                                      : aws_cache_new_lru(alloc, aws_hash_ptr, aws_ptr_eq, NULL, on_value_destroy, s_max);
        if (!cache) {
            mon_violation("C18:int:init", "aws_cache_new_* returned NULL");
            return;
        }
        t = &cache->table;
    }
    uint64_t v0 = mon_violations();
    for (size_t op = 0; op < nops && mon_violations() == v0 && s_nvals < MAX_VALS - 2; ++op) {
        if (mon_chance(r, 1, 3)) {
            mon_poison_last_error(r);
        }
        uintptr_t k = (uintptr_t)mon_below(r, (uint64_t)nkeys);
        if (mon_chance(r, 1, 5)) {
            k = 0; /* the NULL key */
        }
        unsigned pick = (unsigned)mon_below(r, 100);
        int at = m_find(k);
        if (pick < 50) {
            s_op = "put";
            struct val *v = s_null_values && mon_chance(r, 1, 4) ? NULL : new_val();
            hist(" put(%zu,#%d)", (size_t)k, VID(v));
            if (!v) {
                mon_flag(F_NULL_VALUE_STORED);
            }
            int rc = s_kind == KIND_LHT ? aws_linked_hash_table_put(t, (void *)k, v) : aws_cache_put(cache, (void *)k, v);
            if (rc != AWS_OP_SUCCESS) {
                VIOL("C18:int:put-failed", "put(%zu) failed with error %d", (size_t)k, aws_last_error());
                break;
            }
            if (at >= 0) {
                WANT(s_m[at].v);
                m_remove_at(at);
                mon_flag(F_OVERWRITE);
            }
            s_m[s_n].key = k;
            s_m[s_n].v = v;
            ++s_n;
            if (k == 0) {
                mon_flag(F_NULL_KEY_STORED);
            }
            if (s_kind != KIND_LHT && (size_t)s_n > s_max) {
                /* FIFO: oldest; LRU: least recently used = front; LIFO: the most recently inserted before the new one */
                int victim = s_kind == KIND_LIFO ? s_n - 2 : 0;
                if (s_m[victim].key == 0) {
                    mon_flag(F_NULL_KEY_EVICTED);
                }
                WANT(s_m[victim].v);
                m_remove_at(victim);
                mon_flag(F_OVERFLOW_EVICTION);
            }
            if (m_find(k) < 0) {
                VIOL("C18:int:harness", "reference lost the entry just inserted (key %zu)", (size_t)k);
            }
        } else if (pick < 72) {
            s_op = "find";
            void *out = (void *)(uintptr_t)0x5A5A;
            bool move = s_kind == KIND_LRU || (s_kind == KIND_LHT && mon_chance(r, 1, 2));
            hist(" %s(%zu)", move ? "find_mv" : "find", (size_t)k);
            int rc = s_kind == KIND_LHT ? (move ? aws_linked_hash_table_find_and_move_to_back(t, (void *)k, &out) : aws_linked_hash_table_find(t, (void *)k, &out))
                                        : aws_cache_find(cache, (void *)k, &out);
            if (rc != AWS_OP_SUCCESS) {
                VIOL("C18:int:find-failed", "find(%zu) returned an error", (size_t)k);
                break;
            }
            if (at >= 0) {
                if (out != s_m[at].v) {
                    VIOL("C18:int:find", "find(%zu) returned %p, the stored value is #%d", (size_t)k, out, VID(s_m[at].v));
                }
                if (move) {
                    m_move_back(at);
                }
            } else {
                mon_flag(F_FIND_MISS);
                if (out != NULL) {
                    VIOL("C18:int:find", "find(%zu) of an absent key returned %p", (size_t)k, out);
                }
            }
        } else if (pick < 88) {
            s_op = "remove";
            hist(" rm(%zu)", (size_t)k);
            int rc = s_kind == KIND_LHT ? aws_linked_hash_table_remove(t, (void *)k) : aws_cache_remove(cache, (void *)k);
            if (rc != AWS_OP_SUCCESS) {
                VIOL("C18:int:remove-failed", "remove(%zu) returned an error", (size_t)k);
                break;
            }
            if (at >= 0) {
                if (k == 0) {
                    mon_flag(F_NULL_KEY_REMOVED);
                }
                WANT(s_m[at].v);
                m_remove_at(at);
            }
        } else if (pick < 92) {
            s_op = "clear";
            hist(" clear");
            if (s_n) {
                mon_flag(F_CLEAR_NONEMPTY);
            }
            if (s_kind == KIND_LHT) {
                aws_linked_hash_table_clear(t);
            } else {
                aws_cache_clear(cache);
            }
            for (int i = 0; i < s_n; ++i) {
                WANT(s_m[i].v);
            }
            s_n = 0;
        } else if (s_kind == KIND_LRU) {
            if (mon_chance(r, 1, 2)) {
                s_op = "use_lru_element";
                hist(" use_lru");
                void *got = aws_lru_cache_use_lru_element(cache);
                if (s_n == 0) {
                    if (got) {
                        VIOL("C18:int:use-lru", "use_lru_element on an empty cache returned %p", got);
                    }
                } else {
                    if (got != s_m[0].v) {
                        VIOL("C18:int:use-lru", "use_lru_element returned %p, the least recently used value is #%d", got, VID(s_m[0].v));
                    }
                    m_move_back(0);
                    mon_flag(F_LRU_USE);
                }
            } else {
                s_op = "get_mru_element";
                hist(" get_mru");
                void *got = aws_lru_cache_get_mru_element(cache);
                if ((s_n == 0 && got) || (s_n && got != s_m[s_n - 1].v)) {
                    VIOL("C18:int:get-mru", "get_mru_element returned %p, reference #%d", got, s_n ? VID(s_m[s_n - 1].v) : -1);
                }
            }
        } else {
            s_op = "count";
        }
        compare(t, s_kind == KIND_LHT ? aws_linked_hash_table_get_element_count(t) : aws_cache_get_element_count(cache));
    }
    s_op = "clean_up";
    for (int i = 0; i < s_n; ++i) {
        WANT(s_m[i].v);
    }
    s_n = 0;
    if (s_kind == KIND_LHT) {
        aws_linked_hash_table_clean_up(&lht);
    } else {
        aws_cache_destroy(cache);
    }
    if (mon_violations() == v0) {
        for (int v = 0; v < s_nvals; ++v) {
            if (s_vals[v].destroyed != s_want[v]) {
                VIOL("C18:int:value-destructor", "value #%d destroyed %d times after clean-up, expected %d", v, s_vals[v].destroyed, s_want[v]);
                break;
            }
        }
        if (s_null_destroyed != s_null_want) {
            VIOL("C18:int:value-destructor", "value destructor ran %d times for entries holding a NULL value after clean-up, expected %d", s_null_destroyed,
                 s_null_want);
        }
        mon_guard_stats(&st1);
        if (st1.live_blocks != st0.live_blocks) {
            VIOL("C18:int:leak", "allocator imbalance after clean-up: %lld blocks", (long long)(st1.live_blocks - st0.live_blocks));
        }
    }
    mon_count("int_key_operations", nops);
}

int main(int argc, char **argv) {
    mon_init(argc, argv, "C18");
    aws_common_library_init(aws_default_allocator());
    static const char *names[] = {"null_key_stored", "null_key_evicted_on_overflow", "null_key_removed", "overflow_eviction", "overwrite_existing_key", "clear_nonempty",
                                  "lru_use_lru_element", "find_absent_key", "int_keys_linked_hash_table", "int_keys_fifo", "int_keys_lifo", "int_keys_lru", "cache_capacity_above_32768_filled_to_overflow",
                                  "null_value_stored"};
    for (int i = 0; i < (int)(sizeof(names) / sizeof(names[0])); ++i) {
        mon_flag_name(i, names[i]);
    }
    uint64_t c;
    while (mon_next_case(&c)) {
        mon_case_begin(c);
        if (c % 1024 == 1023) {
            big_cache_case();
            mon_case_end(true);
            continue;
        }
        run_case();
        mon_case_end(mon_flag_count() >= 4);
    }
    return mon_finish();
}
