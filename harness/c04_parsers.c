/*
 * C04 - decoders and parsers are total and memory-safe on arbitrary input (DESIGN.md section 5, C04).
 *
 * One target per API; `--mode` is a comma separated list of targets (a case index selects the
 * target round-robin) or the dedicated `cbor-deep` probe.  Inputs: committed seeds (corpus/c04) and
 * built-in nesting probes first, then structure-aware generation + 0..8 mutations, random bytes over
 * the grammar's alphabet, mutated seeds, splices.  Every input is copied to an exact-size heap block
 * (ASan red zones); without ASan (`rel`) it is placed flush against a PROT_NONE page, alternately at
 * the high and the low end.
 *
 * Oracle (nothing more than the property states):
 *   - no sanitizer report / signal / abort / hang        (observed by the driver)
 *   - documented failure channel: AWS_OP_ERR comes with a registered aws_last_error(); NULL; false
 *   - every non-empty view handed back lies inside the input (or the URI's own copy)
 *   - caller-provided output storage: canaries intact, len <= capacity
 *   - CBOR: remaining length never increases; loops over the input make progress
 *   - per-case watchdog on CPU time (--p0 seconds, default 10): key C04:<target>:hang
 */
#include "mon.h"

#include <aws/common/array_list.h>
#include <aws/common/byte_buf.h>
#include <aws/common/cbor.h>
#include <aws/common/common.h>
#include <aws/common/date_time.h>
#include <aws/common/encoding.h>
#include <aws/common/error.h>
#include <aws/common/host_utils.h>
#include <aws/common/json.h>
#include <aws/common/uri.h>
#include <aws/common/uuid.h>
#include <aws/common/logging.h>
#include <aws/common/xml_parser.h>

#include <dirent.h>
#include <fcntl.h>
#include <stdlib.h>
#include <signal.h>
#include <sys/mman.h>
#include <sys/time.h>
#include <sys/stat.h>
#include <sys/wait.h>
#include <unistd.h>

#if defined(__has_feature)
#    if __has_feature(address_sanitizer) && !defined(__SANITIZE_ADDRESS__)
#        define __SANITIZE_ADDRESS__ 1
#    endif
#endif
#if defined(__SANITIZE_ADDRESS__)
#    define C04_ASAN 1
#else
#    define C04_ASAN 0
#endif

/* flags of the current case are also needed by the harness itself (non-triviality rule, statistics) */
static uint64_t s_case_flags;
static inline void c04_flag(int b) {
    s_case_flags |= (uint64_t)1 << b;
    mon_flag(b);
}
#define mon_flag c04_flag

/* exported by the library when the SIMD codec is compiled in */
extern bool aws_common_private_has_avx2(void) __attribute__((weak));

#define MAX_IN (64 * 1024)
#define DOC_CAP ((size_t)(1u << 21) + 4096)

enum target {
    T_XML,
    T_JSON,
    T_CBOR_POP,
    T_CBOR_WHOLE,
    T_URI,
    T_QUERY,
    T_PCTDEC,
    T_DATE,
    T_B64,
    T_HEX,
    T_UTF8,
    T_UUID,
    T_IP,
    T_U64,
    T_COUNT
};

enum {
    F_ACCEPT,
    F_REJECT,
    F_VIEW,
    F_CALLBACK,
    F_SRC_STRUCT_MUT,
    F_SRC_WELLFORMED,
    F_SRC_RANDOM,
    F_SRC_SEED,
    F_SRC_SEED_MUT,
    F_SRC_SPLICE,
    F_EMPTY,
    F_GUARD_HIGH,
    F_GUARD_LOW,
    F_XML_DESCEND,
    F_XML_BODY,
    F_XML_SKIP,
    F_XML_ABORT,
    F_XML_ATTRS,
    F_XML_SWALLOW,
    F_JSON_WALK,
    F_JSON_PRINT,
    F_JSON_DUP,
    F_CBOR_NESTED,
    F_CBOR_INDEF,
    F_CBOR_MISMATCH_POP,
    F_URI_PARAMS,
    F_STATIC_LIST_FULL,
    F_SHORT_OUTPUT,
    F_B64_VECTOR,
    F_B64_PORTABLE,
    F_UTF8_CHUNKED,
    F_DEEP8,
    F_DEEP_PROBE_OK,
    F_DEEP_PROBE_DIED,
    F_NFLAGS
};

static const char *k_flag_names[F_NFLAGS] = {
    "accepted", "rejected_via_documented_channel", "nonempty_view_range_checked", "callback_invoked",
    "src_structured_then_mutated", "src_wellformed_unmutated", "src_random_alphabet_bytes", "src_seed_verbatim",
    "src_seed_mutated", "src_splice_of_two_documents", "empty_or_null_input", "guard_page_after_input",
    "guard_page_before_input", "xml_descend", "xml_read_body", "xml_skip", "xml_callback_abort", "xml_attributes_queried",
    "xml_error_swallowed_by_callback", "json_tree_walked", "json_printed", "json_duplicated", "cbor_nested_container",
    "cbor_indefinite_item", "cbor_mismatching_pop_refused", "uri_query_params_iterated", "static_param_list_full",
    "short_output_refused", "base64_vector_path", "base64_portable_path", "utf8_chunked", "nesting_ge_8",
    "deep_probe_survived", "deep_probe_died"};

struct tstats {
    uint64_t cases, accept, reject, views, callbacks, bytes;
};
static struct tstats s_stats[T_COUNT];
static enum target s_cur;
static const char *k_tname[T_COUNT] = {"xml", "json", "cborpop", "cborwhole", "uri", "query", "pctdec",
                                       "date", "b64", "hex", "utf8", "uuid", "ip", "u64"};
/* key prefixes: both CBOR targets share "cbor" */
static const char *k_tkey[T_COUNT] = {"xml", "json", "cbor", "cbor", "uri", "query", "pctdec",
                                      "date", "b64", "hex", "utf8", "uuid", "ip", "u64"};
static uint64_t s_max_depth_seen;
static uint64_t s_seed_cases;

/* ------------------------------------------------------------------ byte builder */
struct bb {
    uint8_t *p;
    size_t n, cap, limit;
};
static struct bb s_doc, s_aux;

static void bb_init(struct bb *b, size_t cap) {
    b->p = malloc(cap);
    b->cap = cap;
    b->limit = cap;
    b->n = 0;
    if (!b->p) {
        fprintf(stderr, "mon: out of memory\n");
        exit(2);
    }
}
static void bb_reset(struct bb *b, size_t limit) {
    b->n = 0;
    b->limit = limit > b->cap ? b->cap : limit;
}
static inline bool bb_full(const struct bb *b) {
    return b->n >= b->limit;
}
static void bb_put(struct bb *b, const void *s, size_t n) {
    size_t room = b->limit > b->n ? b->limit - b->n : 0;
    if (n > room) {
        n = room;
    }
    if (n) {
        memcpy(b->p + b->n, s, n);
        b->n += n;
    }
}
static inline void bb_c(struct bb *b, uint8_t c) {
    if (b->n < b->limit) {
        b->p[b->n++] = c;
    }
}
static void bb_s(struct bb *b, const char *s) {
    bb_put(b, s, strlen(s));
}
static void bb_rep(struct bb *b, uint8_t c, size_t n) {
    while (n-- && b->n < b->limit) {
        b->p[b->n++] = c;
    }
}
static void bb_f(struct bb *b, const char *fmt, ...) __attribute__((format(printf, 2, 3)));
static void bb_f(struct bb *b, const char *fmt, ...) {
    char tmp[256];
    va_list ap;
    va_start(ap, fmt);
    int n = vsnprintf(tmp, sizeof(tmp), fmt, ap);
    va_end(ap);
    if (n > 0) {
        bb_put(b, tmp, (size_t)n < sizeof(tmp) ? (size_t)n : sizeof(tmp) - 1);
    }
}
static void bb_insert(struct bb *b, size_t pos, const void *src, size_t n) {
    if (pos > b->n) {
        pos = b->n;
    }
    size_t room = b->limit > b->n ? b->limit - b->n : 0;
    if (n > room) {
        n = room;
    }
    if (!n) {
        return;
    }
    memmove(b->p + pos + n, b->p + pos, b->n - pos);
    memmove(b->p + pos, src, n);
    b->n += n;
}
static void bb_delete(struct bb *b, size_t pos, size_t n) {
    if (pos >= b->n) {
        return;
    }
    if (n > b->n - pos) {
        n = b->n - pos;
    }
    memmove(b->p + pos, b->p + pos + n, b->n - pos - n);
    b->n -= n;
}

/* ------------------------------------------------------------------ input placement */
struct placed {
    const uint8_t *ptr;
    size_t len;
    void *heap;
};

#define ARENA_PAGES 18
static uint8_t *s_arena; /* first usable byte; PROT_NONE page before and after */
static size_t s_arena_len;

static void arena_init(void) {
    long pg = sysconf(_SC_PAGESIZE);
    s_arena_len = (size_t)pg * ARENA_PAGES;
    uint8_t *m = mmap(NULL, s_arena_len + 2 * (size_t)pg, PROT_NONE, MAP_PRIVATE | MAP_ANONYMOUS, -1, 0);
    if (m == MAP_FAILED || mprotect(m + pg, s_arena_len, PROT_READ | PROT_WRITE)) {
        fprintf(stderr, "mon: cannot map guard arena\n");
        exit(2);
    }
    s_arena = m + pg;
    memset(s_arena, 0x5A, s_arena_len);
}

static struct placed place_input(const uint8_t *src, size_t len, struct mon_rng *r) {
    struct placed p = {NULL, len, NULL};
    bool coin = mon_chance(r, 1, 2);
    if (len == 0) {
        mon_flag(F_EMPTY);
    }
    if (!C04_ASAN && len <= s_arena_len) {
        if (len == 0 && mon_chance(r, 1, 2)) {
            return p; /* NULL with zero length */
        }
        if (coin) {
            p.ptr = s_arena + s_arena_len - len; /* a read of ptr[len] faults */
            mon_flag(F_GUARD_HIGH);
        } else {
            p.ptr = s_arena; /* a read of ptr[-1] faults */
            mon_flag(F_GUARD_LOW);
        }
        if (len) {
            memcpy((void *)p.ptr, src, len);
        }
        return p;
    }
    if (len == 0) {
        if (coin) {
            return p;
        }
        p.heap = malloc(16);
        p.ptr = (uint8_t *)p.heap + 16; /* one past the block: any dereference hits the red zone */
        return p;
    }
    p.heap = malloc(len);
    if (!p.heap) {
        fprintf(stderr, "mon: out of memory\n");
        exit(2);
    }
    memcpy(p.heap, src, len);
    p.ptr = p.heap;
    return p;
}

static void unplace(struct placed *p) {
    free(p->heap);
    p->heap = NULL;
}

/* ------------------------------------------------------------------ oracle helpers */
static char s_keybuf[8][96];
static unsigned s_keyix;
static const char *tkey(const char *suffix) {
    char *k = s_keybuf[s_keyix++ & 7];
    snprintf(k, sizeof(s_keybuf[0]), "C04:%s:%s", k_tkey[s_cur], suffix);
    return k;
}

static const uint8_t *s_in; /* current input as placed */
static size_t s_in_len;

static const char *in_hex(void) {
    return mon_hex(s_in, s_in_len, 200);
}

/* `rc` is the return value of an int-returning API called right after aws_reset_error() */
static bool chk_rc(const char *api, int rc) {
    if (rc == AWS_OP_SUCCESS) {
        mon_flag(F_ACCEPT);
        return true;
    }
    if (rc != AWS_OP_ERR) {
        mon_violation(tkey("return-value"), "%s returned %d (neither AWS_OP_SUCCESS nor AWS_OP_ERR); input(%zu)=%s", api, rc,
                      s_in_len, in_hex());
        return false;
    }
    int e = aws_last_error();
    const char *nm = aws_error_name(e);
    if (e == 0 || !nm || !strcmp(nm, "Unknown Error Code")) {
        mon_violation(tkey("error-channel"), "%s returned AWS_OP_ERR but aws_last_error()=%d (%s); input(%zu)=%s", api, e,
                      nm ? nm : "(null)", s_in_len, in_hex());
    } else {
        mon_flag(F_REJECT);
    }
    return false;
}

/* a NULL result that is documented to come with a raised error */
static void chk_null_with_error(const char *api) {
    int e = aws_last_error();
    const char *nm = aws_error_name(e);
    if (e == 0 || !nm || !strcmp(nm, "Unknown Error Code")) {
        mon_violation(tkey("error-channel"), "%s returned NULL but aws_last_error()=%d; input(%zu)=%s", api, e, s_in_len,
                      in_hex());
    } else {
        mon_flag(F_REJECT);
    }
}

static volatile uint8_t s_sink;

static void chk_view_in(const char *what, struct aws_byte_cursor v, const uint8_t *base, size_t blen) {
    if (v.len == 0) {
        return; /* the empty / NULL view is always acceptable */
    }
    bool ok = v.ptr != NULL && base != NULL && v.ptr >= base && v.len <= blen && (size_t)(v.ptr - base) <= blen - v.len;
    if (!ok) {
        mon_violation(tkey("view-outside-input"),
                      "%s: view offset %lld len %zu is not inside the %zu-byte input; input=%s", what,
                      base && v.ptr ? (long long)(v.ptr - base) : -1LL, v.len, blen, in_hex());
        return;
    }
    /* touch first and last byte */
    s_sink ^= v.ptr[0] ^ v.ptr[v.len - 1];
    mon_flag(F_VIEW);
    ++s_stats[s_cur].views;
}

static void chk_view(const char *what, struct aws_byte_cursor v) {
    chk_view_in(what, v, s_in, s_in_len);
}

static void chk_fence(const char *api, void *store) {
    int bad = mon_fence_check(store);
    if (bad) {
        mon_violation(tkey("output-canary"), "%s damaged %d canary bytes next to the caller's output storage; input(%zu)=%s", api,
                      bad, s_in_len, in_hex());
    }
}

static void note_depth(uint64_t d) {
    if (d >= 8) {
        mon_flag(F_DEEP8);
    }
    if (d > s_max_depth_seen) {
        s_max_depth_seen = d;
    }
}

/* ------------------------------------------------------------------ mutation */
static const uint8_t k_special[] = {'<', '>', '&', '=', '%', '[', ']', ':', 0};

static void mutate_once(struct bb *b, struct mon_rng *r, const char *delims, const struct bb *other) {
    size_t nd = strlen(delims);
    size_t n = b->n;
    size_t i = n ? (size_t)mon_below(r, n) : 0;
    switch (mon_below(r, 11)) {
        case 0:
            if (n) {
                b->p[i] ^= (uint8_t)(1u << mon_below(r, 8));
            }
            break;
        case 1:
            if (n && nd) {
                b->p[i] = (uint8_t)delims[mon_below(r, nd)];
            }
            break;
        case 2: {
            size_t l = 1 + (size_t)mon_below(r, mon_chance(r, 1, 4) ? 256 : 8);
            bb_delete(b, i, l);
            break;
        }
        case 3: {
            if (n) {
                size_t l = 1 + (size_t)mon_below(r, mon_chance(r, 1, 4) ? 256 : 16);
                if (l > n - i) {
                    l = n - i;
                }
                uint8_t tmp[256];
                memcpy(tmp, b->p + i, l);
                unsigned reps = mon_chance(r, 1, 8) ? 1 + (unsigned)mon_below(r, 30) : 1;
                while (reps--) {
                    bb_insert(b, i + l, tmp, l);
                }
            }
            break;
        }
        case 4: {
            if (n >= 4) {
                size_t l = 1 + (size_t)mon_below(r, n / 2 < 32 ? n / 2 : 32);
                size_t a = (size_t)mon_below(r, n - 2 * l + 1);
                size_t c = a + l + (size_t)mon_below(r, n - a - 2 * l + 1);
                for (size_t k = 0; k < l; ++k) {
                    uint8_t t = b->p[a + k];
                    b->p[a + k] = b->p[c + k];
                    b->p[c + k] = t;
                }
            }
            break;
        }
        case 5:
            b->n = i;
            break;
        case 6:
            if (other && other->n) {
                size_t j = (size_t)mon_below(r, other->n);
                b->n = i;
                bb_put(b, other->p + j, other->n - j);
            }
            break;
        case 7: {
            uint8_t c = mon_chance(r, 1, 2) ? k_special[mon_below(r, sizeof(k_special))] : (uint8_t)(0x80 + mon_below(r, 0x80));
            size_t reps = mon_chance(r, 1, 6) ? 1 + (size_t)mon_below(r, 6) : 1;
            size_t pos = n ? (size_t)mon_below(r, n + 1) : 0;
            while (reps--) {
                bb_insert(b, pos, &c, 1);
            }
            break;
        }
        case 8:
            if (nd) {
                uint8_t c = (uint8_t)delims[mon_below(r, nd)];
                bb_insert(b, n ? (size_t)mon_below(r, n + 1) : 0, &c, 1);
            }
            break;
        case 9:
            if (n) {
                b->p[i] = (uint8_t)mon_below(r, 256);
            }
            break;
        default:
            if (n && nd) { /* replace a delimiter occurrence by another delimiter */
                for (size_t k = 0; k < n; ++k) {
                    size_t at = (i + k) % n;
                    if (memchr(delims, b->p[at], nd)) {
                        b->p[at] = (uint8_t)delims[mon_below(r, nd)];
                        break;
                    }
                }
            }
            break;
    }
}

static unsigned mutate(struct bb *b, struct mon_rng *r, const char *delims, const struct bb *other, unsigned min_mut) {
    unsigned nm = (unsigned)mon_range(r, min_mut, 8);
    for (unsigned k = 0; k < nm; ++k) {
        mutate_once(b, r, delims, other);
    }
    return nm;
}

static void gen_random_bytes(struct bb *b, struct mon_rng *r, const char *alphabet, size_t alen, size_t maxlen) {
    size_t n = mon_edge_size(r, mon_chance(r, 1, 10) ? maxlen : (maxlen < 96 ? maxlen : 96));
    for (size_t i = 0; i < n; ++i) {
        if (alen && !mon_chance(r, 1, 24)) {
            bb_c(b, (uint8_t)alphabet[mon_below(r, alen)]);
        } else {
            bb_c(b, (uint8_t)mon_below(r, 256));
        }
    }
}

/* ================================================================== generators (well-formed documents) */

/* ---- XML */
static const char *k_xml_names[] = {"a", "ab", "a", "b", "Node", "abc", "a-b", "n1", "Key", "Value", "x", "a"};

static size_t gen_xml_name(struct mon_rng *r, char *out) {
    if (mon_chance(r, 1, 40)) {
        size_t l = 253 + (size_t)mon_below(r, 7); /* 253..259: around MAX_NAME_LEN 256 */
        memset(out, 'n', l);
        out[l] = 0;
        return l;
    }
    const char *s = k_xml_names[mon_below(r, sizeof(k_xml_names) / sizeof(k_xml_names[0]))];
    strcpy(out, s);
    return strlen(s);
}

static void gen_xml_text(struct mon_rng *r, struct bb *b) {
    static const char *texts[] = {"", "t", "some text", " ", "\n  ", "1234", "&amp;", "a>b", "x=y", "caf\xc3\xa9"};
    bb_s(b, texts[mon_below(r, sizeof(texts) / sizeof(texts[0]))]);
}

static void gen_xml_elem(struct mon_rng *r, struct bb *b, unsigned depth, unsigned maxdepth, bool spine, int *budget) {
    char name[300];
    gen_xml_name(r, name);
    --*budget;
    bb_c(b, '<');
    bb_s(b, name);
    unsigned na = 0;
    switch (mon_below(r, 20)) {
        case 0:
            na = 9 + (unsigned)mon_below(r, 5); /* 9..13: limit is 10 */
            break;
        case 1:
        case 2:
        case 3:
        case 4:
            na = 1 + (unsigned)mon_below(r, 3);
            break;
        default:
            break;
    }
    for (unsigned i = 0; i < na; ++i) {
        bb_c(b, ' ');
        switch (mon_below(r, 12)) {
            case 0:
                bb_f(b, "k%u", i); /* no '=' */
                break;
            case 1:
                bb_f(b, "k%u=v", i); /* unquoted */
                break;
            case 2:
                bb_f(b, "k%u=\"a=b\"", i); /* second '=' */
                break;
            case 3:
                bb_f(b, "k%u=\"\"", i);
                break;
            default:
                bb_f(b, "k%u=\"v%u\"", i, (unsigned)mon_below(r, 100));
                break;
        }
    }
    if (!spine && mon_chance(r, 1, 8)) {
        bb_s(b, mon_chance(r, 1, 2) ? "/>" : " />");
        return;
    }
    bb_c(b, '>');
    unsigned nchild = 0;
    if (depth < maxdepth && *budget > 0) {
        nchild = spine ? 1 + (unsigned)mon_below(r, 2) : (unsigned)mon_below(r, 4);
    }
    if (nchild == 0) {
        gen_xml_text(r, b);
    }
    unsigned spine_child = spine ? (unsigned)mon_below(r, nchild ? nchild : 1) : 99;
    for (unsigned i = 0; i < nchild && *budget > 0; ++i) {
        if (mon_chance(r, 1, 3)) {
            bb_s(b, mon_chance(r, 1, 2) ? "\n " : " ");
        }
        gen_xml_elem(r, b, depth + 1, maxdepth, i == spine_child, budget);
    }
    bb_s(b, "</");
    bb_s(b, name);
    bb_c(b, '>');
}

static void gen_xml(struct mon_rng *r, struct bb *b) {
    if (mon_chance(r, 1, 2)) {
        bb_s(b, "<?xml version=\"1.0\" encoding=\"UTF-8\"?>");
        if (mon_chance(r, 1, 2)) {
            bb_c(b, '\n');
        }
    }
    if (mon_chance(r, 1, 8)) {
        bb_s(b, "<!DOCTYPE doc>");
    }
    unsigned maxdepth = (unsigned)mon_below(r, 6);
    bool deep = mon_chance(r, 1, 10);
    if (deep) {
        maxdepth = 17 + (unsigned)mon_below(r, 10); /* 17..26 around the default limit 20 */
    }
    int budget = 20 + (int)mon_below(r, mon_chance(r, 1, 10) ? 400 : 60);
    gen_xml_elem(r, b, 1, maxdepth, deep, &budget);
    if (mon_chance(r, 1, 4)) {
        bb_c(b, '\n');
    }
}

/* the callback program travels in the input's tail: [program bytes][max-depth selector][program length] */
static void xml_append_tail(struct mon_rng *r, struct bb *b, int fixed_program) {
    unsigned plen = (unsigned)mon_below(r, 33);
    uint8_t op = 0;
    switch (fixed_program) {
        case 1:
            op = 0x08; /* descend everywhere, query attributes */
            break;
        case 2:
            op = 0x0B; /* read every body */
            break;
        case 3:
            op = 0x05; /* skip everything */
            break;
        default:
            break;
    }
    if (fixed_program) {
        plen = 1;
    }
    /* make room: the tail must survive the size limit */
    if (b->n + plen + 2 > b->limit) {
        b->n = b->limit > plen + 2 ? b->limit - plen - 2 : 0;
    }
    for (unsigned i = 0; i < plen; ++i) {
        uint8_t v = fixed_program ? op : (uint8_t)mon_below(r, 256);
        if (!fixed_program && mon_chance(r, 1, 2)) {
            v &= (uint8_t)~7u; /* bias to descend so deep callbacks happen */
            v |= (uint8_t)mon_below(r, 3);
        }
        bb_c(b, v);
    }
    bb_c(b, fixed_program ? 0 : (uint8_t)mon_below(r, 256));
    bb_c(b, (uint8_t)plen);
}

/* ---- JSON */
static void gen_json_ws(struct mon_rng *r, struct bb *b) {
    if (mon_chance(r, 1, 4)) {
        static const char *ws[] = {" ", "\n", "\t", "\r\n", "  "};
        bb_s(b, ws[mon_below(r, 5)]);
    }
}

static void gen_json_string(struct mon_rng *r, struct bb *b, bool is_key) {
    bb_c(b, '"');
    if (is_key && mon_chance(r, 2, 3)) {
        static const char *keys[] = {"a", "A", "key", "Key", "b", "", "id", "a"};
        bb_s(b, keys[mon_below(r, 8)]);
        bb_c(b, '"');
        return;
    }
    unsigned n = (unsigned)mon_below(r, mon_chance(r, 1, 20) ? 200 : 10);
    for (unsigned i = 0; i < n; ++i) {
        switch (mon_below(r, 16)) {
            case 0: {
                static const char *esc[] = {"\\\"", "\\\\", "\\/", "\\b", "\\f", "\\n", "\\r", "\\t"};
                bb_s(b, esc[mon_below(r, 8)]);
                break;
            }
            case 1:
                bb_f(b, "\\u%04x", (unsigned)mon_below(r, 0x10000));
                break;
            case 2: /* surrogates: pair, lone high, lone low */
                switch (mon_below(r, 3)) {
                    case 0:
                        bb_f(b, "\\ud83d\\ude%02x", (unsigned)mon_below(r, 256));
                        break;
                    case 1:
                        bb_s(b, "\\ud800");
                        break;
                    default:
                        bb_s(b, "\\udc00");
                        break;
                }
                break;
            case 3:
                bb_s(b, "\xc3\xa9");
                break;
            case 4:
                bb_s(b, "\xe2\x82\xac");
                break;
            case 5:
                if (mon_chance(r, 1, 8)) {
                    bb_c(b, (uint8_t)(1 + mon_below(r, 31))); /* raw control character: invalid */
                } else {
                    bb_s(b, "\\u0000");
                }
                break;
            default:
                bb_c(b, (uint8_t)('a' + mon_below(r, 26)));
                break;
        }
    }
    bb_c(b, '"');
}

static void gen_json_number(struct mon_rng *r, struct bb *b) {
    static const char *odd[] = {"0", "-0", "1E+400", "1e-400", "-1.5e10", "0.000001", "12345678901234567890123", "1.7976931348623157e308",
                                "4.9e-324", "9007199254740993", "-", "01", ".5", "1.", "1e", "0x10", "NaN", "Infinity", "-Infinity",
                                "1e+", "+1", "2147483648", "-2147483649", "1.0000000000000002", "123456789012345678901234567890e-20"};
    switch (mon_below(r, 4)) {
        case 0:
            bb_s(b, odd[mon_below(r, sizeof(odd) / sizeof(odd[0]))]);
            break;
        case 1:
            bb_f(b, "%lld", (long long)mon_rand(r) >> mon_below(r, 64));
            break;
        case 2:
            bb_f(b, "%u.%u", (unsigned)mon_below(r, 1000), (unsigned)mon_below(r, 1000));
            break;
        default:
            bb_f(b, "%ue%d", (unsigned)mon_below(r, 100), (int)mon_below(r, 700) - 350);
            break;
    }
}

static void gen_json_value(struct mon_rng *r, struct bb *b, unsigned depth, unsigned maxdepth, int *budget) {
    --*budget;
    gen_json_ws(r, b);
    unsigned k = (unsigned)mon_below(r, 10);
    if (depth >= maxdepth || *budget <= 0) {
        k = 2 + (unsigned)mon_below(r, 8);
    }
    switch (k) {
        case 0: {
            bb_c(b, '{');
            unsigned n = (unsigned)mon_below(r, 5);
            for (unsigned i = 0; i < n; ++i) {
                if (i) {
                    bb_c(b, ',');
                }
                gen_json_ws(r, b);
                gen_json_string(r, b, true);
                gen_json_ws(r, b);
                bb_c(b, ':');
                gen_json_value(r, b, depth + 1, maxdepth, budget);
            }
            gen_json_ws(r, b);
            bb_c(b, '}');
            break;
        }
        case 1: {
            bb_c(b, '[');
            unsigned n = (unsigned)mon_below(r, mon_chance(r, 1, 30) ? 300 : 5);
            for (unsigned i = 0; i < n; ++i) {
                if (i) {
                    bb_c(b, ',');
                }
                gen_json_value(r, b, depth + 1, maxdepth, budget);
            }
            gen_json_ws(r, b);
            bb_c(b, ']');
            break;
        }
        case 2:
        case 3:
            gen_json_string(r, b, false);
            break;
        case 4:
        case 5:
        case 6:
            gen_json_number(r, b);
            break;
        case 7:
            bb_s(b, "true");
            break;
        case 8:
            bb_s(b, "false");
            break;
        default:
            bb_s(b, "null");
            break;
    }
    gen_json_ws(r, b);
}

static void gen_json(struct mon_rng *r, struct bb *b) {
    unsigned maxdepth = 1 + (unsigned)mon_below(r, 6);
    int budget = 10 + (int)mon_below(r, mon_chance(r, 1, 10) ? 600 : 60);
    if (mon_chance(r, 1, 12)) { /* nesting chain */
        unsigned d = 8 + (unsigned)mon_below(r, mon_chance(r, 1, 4) ? 1100 : 60);
        bool obj = mon_chance(r, 1, 2);
        for (unsigned i = 0; i < d; ++i) {
            bb_s(b, obj ? "{\"a\":" : "[");
        }
        gen_json_value(r, b, 0, 2, &budget);
        for (unsigned i = 0; i < d; ++i) {
            bb_c(b, obj ? '}' : ']');
        }
        return;
    }
    if (mon_chance(r, 3, 4)) { /* a container at the top, so that walking and iteration have something to do */
        bool obj = mon_chance(r, 1, 2);
        unsigned n = 1 + (unsigned)mon_below(r, 4);
        bb_c(b, obj ? '{' : '[');
        for (unsigned i = 0; i < n; ++i) {
            if (i) {
                bb_c(b, ',');
            }
            if (obj) {
                gen_json_string(r, b, true);
                bb_c(b, ':');
            }
            gen_json_value(r, b, 1, maxdepth, &budget);
        }
        bb_c(b, obj ? '}' : ']');
        return;
    }
    gen_json_value(r, b, 0, maxdepth, &budget);
}

/* ---- CBOR */
static void cbor_head(struct bb *b, unsigned major, uint64_t v, int width) {
    uint8_t m = (uint8_t)(major << 5);
    if (width == 0) {
        width = v < 24 ? -1 : v <= 0xFF ? 1 : v <= 0xFFFF ? 2 : v <= 0xFFFFFFFFu ? 4 : 8;
    }
    if (width < 0) {
        bb_c(b, (uint8_t)(m | (v & 0x1F)));
        return;
    }
    bb_c(b, (uint8_t)(m | (width == 1 ? 24 : width == 2 ? 25 : width == 4 ? 26 : 27)));
    for (int i = width - 1; i >= 0; --i) {
        bb_c(b, (uint8_t)(v >> (8 * i)));
    }
}

static int cbor_rand_width(struct mon_rng *r, uint64_t v) {
    if (mon_chance(r, 3, 4)) {
        return 0; /* minimal */
    }
    static const int w[] = {1, 2, 4, 8};
    int x = w[mon_below(r, 4)];
    if ((x == 1 && v > 0xFF) || (x == 2 && v > 0xFFFF) || (x == 4 && v > 0xFFFFFFFFu)) {
        return 8;
    }
    return x;
}

static uint64_t cbor_rand_u64(struct mon_rng *r) {
    static const uint64_t edges[] = {0, 1, 23, 24, 255, 256, 65535, 65536, 0xFFFFFFFFu, 0x100000000ULL, UINT64_MAX, UINT64_MAX - 1,
                                     (uint64_t)INT64_MAX, (uint64_t)INT64_MAX + 1};
    if (mon_chance(r, 1, 2)) {
        return edges[mon_below(r, sizeof(edges) / sizeof(edges[0]))];
    }
    return mon_rand(r) >> mon_below(r, 64);
}

static void gen_cbor_item(struct mon_rng *r, struct bb *b, unsigned depth, unsigned maxdepth, int *budget) {
    --*budget;
    unsigned k = (unsigned)mon_below(r, 16);
    if (depth >= maxdepth || *budget <= 0) {
        k = (unsigned)mon_below(r, 8);
    }
    switch (k) {
        case 0: {
            uint64_t v = cbor_rand_u64(r);
            cbor_head(b, 0, v, cbor_rand_width(r, v));
            break;
        }
        case 1: {
            uint64_t v = cbor_rand_u64(r);
            cbor_head(b, 1, v, cbor_rand_width(r, v));
            break;
        }
        case 2:
        case 3: {
            size_t n = (size_t)mon_below(r, mon_chance(r, 1, 20) ? 300 : 12);
            cbor_head(b, k, n, cbor_rand_width(r, n));
            for (size_t i = 0; i < n; ++i) {
                bb_c(b, k == 3 ? (uint8_t)('a' + mon_below(r, 26)) : (uint8_t)mon_below(r, 256));
            }
            break;
        }
        case 4: /* floats */
            switch (mon_below(r, 3)) {
                case 0:
                    bb_c(b, 0xF9);
                    bb_c(b, (uint8_t)mon_below(r, 256));
                    bb_c(b, (uint8_t)mon_below(r, 256));
                    break;
                case 1:
                    bb_c(b, 0xFA);
                    for (int i = 0; i < 4; ++i) {
                        bb_c(b, (uint8_t)mon_below(r, 256));
                    }
                    break;
                default:
                    bb_c(b, 0xFB);
                    for (int i = 0; i < 8; ++i) {
                        bb_c(b, (uint8_t)mon_below(r, 256));
                    }
                    break;
            }
            break;
        case 5:
            bb_c(b, (uint8_t)(0xF4 + mon_below(r, 4))); /* false true null undefined */
            break;
        case 6: { /* indefinite byte / text string */
            bool text = mon_chance(r, 1, 2);
            bb_c(b, text ? 0x7F : 0x5F);
            unsigned chunks = (unsigned)mon_below(r, 4);
            for (unsigned c = 0; c < chunks; ++c) {
                size_t n = (size_t)mon_below(r, 6);
                cbor_head(b, text ? 3 : 2, n, 0);
                bb_rep(b, 'x', n);
            }
            bb_c(b, 0xFF);
            break;
        }
        case 7:
            if (mon_chance(r, 1, 6)) { /* unassigned simple values / reserved additional info: malformed */
                static const uint8_t bad[] = {0xE0, 0xF3, 0xF8, 0x1C, 0x1F, 0x3F, 0xDF, 0xFC, 0xFE};
                bb_c(b, bad[mon_below(r, sizeof(bad))]);
            } else {
                cbor_head(b, 0, mon_below(r, 24), 0);
            }
            break;
        case 8:
        case 9: { /* definite array */
            unsigned n = (unsigned)mon_below(r, 4);
            cbor_head(b, 4, n, cbor_rand_width(r, n));
            for (unsigned i = 0; i < n; ++i) {
                gen_cbor_item(r, b, depth + 1, maxdepth, budget);
            }
            break;
        }
        case 10:
        case 11: { /* definite map */
            unsigned n = (unsigned)mon_below(r, 3);
            cbor_head(b, 5, n, cbor_rand_width(r, n));
            for (unsigned i = 0; i < 2 * n; ++i) {
                gen_cbor_item(r, b, depth + 1, maxdepth, budget);
            }
            break;
        }
        case 12:
        case 13: { /* tag */
            uint64_t t = mon_chance(r, 1, 2) ? mon_below(r, 6) : cbor_rand_u64(r);
            cbor_head(b, 6, t, cbor_rand_width(r, t));
            gen_cbor_item(r, b, depth + 1, maxdepth, budget);
            break;
        }
        case 14: { /* indefinite array */
            bb_c(b, 0x9F);
            unsigned n = (unsigned)mon_below(r, 4);
            for (unsigned i = 0; i < n; ++i) {
                gen_cbor_item(r, b, depth + 1, maxdepth, budget);
            }
            bb_c(b, 0xFF);
            break;
        }
        default: { /* indefinite map */
            bb_c(b, 0xBF);
            unsigned n = (unsigned)mon_below(r, 3);
            for (unsigned i = 0; i < 2 * n; ++i) {
                gen_cbor_item(r, b, depth + 1, maxdepth, budget);
            }
            bb_c(b, 0xFF);
            break;
        }
    }
}

static void gen_cbor(struct mon_rng *r, struct bb *b) {
    int budget = 8 + (int)mon_below(r, mon_chance(r, 1, 10) ? 500 : 40);
    if (mon_chance(r, 1, 10)) { /* nesting chain of one-byte containers */
        unsigned d = 16 + (unsigned)mon_below(r, mon_chance(r, 1, 4) ? 2000 : 200);
        static const uint8_t open1[] = {0xC0, 0x81, 0xD8, 0x9F, 0xA1};
        uint8_t o = open1[mon_below(r, sizeof(open1))];
        for (unsigned i = 0; i < d; ++i) {
            bb_c(b, o);
            if (o == 0xD8) {
                bb_c(b, 0x20);
            }
            if (o == 0xA1) {
                bb_c(b, 0x00); /* key */
            }
        }
        bb_c(b, 0x00);
        if (o == 0x9F) {
            bb_rep(b, 0xFF, d);
        }
        return;
    }
    unsigned items = 1 + (unsigned)mon_below(r, 4);
    unsigned maxdepth = 1 + (unsigned)mon_below(r, 6);
    for (unsigned i = 0; i < items; ++i) {
        gen_cbor_item(r, b, 0, maxdepth, &budget);
    }
}

/* ---- URI */
static void gen_pct_text(struct mon_rng *r, struct bb *b, unsigned maxn) {
    unsigned n = (unsigned)mon_below(r, maxn + 1);
    for (unsigned i = 0; i < n; ++i) {
        switch (mon_below(r, 10)) {
            case 0:
                bb_f(b, "%%%02X", (unsigned)mon_below(r, 256));
                break;
            case 1:
                bb_c(b, "-._~"[mon_below(r, 4)]);
                break;
            default:
                bb_c(b, (uint8_t)"abcdefghijklmnopqrstuvwxyz0123456789"[mon_below(r, 36)]);
                break;
        }
    }
}

static void gen_query(struct mon_rng *r, struct bb *b) {
    unsigned n = (unsigned)mon_below(r, mon_chance(r, 1, 20) ? 200 : 6);
    for (unsigned i = 0; i < n; ++i) {
        if (i || mon_chance(r, 1, 8)) {
            bb_c(b, '&');
        }
        switch (mon_below(r, 8)) {
            case 0:
                break; /* blank entry */
            case 1:
                gen_pct_text(r, b, 5); /* key only */
                break;
            case 2:
                bb_c(b, '=');
                gen_pct_text(r, b, 5);
                break;
            case 3:
                gen_pct_text(r, b, 5);
                bb_s(b, "=a=b");
                break;
            default:
                gen_pct_text(r, b, 6);
                bb_c(b, '=');
                gen_pct_text(r, b, 8);
                break;
        }
    }
}

static void gen_uri(struct mon_rng *r, struct bb *b) {
    static const char *schemes[] = {"http", "https", "s3", "ftp", "", "a+b.c-d", "HTTP"};
    static const char *hosts[] = {"example.com", "a", "127.0.0.1", "[::1]", "[2001:db8::1%25eth0]", "[fe80::1", "", "xn--caf-dma.example",
                                  "host.name.with.many.labels.example.org", "[]", "[::ffff:1.2.3.4]"};
    static const char *ports[] = {"80", "443", "0", "65535", "65536", "4294967295", "4294967296", "18446744073709551616", "", "8a", "-1",
                                  "00000000000000000080"};
    if (mon_chance(r, 4, 5)) {
        bb_s(b, schemes[mon_below(r, 7)]);
        bb_s(b, mon_chance(r, 9, 10) ? "://" : mon_chance(r, 1, 2) ? ":/" : ":");
    }
    if (mon_chance(r, 1, 5)) {
        gen_pct_text(r, b, 6);
        if (mon_chance(r, 1, 2)) {
            bb_c(b, ':');
            gen_pct_text(r, b, 6);
        }
        bb_c(b, '@');
    }
    bb_s(b, hosts[mon_below(r, sizeof(hosts) / sizeof(hosts[0]))]);
    if (mon_chance(r, 1, 3)) {
        bb_c(b, ':');
        bb_s(b, ports[mon_below(r, sizeof(ports) / sizeof(ports[0]))]);
    }
    if (mon_chance(r, 3, 4)) {
        unsigned segs = (unsigned)mon_below(r, 5);
        bb_c(b, '/');
        for (unsigned i = 0; i < segs; ++i) {
            gen_pct_text(r, b, 8);
            if (i + 1 < segs || mon_chance(r, 1, 4)) {
                bb_c(b, '/');
            }
        }
    }
    if (mon_chance(r, 1, 2)) {
        bb_c(b, '?');
        gen_query(r, b);
    }
    if (mon_chance(r, 1, 10)) {
        bb_s(b, "#frag");
    }
}

static void gen_pctdec(struct mon_rng *r, struct bb *b) {
    gen_pct_text(r, b, mon_chance(r, 1, 10) ? 2000 : 40);
    if (mon_chance(r, 1, 4)) {
        static const char *tails[] = {"%", "%4", "%G0", "%0g", "%%", "%41", "%00", "%ff"};
        bb_s(b, tails[mon_below(r, 8)]);
    }
}

/* ---- date-time */
static void gen_date(struct mon_rng *r, struct bb *b) {
    static const char *mon3[] = {"Jan", "Feb", "Mar", "Apr", "May", "Jun", "Jul", "Aug", "Sep", "Oct", "Nov", "Dec", "jan", "DEC", "Foo"};
    static const char *wd[] = {"Mon", "Tue", "Wed", "Thu", "Fri", "Sat", "Sun", "Xyz", "Monday"};
    static const char *tz[] = {"GMT", "UTC", "UT", "Z", "+0000", "-0700", "+2359", "EST", "gmt", "+07", "ABCDE", "ABCDEF", ""};
    unsigned Y = mon_chance(r, 1, 6) ? (unsigned)mon_below(r, 10000) : 1970 + (unsigned)mon_below(r, 80);
    unsigned M = mon_chance(r, 1, 10) ? (unsigned)mon_below(r, 100) : 1 + (unsigned)mon_below(r, 12);
    unsigned D = mon_chance(r, 1, 10) ? (unsigned)mon_below(r, 100) : 1 + (unsigned)mon_below(r, 28);
    unsigned h = mon_chance(r, 1, 10) ? (unsigned)mon_below(r, 100) : (unsigned)mon_below(r, 24);
    unsigned m = (unsigned)mon_below(r, 60), s = mon_chance(r, 1, 10) ? 60 + (unsigned)mon_below(r, 40) : (unsigned)mon_below(r, 60);
    switch (mon_below(r, 5)) {
        case 0: /* RFC 822 */
        case 1:
            if (mon_chance(r, 2, 3)) {
                bb_f(b, "%s, ", wd[mon_below(r, 9)]);
            }
            bb_f(b, "%02u %s ", D, mon3[mon_below(r, 15)]);
            if (mon_chance(r, 1, 5)) {
                bb_f(b, "%02u", Y % 100);
            } else {
                bb_f(b, "%04u", Y);
            }
            if (mon_chance(r, 9, 10)) {
                bb_f(b, " %02u:%02u:%02u", h, m, s);
                const char *z = tz[mon_below(r, 13)];
                if (*z || mon_chance(r, 1, 2)) {
                    bb_f(b, " %s", z);
                }
            }
            break;
        case 2: /* ISO 8601 extended */
            bb_f(b, "%04u-%02u-%02u", Y, M, D);
            if (mon_chance(r, 4, 5)) {
                bb_f(b, "%c%02u:%02u:%02u", "Tt "[mon_below(r, 3)], h, m, s);
                if (mon_chance(r, 1, 3)) {
                    bb_c(b, mon_chance(r, 1, 2) ? '.' : ',');
                    bb_rep(b, (uint8_t)('0' + mon_below(r, 10)), (size_t)mon_below(r, mon_chance(r, 1, 8) ? 80 : 7));
                }
                switch (mon_below(r, 4)) {
                    case 0:
                        bb_f(b, "%c%02u:%02u", "+-"[mon_below(r, 2)], (unsigned)mon_below(r, 24), (unsigned)mon_below(r, 60));
                        break;
                    case 1:
                        bb_f(b, "%c%02u%02u", "+-"[mon_below(r, 2)], (unsigned)mon_below(r, 100), (unsigned)mon_below(r, 100));
                        break;
                    default:
                        bb_c(b, mon_chance(r, 1, 4) ? 'z' : 'Z');
                        break;
                }
            }
            break;
        case 3: /* ISO 8601 basic */
            bb_f(b, "%04u%02u%02u", Y, M, D);
            if (mon_chance(r, 4, 5)) {
                bb_f(b, "T%02u%02u%02uZ", h, m, s);
            }
            break;
        default: /* mixed separators */
            bb_f(b, "%04u-%02u%02uT%02u:%02u%02uZ", Y, M, D, h, m, s);
            break;
    }
    if (mon_chance(r, 1, 30)) { /* pad to 99..102 bytes: limit is 100 */
        size_t want = 99 + (size_t)mon_below(r, 4);
        while (b->n < want) {
            bb_c(b, mon_chance(r, 1, 2) ? ' ' : '0');
        }
    }
}

/* ---- codecs and small text formats */
static const char k_b64[] = "ABCDEFGHIJKLMNOPQRSTUVWXYZabcdefghijklmnopqrstuvwxyz0123456789+/";

static void gen_b64(struct mon_rng *r, struct bb *b) {
    static const size_t lens[] = {0, 1, 2, 3, 4, 5, 6, 21, 22, 23, 24, 25, 26, 27, 45, 46, 47, 48, 49, 50, 51, 72, 96, 97, 98};
    size_t n = mon_chance(r, 2, 3) ? lens[mon_below(r, sizeof(lens) / sizeof(lens[0]))] : (size_t)mon_below(r, mon_chance(r, 1, 10) ? 3000 : 200);
    size_t full = n / 3, rem = n % 3;
    for (size_t i = 0; i < full * 4; ++i) {
        bb_c(b, (uint8_t)k_b64[mon_below(r, 64)]);
    }
    if (rem == 1) {
        bb_c(b, (uint8_t)k_b64[mon_below(r, 64)]);
        bb_c(b, (uint8_t)k_b64[mon_below(r, 4) << 4]);
        bb_s(b, "==");
    } else if (rem == 2) {
        bb_c(b, (uint8_t)k_b64[mon_below(r, 64)]);
        bb_c(b, (uint8_t)k_b64[mon_below(r, 64)]);
        bb_c(b, (uint8_t)k_b64[mon_below(r, 16) << 2]);
        bb_c(b, '=');
    }
}

static void gen_hex(struct mon_rng *r, struct bb *b) {
    size_t n = (size_t)mon_below(r, mon_chance(r, 1, 10) ? 2000 : 40);
    for (size_t i = 0; i < n; ++i) {
        bb_c(b, (uint8_t)"0123456789abcdefABCDEF"[mon_below(r, 22)]);
    }
}

static void put_utf8(struct bb *b, uint32_t cp, int forced_len) {
    int l = forced_len ? forced_len : cp < 0x80 ? 1 : cp < 0x800 ? 2 : cp < 0x10000 ? 3 : 4;
    switch (l) {
        case 1:
            bb_c(b, (uint8_t)cp);
            break;
        case 2:
            bb_c(b, (uint8_t)(0xC0 | (cp >> 6)));
            bb_c(b, (uint8_t)(0x80 | (cp & 0x3F)));
            break;
        case 3:
            bb_c(b, (uint8_t)(0xE0 | (cp >> 12)));
            bb_c(b, (uint8_t)(0x80 | ((cp >> 6) & 0x3F)));
            bb_c(b, (uint8_t)(0x80 | (cp & 0x3F)));
            break;
        default:
            bb_c(b, (uint8_t)(0xF0 | ((cp >> 18) & 7)));
            bb_c(b, (uint8_t)(0x80 | ((cp >> 12) & 0x3F)));
            bb_c(b, (uint8_t)(0x80 | ((cp >> 6) & 0x3F)));
            bb_c(b, (uint8_t)(0x80 | (cp & 0x3F)));
            break;
    }
}

static void gen_utf8(struct mon_rng *r, struct bb *b) {
    static const uint32_t edges[] = {0, 0x7F, 0x80, 0x7FF, 0x800, 0xD7FF, 0xD800, 0xDFFF, 0xE000, 0xFFFF, 0x10000, 0x10FFFF, 0x110000, 0x1FFFFF, 0xFEFF};
    size_t n = (size_t)mon_below(r, mon_chance(r, 1, 10) ? 1500 : 24);
    if (mon_chance(r, 1, 8)) {
        bb_s(b, "\xEF\xBB\xBF");
    }
    for (size_t i = 0; i < n; ++i) {
        uint32_t cp = mon_chance(r, 1, 3) ? edges[mon_below(r, sizeof(edges) / sizeof(edges[0]))]
                                          : mon_chance(r, 1, 2) ? (uint32_t)mon_below(r, 0x80) : (uint32_t)mon_below(r, 0x110000);
        put_utf8(b, cp, mon_chance(r, 1, 30) ? 1 + (int)mon_below(r, 4) : 0); /* sometimes overlong / truncated */
    }
}

static void gen_uuid(struct mon_rng *r, struct bb *b) {
    static const int groups[] = {8, 4, 4, 4, 12};
    for (int g = 0; g < 5; ++g) {
        if (g) {
            bb_c(b, '-');
        }
        for (int i = 0; i < groups[g]; ++i) {
            bb_c(b, (uint8_t)"0123456789abcdefABCDEF"[mon_below(r, 22)]);
        }
    }
    if (mon_chance(r, 1, 6)) {
        bb_s(b, "trailing");
    }
    if (mon_chance(r, 1, 10)) {
        b->n = 33 + (size_t)mon_below(r, 4); /* 33..36: required length is 36 */
    }
}

static void gen_ip(struct mon_rng *r, struct bb *b) {
    if (mon_chance(r, 1, 2)) {
        for (int i = 0; i < 4; ++i) {
            if (i) {
                bb_c(b, '.');
            }
            static const char *oct[] = {"0", "1", "255", "256", "999", "0255", "00", "", "1000", "12"};
            if (mon_chance(r, 1, 2)) {
                bb_s(b, oct[mon_below(r, 10)]);
            } else {
                bb_f(b, "%u", (unsigned)mon_below(r, 256));
            }
        }
        if (mon_chance(r, 1, 8)) {
            bb_s(b, mon_chance(r, 1, 2) ? "." : "x");
        }
        return;
    }
    unsigned groups = mon_chance(r, 2, 3) ? 8 : 1 + (unsigned)mon_below(r, 10);
    unsigned dc = mon_chance(r, 1, 2) ? (unsigned)mon_below(r, groups + 1) : 99;
    for (unsigned i = 0; i < groups; ++i) {
        if (i == dc) {
            bb_s(b, i ? ":" : "::");
            continue;
        }
        if (i) {
            bb_c(b, ':');
        }
        unsigned nd = mon_chance(r, 1, 12) ? 5 : 1 + (unsigned)mon_below(r, 4);
        for (unsigned k = 0; k < nd; ++k) {
            bb_c(b, (uint8_t)"0123456789abcdefABCDEF"[mon_below(r, 22)]);
        }
    }
    switch (mon_below(r, 6)) {
        case 0:
            bb_s(b, "%eth0");
            break;
        case 1:
            bb_s(b, "%25eth0");
            break;
        case 2:
            bb_s(b, "%");
            break;
        case 3:
            bb_s(b, "%25");
            break;
        default:
            break;
    }
}

static void gen_u64(struct mon_rng *r, struct bb *b) {
    static const char *edges[] = {"0", "18446744073709551615", "18446744073709551616", "18446744073709551625", "ffffffffffffffff",
                                  "10000000000000000", "FFFFFFFFFFFFFFFF", "00000000000000000000000000000001", "1844674407370955161",
                                  "99999999999999999999", "", "-1", "+1", " 1", "1 ", "0x1f", "1e3", "\xef\xbc\x91"};
    if (mon_chance(r, 1, 2)) {
        bb_s(b, edges[mon_below(r, sizeof(edges) / sizeof(edges[0]))]);
        return;
    }
    unsigned n = 1 + (unsigned)mon_below(r, 24);
    bool hex = mon_chance(r, 1, 2);
    for (unsigned i = 0; i < n; ++i) {
        bb_c(b, (uint8_t)(hex ? "0123456789abcdefABCDEF"[mon_below(r, 22)] : "0123456789"[mon_below(r, 10)]));
    }
}

/* ================================================================== target drivers */
static struct aws_allocator *s_alloc; /* guard allocator: red zones around everything the parsers allocate */

/* ---- XML */
struct xml_ctx {
    const uint8_t *prog;
    size_t plen, pc;
    unsigned depth;
    uint64_t callbacks;
    bool runaway;
    size_t eff_max_depth; /* options.max_depth, or the documented default of 20 when 0 */
    bool depth_reported;
};

static int xml_cb(struct aws_xml_node *node, void *ud) {
    struct xml_ctx *c = ud;
    ++c->callbacks;
    ++s_stats[T_XML].callbacks;
    mon_flag(F_CALLBACK);
    note_depth(c->depth + 1);
    if (c->callbacks > s_in_len + 16) { /* every node consumes at least two bytes of the document */
        if (!c->runaway) {
            c->runaway = true;
            mon_violation("C04:xml:no-progress", "%llu callbacks for a %zu-byte document; input=%s", (unsigned long long)c->callbacks,
                          s_in_len, in_hex());
        }
        return aws_raise_error(AWS_ERROR_INVALID_STATE);
    }
    /* nesting limit: traverse is refused once max_depth frames are open, so a callback can be nested at most max_depth + 1
     * deep whatever the document looks like (the limit is what bounds the recursion through traverse and the callback) */
    if (c->depth + 1 > c->eff_max_depth + 1 && !c->depth_reported) {
        c->depth_reported = true;
        mon_violation("C04:xml:depth-limit-bypassed", "callback nested %u deep with max_depth %zu (limit allows %zu); input=%s", c->depth + 1, c->eff_max_depth,
                      c->eff_max_depth + 1, in_hex());
    }
    uint8_t op = c->plen ? c->prog[c->pc++ % c->plen] : 0;
    chk_view("node name", aws_xml_node_get_name(node));
    if (op & 8) {
        size_t na = aws_xml_node_get_num_attributes(node);
        mon_flag(F_XML_ATTRS);
        if (na > 10) {
            mon_violation("C04:xml:attribute-count", "node reports %zu attributes (storage holds 10); input=%s", na, in_hex());
            na = 10;
        }
        for (size_t i = 0; i < na; ++i) {
            struct aws_xml_attribute a = aws_xml_node_get_attribute(node, i);
            chk_view("attribute name", a.name);
            chk_view("attribute value", a.value);
        }
    }
    switch (op & 7) {
        case 0:
        case 1:
        case 2:
        case 7: {
            mon_flag(F_XML_DESCEND);
            ++c->depth;
            aws_reset_error();
            int rc = aws_xml_node_traverse(node, xml_cb, c);
            --c->depth;
            chk_rc("aws_xml_node_traverse", rc);
            if (rc && (op & 7) == 7) {
                mon_flag(F_XML_SWALLOW); /* a careless callback: ignores the failure and lets the parse go on */
                return AWS_OP_SUCCESS;
            }
            return rc ? AWS_OP_ERR : AWS_OP_SUCCESS;
        }
        case 3:
        case 4: {
            mon_flag(F_XML_BODY);
            struct aws_byte_cursor body;
            memset(&body, 0, sizeof(body));
            aws_reset_error();
            int rc = aws_xml_node_as_body(node, &body);
            if (chk_rc("aws_xml_node_as_body", rc)) {
                chk_view("node body", body);
            }
            return rc ? AWS_OP_ERR : AWS_OP_SUCCESS;
        }
        case 5:
            mon_flag(F_XML_SKIP);
            return AWS_OP_SUCCESS;
        default:
            mon_flag(F_XML_ABORT);
            return aws_raise_error(AWS_ERROR_INVALID_ARGUMENT);
    }
}

static void run_xml(const uint8_t *raw, size_t rawlen, struct mon_rng *r) {
    static const size_t depth_tbl[16] = {0, 0, 0, 0, 0, 0, 0, 0, 1, 2, 3, 19, 20, 21, 25, 64};
    size_t plen = 0, doclen = rawlen, md = 0;
    if (rawlen >= 2) {
        plen = raw[rawlen - 1] % 33;
        if (plen + 2 > rawlen) {
            plen = rawlen - 2;
        }
        md = raw[rawlen - 2];
        doclen = rawlen - 2 - plen;
    }
    struct xml_ctx c;
    memset(&c, 0, sizeof(c));
    c.prog = raw + doclen;
    c.plen = plen;
    struct placed in = place_input(raw, doclen, r);
    s_in = in.ptr;
    s_in_len = in.len;
    mon_fp(md & 15);
    struct aws_xml_parser_options opt;
    memset(&opt, 0, sizeof(opt));
    opt.doc.ptr = (uint8_t *)in.ptr;
    opt.doc.len = in.len;
    opt.max_depth = depth_tbl[md & 15];
    c.eff_max_depth = opt.max_depth ? opt.max_depth : 20;
    opt.on_root_encountered = xml_cb;
    opt.user_data = &c;
    aws_reset_error();
    int rc = aws_xml_parse(s_alloc, &opt);
    chk_rc("aws_xml_parse", rc);
    mon_sample(" doc(%zu)=%s prog=%s max_depth=%zu -> rc=%d callbacks=%llu", in.len, mon_hex(in.ptr, in.len, 96),
               mon_hex(c.prog, plen, 32), opt.max_depth, rc, (unsigned long long)c.callbacks);
    unplace(&in);
}

/* ---- JSON */
struct json_ctx {
    struct mon_rng *r;
    unsigned depth;
    long budget;
    const struct aws_json_value *parent;
};

static void json_walk(const struct aws_json_value *v, struct json_ctx *c);

static int json_on_member(const struct aws_byte_cursor *key, const struct aws_json_value *value, bool *out_continue, void *ud) {
    struct json_ctx *c = ud;
    ++s_stats[T_JSON].callbacks;
    mon_flag(F_CALLBACK);
    for (size_t i = 0; i < key->len; ++i) {
        s_sink ^= key->ptr[i];
    }
    const struct aws_json_value *obj = c->parent;
    if (c->budget > 0 && mon_chance(c->r, 1, 4)) {
        /* lookups by the key just handed out (linear in the object size: sampled) */
        s_sink ^= (uint8_t)aws_json_value_has_key(obj, *key);
        struct aws_json_value *got = aws_json_value_get_from_object(obj, *key);
        s_sink ^= (uint8_t)(got != NULL);
    }
    ++c->depth;
    json_walk(value, c);
    --c->depth;
    c->parent = obj;
    if (mon_chance(c->r, 1, 40)) {
        *out_continue = false;
    }
    if (mon_chance(c->r, 1, 60)) {
        return aws_raise_error(AWS_ERROR_INVALID_STATE);
    }
    return AWS_OP_SUCCESS;
}

static int json_on_value(size_t idx, const struct aws_json_value *value, bool *out_continue, void *ud) {
    struct json_ctx *c = ud;
    (void)idx;
    ++s_stats[T_JSON].callbacks;
    mon_flag(F_CALLBACK);
    const struct aws_json_value *arr = c->parent;
    ++c->depth;
    json_walk(value, c);
    --c->depth;
    c->parent = arr;
    if (mon_chance(c->r, 1, 60)) {
        *out_continue = false;
    }
    if (mon_chance(c->r, 1, 80)) {
        return aws_raise_error(AWS_ERROR_INVALID_STATE);
    }
    return AWS_OP_SUCCESS;
}

static void json_walk(const struct aws_json_value *v, struct json_ctx *c) {
    if (--c->budget < 0) {
        return;
    }
    note_depth(c->depth);
    bool is_s = aws_json_value_is_string(v), is_n = aws_json_value_is_number(v), is_a = aws_json_value_is_array(v);
    bool is_b = aws_json_value_is_boolean(v), is_0 = aws_json_value_is_null(v), is_o = aws_json_value_is_object(v);
    s_sink ^= (uint8_t)(is_s + is_n + is_a + is_b + is_0 + is_o);
    struct aws_byte_cursor sv;
    memset(&sv, 0, sizeof(sv));
    aws_reset_error();
    if (chk_rc("aws_json_value_get_string", aws_json_value_get_string(v, &sv))) {
        for (size_t i = 0; i < sv.len; ++i) {
            s_sink ^= sv.ptr[i]; /* the string lives in the tree, not in the input: only readability is checked */
        }
    }
    double d = 0;
    aws_reset_error();
    chk_rc("aws_json_value_get_number", aws_json_value_get_number(v, &d));
    bool bv = false;
    aws_reset_error();
    chk_rc("aws_json_value_get_boolean", aws_json_value_get_boolean(v, &bv));
    /* array face (on every kind of value: non-arrays must refuse) */
    size_t n = aws_json_get_array_size(v);
    size_t probes[6] = {0, 1, n ? n - 1 : 0, n, n + 1, SIZE_MAX};
    for (int i = 0; i < 6; ++i) {
        if (is_a && n > 64 && i == 2) {
            continue; /* linear scan of a long list */
        }
        struct aws_json_value *e = aws_json_get_array_element(v, probes[i]);
        if (e && (!is_a || probes[i] >= n)) {
            mon_violation("C04:json:element-beyond-array", "aws_json_get_array_element(index %zu) on %s of size %zu returned non-NULL; input=%s",
                          probes[i], is_a ? "an array" : "a non-array", n, in_hex());
        }
    }
    c->parent = v;
    aws_reset_error();
    int rc = aws_json_const_iterate_array(v, json_on_value, c);
    chk_rc("aws_json_const_iterate_array", rc);
    /* object face */
    s_sink ^= (uint8_t)aws_json_value_has_key(v, aws_byte_cursor_from_c_str("a"));
    s_sink ^= (uint8_t)(aws_json_value_get_from_object(v, aws_byte_cursor_from_c_str("key")) != NULL);
    c->parent = v;
    aws_reset_error();
    rc = aws_json_const_iterate_object(v, json_on_member, c);
    chk_rc("aws_json_const_iterate_object", rc);
}

static void json_print(const struct aws_json_value *v, struct mon_rng *r, bool formatted) {
    struct aws_byte_buf out;
    void *store = NULL;
    bool is_static = mon_chance(r, 1, 6);
    if (is_static) {
        size_t cap = (size_t)mon_below(r, 64);
        store = mon_fence_new(cap);
        out = aws_byte_buf_from_empty_array(store, cap);
    } else {
        aws_byte_buf_init(&out, s_alloc, (size_t)mon_below(r, 32));
    }
    aws_reset_error();
    int rc = formatted ? aws_byte_buf_append_json_string_formatted(v, &out) : aws_byte_buf_append_json_string(v, &out);
    chk_rc(formatted ? "aws_byte_buf_append_json_string_formatted" : "aws_byte_buf_append_json_string", rc);
    if (out.len > out.capacity) {
        mon_violation("C04:json:output-len", "printed length %zu exceeds capacity %zu", out.len, out.capacity);
    }
    for (size_t i = 0; i < out.len && i < 64; ++i) {
        s_sink ^= out.buffer[i];
    }
    mon_flag(F_JSON_PRINT);
    if (is_static) {
        chk_fence("aws_byte_buf_append_json_string", store);
        mon_fence_free(store);
    } else {
        aws_byte_buf_clean_up(&out);
    }
}

static void run_json(const uint8_t *raw, size_t rawlen, struct mon_rng *r) {
    struct placed in = place_input(raw, rawlen, r);
    s_in = in.ptr;
    s_in_len = in.len;
    aws_reset_error();
    struct aws_json_value *v = aws_json_value_new_from_string(s_alloc, aws_byte_cursor_from_array(in.ptr, in.len));
    if (!v) {
        mon_flag(F_REJECT); /* documented channel: NULL */
        ++s_stats[T_JSON].reject;
        mon_sample(" json(%zu)=%s -> NULL", in.len, mon_hex(in.ptr, in.len, 96));
        unplace(&in);
        return;
    }
    mon_flag(F_ACCEPT);
    ++s_stats[T_JSON].accept;
    struct json_ctx c = {.r = r, .depth = 0, .budget = 20000, .parent = NULL};
    json_walk(v, &c);
    mon_flag(F_JSON_WALK);
    json_print(v, r, false);
    json_print(v, r, true);
    aws_reset_error();
    struct aws_json_value *dup = aws_json_value_duplicate(v);
    if (dup) {
        mon_flag(F_JSON_DUP);
        struct json_ctx c2 = {.r = r, .depth = 0, .budget = 2000, .parent = NULL};
        json_walk(dup, &c2);
        aws_json_value_destroy(dup);
    } else {
        chk_null_with_error("aws_json_value_duplicate");
    }
    aws_json_value_destroy(v);
    mon_sample(" json(%zu)=%s -> tree, %ld nodes walked", in.len, mon_hex(in.ptr, in.len, 96), 20000 - c.budget);
    unplace(&in);
}

/* ---- CBOR */
static bool cbor_chk_remaining(struct aws_cbor_decoder *dec, size_t *prev, const char *after) {
    size_t now = aws_cbor_decoder_get_remaining_length(dec);
    if (now > *prev) {
        mon_violation("C04:cbor:remaining-length-increased", "after %s: remaining length %zu -> %zu; input=%s", after, *prev, now, in_hex());
        *prev = now;
        return false;
    }
    *prev = now;
    return true;
}

static void run_cbor_pop(const uint8_t *raw, size_t rawlen, struct mon_rng *r) {
    struct placed in = place_input(raw, rawlen, r);
    s_in = in.ptr;
    s_in_len = in.len;
    struct aws_cbor_decoder *dec = aws_cbor_decoder_new(s_alloc, aws_byte_cursor_from_array(in.ptr, in.len));
    size_t prev = aws_cbor_decoder_get_remaining_length(dec);
    if (prev != in.len) {
        mon_violation("C04:cbor:remaining-length-increased", "fresh decoder reports %zu remaining for %zu bytes", prev, in.len);
    }
    size_t steps = 0, items = 0;
    unsigned open = 0;
    for (;;) {
        if (++steps > in.len + 8) {
            mon_violation("C04:cbor:no-progress", "pop loop ran %zu steps over %zu bytes; input=%s", steps, in.len, in_hex());
            break;
        }
        enum aws_cbor_type type = AWS_CBOR_TYPE_UNKNOWN;
        aws_reset_error();
        int rc = aws_cbor_decoder_peek_type(dec, &type);
        bool ok = chk_rc("aws_cbor_decoder_peek_type", rc);
        cbor_chk_remaining(dec, &prev, "peek_type");
        if (!ok) {
            /* the error is sticky: every later call must keep using the documented channel */
            uint64_t u = 0;
            aws_reset_error();
            chk_rc("aws_cbor_decoder_pop_next_unsigned_int_val(after error)", aws_cbor_decoder_pop_next_unsigned_int_val(dec, &u));
            aws_reset_error();
            chk_rc("aws_cbor_decoder_consume_next_single_element(after error)", aws_cbor_decoder_consume_next_single_element(dec));
            cbor_chk_remaining(dec, &prev, "calls after error");
            break;
        }
        if (mon_chance(r, 1, 8)) { /* ask for the wrong type first: must be refused, item stays */
            struct aws_byte_cursor cur;
            uint64_t u;
            aws_reset_error();
            int rc2 = type == AWS_CBOR_TYPE_TEXT ? aws_cbor_decoder_pop_next_unsigned_int_val(dec, &u)
                                                 : aws_cbor_decoder_pop_next_text_val(dec, &cur);
            if (!chk_rc("aws_cbor_decoder_pop_next_*(mismatching type)", rc2)) {
                mon_flag(F_CBOR_MISMATCH_POP);
            }
            cbor_chk_remaining(dec, &prev, "mismatching pop");
        }
        uint64_t u64 = 0;
        double dbl = 0;
        bool bl = false;
        struct aws_byte_cursor cur;
        memset(&cur, 0, sizeof(cur));
        const char *api = "aws_cbor_decoder_consume_next_single_element";
        aws_reset_error();
        switch (type) {
            case AWS_CBOR_TYPE_UINT:
                api = "aws_cbor_decoder_pop_next_unsigned_int_val";
                rc = aws_cbor_decoder_pop_next_unsigned_int_val(dec, &u64);
                break;
            case AWS_CBOR_TYPE_NEGINT:
                api = "aws_cbor_decoder_pop_next_negative_int_val";
                rc = aws_cbor_decoder_pop_next_negative_int_val(dec, &u64);
                break;
            case AWS_CBOR_TYPE_FLOAT:
                api = "aws_cbor_decoder_pop_next_float_val";
                rc = aws_cbor_decoder_pop_next_float_val(dec, &dbl);
                break;
            case AWS_CBOR_TYPE_BOOL:
                api = "aws_cbor_decoder_pop_next_boolean_val";
                rc = aws_cbor_decoder_pop_next_boolean_val(dec, &bl);
                break;
            case AWS_CBOR_TYPE_BYTES:
                api = "aws_cbor_decoder_pop_next_bytes_val";
                rc = aws_cbor_decoder_pop_next_bytes_val(dec, &cur);
                break;
            case AWS_CBOR_TYPE_TEXT:
                api = "aws_cbor_decoder_pop_next_text_val";
                rc = aws_cbor_decoder_pop_next_text_val(dec, &cur);
                break;
            case AWS_CBOR_TYPE_ARRAY_START:
                api = "aws_cbor_decoder_pop_next_array_start";
                rc = aws_cbor_decoder_pop_next_array_start(dec, &u64);
                ++open;
                break;
            case AWS_CBOR_TYPE_MAP_START:
                api = "aws_cbor_decoder_pop_next_map_start";
                rc = aws_cbor_decoder_pop_next_map_start(dec, &u64);
                ++open;
                break;
            case AWS_CBOR_TYPE_TAG:
                api = "aws_cbor_decoder_pop_next_tag_val";
                rc = aws_cbor_decoder_pop_next_tag_val(dec, &u64);
                ++open;
                break;
            case AWS_CBOR_TYPE_INDEF_BYTES_START:
            case AWS_CBOR_TYPE_INDEF_TEXT_START:
            case AWS_CBOR_TYPE_INDEF_ARRAY_START:
            case AWS_CBOR_TYPE_INDEF_MAP_START:
                mon_flag(F_CBOR_INDEF);
                ++open;
                rc = aws_cbor_decoder_consume_next_single_element(dec);
                break;
            default: /* NULL, UNDEFINED, BREAK, (UNKNOWN) */
                rc = aws_cbor_decoder_consume_next_single_element(dec);
                break;
        }
        if (!chk_rc(api, rc)) {
            /* peek succeeded, so the matching pop has no documented reason to fail; the channel was checked above */
            break;
        }
        chk_view("bytes/text value", cur);
        cbor_chk_remaining(dec, &prev, api);
        ++items;
        if (open >= 2) {
            mon_flag(F_CBOR_NESTED);
        }
    }
    note_depth(open);
    aws_cbor_decoder_destroy(dec);
    mon_sample(" cbor(%zu)=%s -> %zu items popped", in.len, mon_hex(in.ptr, in.len, 96), items);
    unplace(&in);
}

static void run_cbor_whole(const uint8_t *raw, size_t rawlen, struct mon_rng *r) {
    struct placed in = place_input(raw, rawlen, r);
    s_in = in.ptr;
    s_in_len = in.len;
    struct aws_cbor_decoder *dec = aws_cbor_decoder_new(s_alloc, aws_byte_cursor_from_array(in.ptr, in.len));
    size_t prev = aws_cbor_decoder_get_remaining_length(dec);
    size_t steps = 0, items = 0;
    for (;;) {
        if (++steps > in.len + 8) {
            mon_violation("C04:cbor:no-progress", "consume loop ran %zu steps over %zu bytes; input=%s", steps, in.len, in_hex());
            break;
        }
        if (mon_chance(r, 1, 4)) { /* go through the one-item lookahead */
            enum aws_cbor_type type = AWS_CBOR_TYPE_UNKNOWN;
            aws_reset_error();
            if (!chk_rc("aws_cbor_decoder_peek_type", aws_cbor_decoder_peek_type(dec, &type))) {
                cbor_chk_remaining(dec, &prev, "peek_type");
                aws_reset_error();
                chk_rc("aws_cbor_decoder_consume_next_whole_data_item(after error)", aws_cbor_decoder_consume_next_whole_data_item(dec));
                break;
            }
            if (type >= AWS_CBOR_TYPE_ARRAY_START && type != AWS_CBOR_TYPE_BOOL && type != AWS_CBOR_TYPE_NULL &&
                type != AWS_CBOR_TYPE_UNDEFINED && type != AWS_CBOR_TYPE_BREAK) {
                mon_flag(F_CBOR_NESTED);
            }
        }
        size_t before = prev;
        aws_reset_error();
        int rc = aws_cbor_decoder_consume_next_whole_data_item(dec);
        bool ok = chk_rc("aws_cbor_decoder_consume_next_whole_data_item", rc);
        cbor_chk_remaining(dec, &prev, "consume_next_whole_data_item");
        if (!ok) {
            aws_reset_error();
            chk_rc("aws_cbor_decoder_consume_next_whole_data_item(after error)", aws_cbor_decoder_consume_next_whole_data_item(dec));
            break;
        }
        ++items;
        if (before - prev >= 3) {
            mon_flag(F_CBOR_NESTED);
        }
    }
    aws_cbor_decoder_destroy(dec);
    mon_sample(" cbor(%zu)=%s -> %zu whole items consumed", in.len, mon_hex(in.ptr, in.len, 96), items);
    unplace(&in);
}

/* ---- URI, query strings, percent-decoding */
static void chk_param_views(const char *what, const struct aws_uri_param *p, const uint8_t *base, size_t blen) {
    chk_view_in(what, p->key, base, blen);
    chk_view_in(what, p->value, base, blen);
}

/* both iterators over `query` (which lies inside base[0..blen)) */
static void run_query_iterators(struct aws_byte_cursor query, const struct aws_uri *uri, const uint8_t *base, size_t blen, struct mon_rng *r) {
    struct aws_uri_param param;
    memset(&param, 0, sizeof(param));
    size_t n = 0;
    while (uri ? aws_uri_query_string_next_param(uri, &param) : aws_query_string_next_param(query, &param)) {
        chk_param_views("query iterator param", &param, base, blen);
        if (++n > query.len + 2) {
            mon_violation(tkey("no-progress"), "query iterator produced %zu params from %zu bytes; input=%s", n, query.len, in_hex());
            break;
        }
    }
    if (n) {
        mon_flag(F_URI_PARAMS);
    }
    struct aws_array_list list;
    aws_array_list_init_dynamic(&list, s_alloc, 2, sizeof(struct aws_uri_param));
    aws_reset_error();
    int rc = uri ? aws_uri_query_string_params(uri, &list) : aws_query_string_params(query, &list);
    chk_rc("aws_query_string_params", rc);
    size_t ln = aws_array_list_length(&list);
    for (size_t i = 0; i < ln; ++i) {
        struct aws_uri_param p;
        aws_array_list_get_at(&list, &p, i);
        chk_param_views("query list param", &p, base, blen);
    }
    aws_array_list_clean_up(&list);
    if (mon_chance(r, 1, 3)) { /* caller-provided list storage that may be too small */
        size_t cap = 1 + (size_t)mon_below(r, 4);
        void *store = mon_fence_new(cap * sizeof(struct aws_uri_param));
        aws_array_list_init_static(&list, store, cap, sizeof(struct aws_uri_param));
        aws_reset_error();
        rc = uri ? aws_uri_query_string_params(uri, &list) : aws_query_string_params(query, &list);
        if (!chk_rc("aws_query_string_params(static list)", rc)) {
            mon_flag(F_STATIC_LIST_FULL);
        }
        chk_fence("aws_query_string_params(static list)", store);
        mon_fence_free(store);
    }
}

static void run_uri(const uint8_t *raw, size_t rawlen, struct mon_rng *r) {
    struct placed in = place_input(raw, rawlen, r);
    s_in = in.ptr;
    s_in_len = in.len;
    struct aws_uri uri;
    memset(&uri, 0xA5, sizeof(uri));
    struct aws_byte_cursor cur = aws_byte_cursor_from_array(in.ptr, in.len);
    aws_reset_error();
    int rc = aws_uri_init_parse(&uri, s_alloc, &cur);
    if (chk_rc("aws_uri_init_parse", rc)) {
        const uint8_t *base = uri.uri_str.buffer;
        size_t blen = uri.uri_str.len;
        chk_view_in("scheme", *aws_uri_scheme(&uri), base, blen);
        chk_view_in("authority", *aws_uri_authority(&uri), base, blen);
        chk_view_in("path", *aws_uri_path(&uri), base, blen);
        chk_view_in("query_string", *aws_uri_query_string(&uri), base, blen);
        chk_view_in("host_name", *aws_uri_host_name(&uri), base, blen);
        chk_view_in("path_and_query", *aws_uri_path_and_query(&uri), base, blen);
        chk_view_in("userinfo", uri.userinfo, base, blen);
        chk_view_in("user", uri.user, base, blen);
        chk_view_in("password", uri.password, base, blen);
        s_sink ^= (uint8_t)aws_uri_port(&uri);
        run_query_iterators(*aws_uri_query_string(&uri), &uri, base, blen, r);
        aws_uri_clean_up(&uri);
    }
    mon_sample(" uri(%zu)=%s -> rc=%d", in.len, mon_hex(in.ptr, in.len, 96), rc);
    unplace(&in);
}

static void run_query(const uint8_t *raw, size_t rawlen, struct mon_rng *r) {
    struct placed in = place_input(raw, rawlen, r);
    s_in = in.ptr;
    s_in_len = in.len;
    mon_flag(F_ACCEPT); /* the iterator has no failure channel besides "no further params" */
    run_query_iterators(aws_byte_cursor_from_array(in.ptr, in.len), NULL, in.ptr, in.len, r);
    mon_sample(" query(%zu)=%s", in.len, mon_hex(in.ptr, in.len, 96));
    unplace(&in);
}

static void run_pctdec(const uint8_t *raw, size_t rawlen, struct mon_rng *r) {
    struct placed in = place_input(raw, rawlen, r);
    s_in = in.ptr;
    s_in_len = in.len;
    struct aws_byte_cursor cur = aws_byte_cursor_from_array(in.ptr, in.len);
    struct aws_byte_buf out;
    void *store = NULL;
    bool is_static = mon_chance(r, 1, 5);
    size_t pre = (size_t)mon_below(r, 8);
    mon_fp(is_static);
    if (is_static) {
        /* no allocator: the documented reservation step cannot grow it */
        size_t cap = pre + (mon_chance(r, 1, 2) ? in.len : (size_t)mon_below(r, in.len + 2));
        store = mon_fence_new(cap);
        out = aws_byte_buf_from_empty_array(store, cap);
        out.len = pre < cap ? pre : cap;
    } else {
        aws_byte_buf_init(&out, s_alloc, pre + (size_t)mon_below(r, in.len + 4));
        out.len = pre < out.capacity ? pre : out.capacity;
    }
    size_t len0 = out.len;
    aws_reset_error();
    int rc = aws_byte_buf_append_decoding_uri(&out, &cur);
    bool ok = chk_rc("aws_byte_buf_append_decoding_uri", rc);
    if (out.len > out.capacity || (ok && (out.len < len0 || out.len - len0 > in.len))) {
        mon_violation("C04:pctdec:output-len", "len %zu -> %zu, capacity %zu, input %zu bytes; input=%s", len0, out.len, out.capacity, in.len,
                      in_hex());
    }
    if (is_static) {
        if (!ok) {
            mon_flag(F_SHORT_OUTPUT);
        }
        chk_fence("aws_byte_buf_append_decoding_uri", store);
        mon_fence_free(store);
    } else {
        aws_byte_buf_clean_up(&out);
    }
    mon_sample(" pct(%zu)=%s -> rc=%d", in.len, mon_hex(in.ptr, in.len, 96), rc);
    unplace(&in);
}

/* ---- date-time */
static void run_date(const uint8_t *raw, size_t rawlen, struct mon_rng *r) {
    struct placed in = place_input(raw, rawlen, r);
    s_in = in.ptr;
    s_in_len = in.len;
    static const enum aws_date_format fmts[4] = {AWS_DATE_FORMAT_RFC822, AWS_DATE_FORMAT_ISO_8601, AWS_DATE_FORMAT_ISO_8601_BASIC,
                                                 AWS_DATE_FORMAT_AUTO_DETECT};
    int results = 0;
    for (int f = 0; f < 4; ++f) {
        struct aws_date_time dt;
        memset(&dt, 0xA5, sizeof(dt));
        struct aws_byte_cursor cur = aws_byte_cursor_from_array(in.ptr, in.len);
        aws_reset_error();
        int rc = aws_date_time_init_from_str_cursor(&dt, &cur, fmts[f]);
        bool ok = chk_rc("aws_date_time_init_from_str_cursor", rc);
        results = results * 2 + ok;
        if (ok) {
            double es = aws_date_time_as_epoch_secs(&dt);
            uint8_t eb;
            memcpy(&eb, &es, 1);
            s_sink ^= eb ^ (uint8_t)aws_date_time_month(&dt, false) ^ (uint8_t)aws_date_time_day_of_week(&dt, true);
        }
        memset(&dt, 0x5A, sizeof(dt));
        struct aws_byte_buf buf = aws_byte_buf_from_array(in.ptr, in.len);
        aws_reset_error();
        rc = aws_date_time_init_from_str(&dt, &buf, fmts[f]);
        chk_rc("aws_date_time_init_from_str", rc);
    }
    mon_sample(" date(%zu)=%s -> accepted-by-format bits %x", in.len, mon_hex(in.ptr, in.len, 110), results);
    unplace(&in);
}

/* ---- base64 / hex */
static void run_decode_into(bool b64, struct placed *in, size_t cap, struct mon_rng *r) {
    struct aws_byte_cursor cur = aws_byte_cursor_from_array(in->ptr, in->len);
    void *store = mon_fence_new(cap);
    memset(store, 0xCC, cap);
    struct aws_byte_buf out = aws_byte_buf_from_empty_array(store, cap);
    /* a re-used output buffer that was not reset still holds a length: whatever the decoder does with it, it stays inside */
    if (mon_chance(r, 1, 2)) {
        out.len = (size_t)mon_below(r, cap + 1);
    }
    aws_reset_error();
    int rc = b64 ? aws_base64_decode(&cur, &out) : aws_hex_decode(&cur, &out);
    chk_rc(b64 ? "aws_base64_decode" : "aws_hex_decode", rc);
    if (out.len > out.capacity) {
        mon_violation(tkey("output-len"), "decoder reports len %zu for a buffer of capacity %zu; input(%zu)=%s", out.len, out.capacity,
                      in->len, in_hex());
    }
    chk_fence(b64 ? "aws_base64_decode" : "aws_hex_decode", store);
    mon_fence_free(store);
}

static void run_codec(bool b64, const uint8_t *raw, size_t rawlen, struct mon_rng *r) {
    struct placed in = place_input(raw, rawlen, r);
    s_in = in.ptr;
    s_in_len = in.len;
    struct aws_byte_cursor cur = aws_byte_cursor_from_array(in.ptr, in.len);
    size_t dl = 0;
    aws_reset_error();
    int rc = b64 ? aws_base64_compute_decoded_len(&cur, &dl) : aws_hex_compute_decoded_len(in.len, &dl);
    bool ok = chk_rc(b64 ? "aws_base64_compute_decoded_len" : "aws_hex_compute_decoded_len", rc);
    if (b64) {
        bool vec = aws_common_private_has_avx2 && aws_common_private_has_avx2();
        mon_flag(vec ? F_B64_VECTOR : F_B64_PORTABLE);
    }
    if (ok && dl > in.len + 1) {
        mon_violation(tkey("decoded-len"), "computed decoded length %zu for %zu input bytes", dl, in.len);
        dl = in.len;
    }
    if (!ok) {
        dl = (size_t)mon_below(r, in.len + 2);
    }
    run_decode_into(b64, &in, dl, r); /* exact fit */
    if (dl > 0) {
        size_t small = mon_chance(r, 1, 2) ? dl - 1 : (size_t)mon_below(r, dl);
        run_decode_into(b64, &in, small, r); /* must be refused without writing past `small` */
        mon_flag(F_SHORT_OUTPUT);
    }
    if (mon_chance(r, 1, 3)) {
        run_decode_into(b64, &in, dl + 1 + (size_t)mon_below(r, 40), r);
    }
    mon_sample(" %s(%zu)=%s -> decoded_len rc=%d len=%zu", b64 ? "b64" : "hex", in.len, mon_hex(in.ptr, in.len, 96), rc, dl);
    unplace(&in);
}

static void run_b64(const uint8_t *raw, size_t rawlen, struct mon_rng *r) {
    run_codec(true, raw, rawlen, r);
}
static void run_hex(const uint8_t *raw, size_t rawlen, struct mon_rng *r) {
    run_codec(false, raw, rawlen, r);
}

/* ---- UTF-8 */
struct utf8_ctx {
    uint64_t seen, fail_at;
};
static int utf8_on_cp(uint32_t cp, void *ud) {
    struct utf8_ctx *c = ud;
    s_sink ^= (uint8_t)cp;
    ++s_stats[T_UTF8].callbacks;
    mon_flag(F_CALLBACK);
    if (++c->seen == c->fail_at) {
        return aws_raise_error(AWS_ERROR_INVALID_ARGUMENT);
    }
    return AWS_OP_SUCCESS;
}

static void run_utf8(const uint8_t *raw, size_t rawlen, struct mon_rng *r) {
    struct placed in = place_input(raw, rawlen, r);
    s_in = in.ptr;
    s_in_len = in.len;
    struct aws_byte_cursor cur = aws_byte_cursor_from_array(in.ptr, in.len);
    aws_reset_error();
    int rc0 = aws_decode_utf8(cur, NULL);
    chk_rc("aws_decode_utf8(NULL options)", rc0);
    struct utf8_ctx c = {0, mon_chance(r, 1, 6) ? 1 + mon_below(r, in.len + 1) : 0};
    struct aws_utf8_decoder_options opt = {.on_codepoint = utf8_on_cp, .user_data = &c};
    aws_reset_error();
    chk_rc("aws_decode_utf8(callback)", aws_decode_utf8(cur, &opt));
    /* chunked */
    c.seen = 0;
    struct aws_utf8_decoder *dec = aws_utf8_decoder_new(s_alloc, mon_chance(r, 1, 2) ? &opt : NULL);
    size_t pos = 0;
    bool failed = false;
    unsigned chunks = 0;
    while (pos < in.len) {
        size_t n = 1 + (size_t)mon_below(r, mon_chance(r, 1, 2) ? 3 : 64);
        if (n > in.len - pos) {
            n = in.len - pos;
        }
        aws_reset_error();
        if (!chk_rc("aws_utf8_decoder_update", aws_utf8_decoder_update(dec, aws_byte_cursor_from_array(in.ptr + pos, n)))) {
            failed = true;
            break;
        }
        pos += n;
        ++chunks;
    }
    if (mon_chance(r, 1, 10)) {
        aws_utf8_decoder_update(dec, aws_byte_cursor_from_array(NULL, 0));
    }
    aws_reset_error();
    chk_rc("aws_utf8_decoder_finalize", aws_utf8_decoder_finalize(dec));
    if (chunks >= 2) {
        mon_flag(F_UTF8_CHUNKED);
    }
    aws_utf8_decoder_destroy(dec);
    mon_sample(" utf8(%zu)=%s -> one-shot rc=%d, chunked %s after %u chunks", in.len, mon_hex(in.ptr, in.len, 96), rc0,
               failed ? "failed" : "ok", chunks);
    unplace(&in);
}

/* ---- UUID, IP literals, unsigned integers */
static void run_uuid(const uint8_t *raw, size_t rawlen, struct mon_rng *r) {
    struct placed in = place_input(raw, rawlen, r);
    s_in = in.ptr;
    s_in_len = in.len;
    struct aws_uuid u;
    struct aws_byte_cursor cur = aws_byte_cursor_from_array(in.ptr, in.len);
    aws_reset_error();
    int rc = aws_uuid_init_from_str(&u, &cur);
    chk_rc("aws_uuid_init_from_str", rc);
    mon_sample(" uuid(%zu)=%s -> rc=%d", in.len, mon_hex(in.ptr, in.len, 64), rc);
    unplace(&in);
}

static void run_ip(const uint8_t *raw, size_t rawlen, struct mon_rng *r) {
    struct placed in = place_input(raw, rawlen, r);
    s_in = in.ptr;
    s_in_len = in.len;
    struct aws_byte_cursor cur = aws_byte_cursor_from_array(in.ptr, in.len);
    bool v4 = aws_host_utils_is_ipv4(cur);
    bool v6 = aws_host_utils_is_ipv6(cur, false);
    bool v6e = aws_host_utils_is_ipv6(cur, true);
    mon_flag(v4 || v6 || v6e ? F_ACCEPT : F_REJECT); /* channel is the boolean itself */
    mon_sample(" ip(%zu)=%s -> v4=%d v6=%d v6(uri-encoded)=%d", in.len, mon_hex(in.ptr, in.len, 64), v4, v6, v6e);
    unplace(&in);
}

static void run_u64(const uint8_t *raw, size_t rawlen, struct mon_rng *r) {
    struct placed in = place_input(raw, rawlen, r);
    s_in = in.ptr;
    s_in_len = in.len;
    struct aws_byte_cursor cur = aws_byte_cursor_from_array(in.ptr, in.len);
    uint64_t v = 0;
    aws_reset_error();
    int rc = aws_byte_cursor_utf8_parse_u64(cur, &v);
    chk_rc("aws_byte_cursor_utf8_parse_u64", rc);
    aws_reset_error();
    int rc2 = aws_byte_cursor_utf8_parse_u64_hex(cur, &v);
    chk_rc("aws_byte_cursor_utf8_parse_u64_hex", rc2);
    mon_sample(" u64(%zu)=%s -> dec rc=%d hex rc=%d", in.len, mon_hex(in.ptr, in.len, 64), rc, rc2);
    unplace(&in);
}

/* ================================================================== target table */
struct tdef {
    size_t max_len;
    void (*gen)(struct mon_rng *, struct bb *);
    const char *alphabet;
    const char *delims;
    void (*run)(const uint8_t *, size_t, struct mon_rng *);
};

static const struct tdef k_defs[T_COUNT] = {
    [T_XML] = {MAX_IN, gen_xml, "<>/=\"? !abAB \n-k1", "<>/=\" ?!", run_xml},
    [T_JSON] = {MAX_IN, gen_json, "{}[]\":,\\ue0123456789.-+Eatrfnl \n", "{}[]\":,\\", run_json},
    [T_CBOR_POP] = {16 * 1024, gen_cbor, "\x00\x17\x18\x19\x1a\x1b\x20\x38\x3b\x40\x41\x58\x5b\x5f\x60\x61\x78\x7b\x7f\x80\x81\x98\x9b\x9f\xa0\xa1\xb8\xbb\xbf\xc0\xd8\xdb\xf4\xf5\xf6\xf7\xf9\xfa\xfb\xff\x01\x02",
                    "\x5f\x7f\x9f\xbf\xff\x81\xa1\xc0\x1b\x5b\x9b\xbb", run_cbor_pop},
    [T_CBOR_WHOLE] = {16 * 1024, gen_cbor, "\x00\x17\x18\x19\x1a\x1b\x20\x38\x3b\x40\x41\x58\x5b\x5f\x60\x61\x78\x7b\x7f\x80\x81\x98\x9b\x9f\xa0\xa1\xb8\xbb\xbf\xc0\xd8\xdb\xf4\xf5\xf6\xf7\xf9\xfa\xfb\xff\x01\x02",
                      "\x5f\x7f\x9f\xbf\xff\x81\xa1\xc0\x1b\x5b\x9b\xbb", run_cbor_whole},
    [T_URI] = {MAX_IN, gen_uri, ":/?#[]@!$&'()*+,;=%-._~abcXYZ0189", ":/?#[]@&=%", run_uri},
    [T_QUERY] = {MAX_IN, gen_query, "&=%abc019;+", "&=%", run_query},
    [T_PCTDEC] = {MAX_IN, gen_pctdec, "%0123456789abcdefABCDEFgG xz", "%", run_pctdec},
    [T_DATE] = {128, gen_date, "0123456789TZtz:-+., JanFebMrApyulgSOctNvDGMUCWdhi", ":-+., TZ", run_date},
    [T_B64] = {MAX_IN, gen_b64, "ABCDEFGHIJKLMNOPQRSTUVWXYZabcdefghijklmnopqrstuvwxyz0123456789+/=", "=-_ \n", run_b64},
    [T_HEX] = {MAX_IN, gen_hex, "0123456789abcdefABCDEFgGxX", "gGxX ", run_hex},
    [T_UTF8] = {MAX_IN, gen_utf8, "\x7f\x80\xbf\xc0\xc1\xc2\xdf\xe0\xed\xa0\xef\xf0\xf4\x8f\x90\xf5\xf8\xffz", "\x80\xc0\xe0\xf0\xf8\xff", run_utf8},
    [T_UUID] = {64, gen_uuid, "0123456789abcdefABCDEF-", "-gG ", run_uuid},
    [T_IP] = {64, gen_ip, "0123456789abcdefABCDEF:.%", ":.%", run_ip},
    [T_U64] = {64, gen_u64, "0123456789abcdefABCDEF", "+- xg", run_u64},
};

/* ================================================================== seeds: corpus files + built-in probes */
struct seed {
    uint8_t *p;
    size_t n;
    char name[56];
};
static struct seed *s_seeds[T_COUNT];
static size_t s_nseeds[T_COUNT];
static uint64_t s_corpus_files, s_builtin_probes;

static void add_seed(enum target t, const char *name, const void *p, size_t n) {
    s_seeds[t] = realloc(s_seeds[t], (s_nseeds[t] + 1) * sizeof(struct seed));
    struct seed *s = &s_seeds[t][s_nseeds[t]++];
    s->p = malloc(n ? n : 1);
    if (n) {
        memcpy(s->p, p, n);
    }
    s->n = n;
    snprintf(s->name, sizeof(s->name), "%s", name);
}

static void add_lit(enum target t, const char *lit) {
    add_seed(t, lit, lit, strlen(lit));
    ++s_builtin_probes;
}

static void add_probe_bb(enum target t, const char *name) {
    add_seed(t, name, s_aux.p, s_aux.n);
    ++s_builtin_probes;
}

static void load_corpus(enum target t) {
    char dir[1024];
    const char *root = getenv("VERIF_CORPUS");
    if (root && *root) {
        snprintf(dir, sizeof(dir), "%s/%s", root, k_tkey[t]);
    } else {
        /* <verif>/harness/c04_parsers.c -> <verif>/corpus/c04 */
        char here[900];
        snprintf(here, sizeof(here), "%s", __FILE__);
        char *sl = strrchr(here, '/');
        if (sl) {
            *sl = 0;
            sl = strrchr(here, '/');
        }
        if (sl) {
            *sl = 0;
        } else {
            strcpy(here, "/verif");
        }
        snprintf(dir, sizeof(dir), "%s/corpus/c04/%s", here, k_tkey[t]);
    }
    struct dirent **ents = NULL;
    int n = scandir(dir, &ents, NULL, alphasort);
    for (int i = 0; i < n; ++i) {
        if (ents[i]->d_name[0] != '.') {
            char path[1400];
            snprintf(path, sizeof(path), "%s/%s", dir, ents[i]->d_name);
            FILE *f = fopen(path, "rb");
            if (f) {
                size_t got = fread(s_aux.p, 1, MAX_IN, f);
                fclose(f);
                add_seed(t, ents[i]->d_name, s_aux.p, got);
                ++s_corpus_files;
            }
        }
        free(ents[i]);
    }
    free(ents);
}

static void add_probes(enum target t) {
    char nm[56];
    struct bb *b = &s_aux;
    switch (t) {
        case T_XML:
            /* depth 19..25 around the default limit of 20: distinct names and same-name nesting */
            for (unsigned d = 19; d <= 25; ++d) {
                for (int same = 0; same < 2; ++same) {
                    bb_reset(b, MAX_IN);
                    for (unsigned i = 0; i < d; ++i) {
                        if (same) {
                            bb_s(b, "<a>");
                        } else {
                            bb_f(b, "<n%u>", i);
                        }
                    }
                    bb_s(b, "x");
                    for (unsigned i = d; i-- > 0;) {
                        if (same) {
                            bb_s(b, "</a>");
                        } else {
                            bb_f(b, "</n%u>", i);
                        }
                    }
                    snprintf(nm, sizeof(nm), "depth%u%s", d, same ? "-same-name" : "");
                    add_probe_bb(t, nm);
                }
            }
            for (unsigned l = 252; l <= 260; ++l) { /* MAX_NAME_LEN 256 (+3 overhead) */
                bb_reset(b, MAX_IN);
                bb_s(b, "<r><");
                bb_rep(b, 'n', l);
                bb_s(b, ">body</");
                bb_rep(b, 'n', l);
                bb_s(b, "></r>");
                snprintf(nm, sizeof(nm), "name%u", l);
                add_probe_bb(t, nm);
            }
            for (unsigned na = 9; na <= 12; ++na) {
                bb_reset(b, MAX_IN);
                bb_s(b, "<r><e");
                for (unsigned i = 0; i < na; ++i) {
                    bb_f(b, " k%u=\"v%u\"", i, i);
                }
                bb_s(b, ">t</e></r>");
                snprintf(nm, sizeof(nm), "attrs%u", na);
                add_probe_bb(t, nm);
            }
            break;
        case T_JSON: {
            static const unsigned depths[] = {999, 1000, 1001, 100000};
            for (unsigned k = 0; k < 4; ++k) {
                for (int shape = 0; shape < 3; ++shape) {
                    bb_reset(b, DOC_CAP);
                    for (unsigned i = 0; i < depths[k]; ++i) {
                        bb_s(b, shape == 1 ? "{\"a\":" : "[");
                    }
                    if (shape == 1) {
                        bb_s(b, "1");
                    }
                    if (shape != 2) { /* shape 2: never closed */
                        for (unsigned i = 0; i < depths[k]; ++i) {
                            bb_c(b, shape == 1 ? '}' : ']');
                        }
                    }
                    snprintf(nm, sizeof(nm), "nest%u-%s", depths[k], shape == 0 ? "arrays" : shape == 1 ? "objects" : "unclosed");
                    add_probe_bb(t, nm);
                }
            }
            break;
        }
        case T_CBOR_POP:
        case T_CBOR_WHOLE: {
            /* one C stack frame per level in consume_next_whole_data_item: the general stages stay at <= 10^4
             * levels (inputs <= 16 KiB); 10^5 / 10^6 live in the dedicated cbor-deep stage */
            static const unsigned depths[] = {100, 1000, 10000};
            static const struct {
                const char *name;
                uint8_t open, extra, close;
                int has_extra, has_close;
            } shapes[] = {{"tags", 0xC0, 0, 0, 0, 0},      {"arrays", 0x81, 0, 0, 0, 0},     {"maps", 0xA1, 0x00, 0, 1, 0},
                          {"indef-arrays", 0x9F, 0, 0xFF, 0, 1}, {"indef-maps", 0xBF, 0x00, 0xFF, 1, 1}};
            for (unsigned k = 0; k < 3; ++k) {
                for (unsigned s = 0; s < 5; ++s) {
                    unsigned d = depths[k];
                    if ((size_t)d * (1 + (size_t)shapes[s].has_extra + (size_t)shapes[s].has_close) + 1 > k_defs[t].max_len) {
                        d = (unsigned)((k_defs[t].max_len - 1) / (1 + (size_t)shapes[s].has_extra + (size_t)shapes[s].has_close));
                    }
                    bb_reset(b, MAX_IN);
                    for (unsigned i = 0; i < d; ++i) {
                        bb_c(b, shapes[s].open);
                        if (shapes[s].has_extra) {
                            bb_c(b, shapes[s].extra);
                        }
                    }
                    bb_c(b, 0x00);
                    if (shapes[s].has_close) {
                        bb_rep(b, shapes[s].close, d);
                    }
                    snprintf(nm, sizeof(nm), "nest%u-%s", d, shapes[s].name);
                    add_probe_bb(t, nm);
                }
            }
            /* huge declared sizes */
            add_seed(t, "array-2^64-1", "\x9b\xff\xff\xff\xff\xff\xff\xff\xff\x00", 10);
            add_seed(t, "map-2^64-1", "\xbb\xff\xff\xff\xff\xff\xff\xff\xff\x00\x00", 11);
            add_seed(t, "bytes-2^64-1", "\x5b\xff\xff\xff\xff\xff\xff\xff\xff\x00", 10);
            add_seed(t, "text-2^63", "\x7b\x80\x00\x00\x00\x00\x00\x00\x00\x00", 10);
            add_seed(t, "bytes-len-one-short", "\x45\x01\x02\x03\x04", 5);
            s_builtin_probes += 5;
            break;
        }
        case T_DATE:
            for (unsigned l = 99; l <= 102; ++l) { /* AWS_DATE_TIME_STR_MAX_LEN 100 */
                bb_reset(b, 200);
                bb_s(b, "2023-11-14T10:20:30.");
                while (b->n < l - 1) {
                    bb_c(b, '1');
                }
                bb_c(b, 'Z');
                snprintf(nm, sizeof(nm), "iso-len%u", l);
                add_probe_bb(t, nm);
                bb_reset(b, 200);
                bb_s(b, "Tue, 14 Nov 2023 10:20:30 GMT");
                bb_rep(b, ' ', l - b->n);
                snprintf(nm, sizeof(nm), "rfc822-len%u", l);
                add_probe_bb(t, nm);
            }
            break;
        case T_B64:
            for (unsigned l = 28; l <= 72; l += 4) { /* around the 32-byte vector block */
                bb_reset(b, 200);
                for (unsigned i = 0; i < l; ++i) {
                    bb_c(b, (uint8_t)k_b64[(i * 7) % 64]);
                }
                snprintf(nm, sizeof(nm), "len%u", l);
                add_probe_bb(t, nm);
                b->p[l - 1] = '=';
                b->p[l - 2] = (uint8_t)k_b64[16];
                snprintf(nm, sizeof(nm), "len%u-pad1", l);
                add_probe_bb(t, nm);
                b->p[l - 2] = '=';
                b->p[l - 3] = (uint8_t)k_b64[16];
                snprintf(nm, sizeof(nm), "len%u-pad2", l);
                add_probe_bb(t, nm);
            }
            add_seed(t, "nul-inside", "A\0AA", 4);
            ++s_builtin_probes;
            break;
        case T_U64:
            add_lit(t, "18446744073709551615");
            add_lit(t, "18446744073709551616");
            add_lit(t, "ffffffffffffffff");
            add_lit(t, "10000000000000000");
            break;
        default:
            break;
    }
}

/* ================================================================== the dedicated deep-recursion probe */
static int deep_probe_child(uint8_t opener, int key_byte, size_t depth) {
    /* returns 0 = survived, otherwise the terminating signal of the child */
    size_t per = key_byte >= 0 ? 2 : 1;
    size_t n = depth * per + 1;
    uint8_t *buf = malloc(n);
    for (size_t i = 0; i < depth; ++i) {
        buf[i * per] = opener;
        if (key_byte >= 0) {
            buf[i * per + 1] = (uint8_t)key_byte; /* map key, the nested map is the value */
        }
    }
    buf[n - 1] = 0x00;
    fflush(NULL);
    pid_t pid = fork();
    if (pid < 0) {
        fprintf(stderr, "mon: fork failed\n");
        exit(2);
    }
    if (pid == 0) {
        int dn = open("/dev/null", O_WRONLY);
        if (dn >= 0) {
            dup2(dn, 2); /* the parent reports; a sanitizer trace of the child would be counted twice */
            dup2(dn, 1);
        }
        struct aws_cbor_decoder *dec = aws_cbor_decoder_new(aws_default_allocator(), aws_byte_cursor_from_array(buf, n));
        int rc = aws_cbor_decoder_consume_next_whole_data_item(dec);
        _exit(rc == AWS_OP_SUCCESS ? 0 : 3);
    }
    int st = 0;
    while (waitpid(pid, &st, 0) < 0) {
    }
    free(buf);
    if (WIFSIGNALED(st)) {
        return WTERMSIG(st);
    }
    return 0;
}

static void run_deep_case(void) {
    static const size_t depths[] = {100000, 1000000};
    static const struct {
        const char *name;
        uint8_t open;
        int key;
    } shapes[] = {{"tags(0xC0)", 0xC0, -1}, {"one-element arrays(0x81)", 0x81, -1}, {"one-pair maps(0xA1 0x00)", 0xA1, 0x00}};
    char report[768];
    size_t o = 0;
    bool died = false;
    s_cur = T_CBOR_WHOLE;
    for (unsigned s = 0; s < 3; ++s) {
        for (unsigned k = 0; k < 2; ++k) {
            int sig = deep_probe_child(shapes[s].open, shapes[s].key, depths[k]);
            mon_fp(depths[k] * 2 + s);
            o += (size_t)snprintf(report + o, sizeof(report) - o, "%s x %zu + 0x00: %s; ", shapes[s].name, depths[k],
                                  sig ? "process killed by signal" : "ok");
            if (sig) {
                o += (size_t)snprintf(report + o, sizeof(report) - o, "(signal %d) ", sig);
                died = true;
                mon_flag(F_DEEP_PROBE_DIED);
                break; /* deeper probes of this shape die the same way */
            }
            mon_flag(F_DEEP_PROBE_OK);
        }
    }
    mon_sample(" %s", report);
    if (died) {
        mon_violation("C04:cbor:consume:recursion-depth",
                      "aws_cbor_decoder_consume_next_whole_data_item recurses once per nesting level without a depth limit and "
                      "overflows the C stack: %s",
                      report);
    }
    ++s_stats[T_CBOR_WHOLE].cases;
}

/* ================================================================== per-case watchdog
 * CPU time of this process (ITIMER_PROF), not wall-clock: independent of machine load. A sequential case normally
 * takes well under 10 ms; 10 s of CPU inside one case is non-termination for the purposes of the property. The
 * handler records the witness and lets the default action kill the process; the driver restarts the slice after
 * the offending case. */
#define WATCHDOG_CPU_SECONDS 10
static void on_watchdog(int sig) {
    (void)sig;
    mon_violation(tkey("hang"), "case still running after %d s of CPU time (normal: < 10 ms); input(%zu)=%s", WATCHDOG_CPU_SECONDS,
                  s_in_len, s_in ? in_hex() : "");
    signal(SIGPROF, SIG_DFL);
    raise(SIGPROF);
}
static void watchdog_arm(bool on) {
    struct itimerval it;
    memset(&it, 0, sizeof(it));
    it.it_value.tv_sec = on ? (mon_run.param[0] > 0 ? mon_run.param[0] : WATCHDOG_CPU_SECONDS) : 0;
    setitimer(ITIMER_PROF, &it, NULL);
}

/* ================================================================== case driver */
static enum target s_targets[T_COUNT];
static size_t s_ntargets;
static bool s_deep_mode;

static uint64_t hash_bytes(const uint8_t *p, size_t n) {
    uint64_t h = 0xcbf29ce484222325ULL;
    for (size_t i = 0; i < n; ++i) {
        h = (h ^ p[i]) * 1099511628211ULL;
    }
    return h ^ n;
}

static bool run_case(uint64_t c) {
    struct mon_rng *r = &mon_case_rng;
    s_case_flags = 0;
    if (s_deep_mode) {
        run_deep_case();
        return true;
    }
    enum target t = s_targets[c % s_ntargets];
    uint64_t k = c / s_ntargets;
    const struct tdef *d = &k_defs[t];
    s_cur = t;
    mon_fp(t);
    size_t reps = t == T_XML ? 4 : 1;
    size_t ns = s_nseeds[t];
    const char *src = "";
    bool src_random = false;
    if (k < ns * reps) {
        const struct seed *sd = &s_seeds[t][k % ns];
        bb_reset(&s_doc, DOC_CAP);
        bb_put(&s_doc, sd->p, sd->n);
        if (t == T_XML) {
            xml_append_tail(r, &s_doc, (int)(k / ns));
        }
        mon_flag(F_SRC_SEED);
        ++s_seed_cases;
        src = sd->name;
    } else {
        size_t limit = d->max_len;
        if (limit > 4096 && !mon_chance(r, 1, 12)) {
            limit = 4096;
        }
        bb_reset(&s_doc, limit);
        unsigned x = (unsigned)mon_below(r, 100);
        if (x >= 72 && x < 88 && ns == 0) {
            x = 0;
        }
        if (x < 50) {
            d->gen(r, &s_doc);
            const struct bb *other = NULL;
            if (mon_chance(r, 1, 3)) {
                bb_reset(&s_aux, limit);
                d->gen(r, &s_aux);
                other = &s_aux;
            }
            unsigned nm = 0;
            if (d->max_len > 128 || mon_chance(r, 1, 2)) { /* short formats: half of the documents stay well-formed */
                nm = mutate(&s_doc, r, d->delims, other, 0);
            }
            mon_flag(nm ? F_SRC_STRUCT_MUT : F_SRC_WELLFORMED);
            src = nm ? "generated+mutated" : "generated";
        } else if (x < 72) {
            gen_random_bytes(&s_doc, r, d->alphabet, strlen(d->alphabet), limit);
            mon_flag(F_SRC_RANDOM);
            src_random = true;
            src = "random-over-alphabet";
        } else if (x < 88) {
            const struct seed *sd = &s_seeds[t][mon_below(r, ns)];
            if (sd->n > limit) {
                bb_reset(&s_doc, sd->n <= d->max_len ? d->max_len : limit);
            }
            bb_put(&s_doc, sd->p, sd->n);
            mutate(&s_doc, r, d->delims, NULL, 1);
            mon_flag(F_SRC_SEED_MUT);
            src = "seed+mutated";
        } else {
            d->gen(r, &s_doc);
            bb_reset(&s_aux, limit);
            d->gen(r, &s_aux);
            if (s_doc.n) {
                s_doc.n = (size_t)mon_below(r, s_doc.n + 1);
            }
            if (s_aux.n) {
                size_t j = (size_t)mon_below(r, s_aux.n);
                bb_put(&s_doc, s_aux.p + j, s_aux.n - j);
            }
            mutate(&s_doc, r, d->delims, NULL, 0);
            mon_flag(F_SRC_SPLICE);
            src = "splice";
        }
        if (mon_chance(r, 1, 150)) {
            s_doc.n = 0;
            src = "empty";
        }
        if (t == T_XML && (s_doc.n || mon_chance(r, 1, 2))) {
            xml_append_tail(r, &s_doc, 0);
        }
    }
    ++s_stats[t].cases;
    s_stats[t].bytes += s_doc.n;
    mon_fp(hash_bytes(s_doc.p, s_doc.n));
    mon_sample("%s <%s>:", k_tname[t], src);
    d->run(s_doc.p, s_doc.n, r);
    bool acc = (s_case_flags >> F_ACCEPT) & 1, rej = (s_case_flags >> F_REJECT) & 1;
    if (t != T_JSON) { /* JSON counts the parse verdict itself: getters on the wrong kind always "reject" */
        s_stats[t].accept += acc;
        s_stats[t].reject += rej;
    }
    bool progressed = acc || ((s_case_flags >> F_VIEW) & 1) || ((s_case_flags >> F_CALLBACK) & 1);
    return s_doc.n > 0 && (progressed || (rej && !src_random));
}

static bool parse_mode(const char *mode) {
    if (!strcmp(mode, "cbor-deep")) {
        s_deep_mode = true;
        return true;
    }
    if (!*mode || !strcmp(mode, "all")) {
        for (int t = 0; t < T_COUNT; ++t) {
            s_targets[s_ntargets++] = (enum target)t;
        }
        return true;
    }
    char tmp[256];
    snprintf(tmp, sizeof(tmp), "%s", mode);
    for (char *tok = strtok(tmp, ","); tok; tok = strtok(NULL, ",")) {
        int found = -1;
        for (int t = 0; t < T_COUNT; ++t) {
            if (!strcmp(tok, k_tname[t])) {
                found = t;
            }
        }
        if (found < 0 || s_ntargets == T_COUNT) {
            return false;
        }
        s_targets[s_ntargets++] = (enum target)found;
    }
    return s_ntargets > 0;
}

#ifdef C04_LIBFUZZER
/* ================================================================== coverage-guided stage (libFuzzer)
 * --mode fuzz:<targets>: one case = one libFuzzer session (-runs=p1, -seed derived from the case PRNG, -max_len=4096)
 * on target targets[case % n], started from the committed seeds of that target; every execution goes through the same
 * run_<target> function and oracle as the generated inputs. libFuzzer exits the process at the end of a session, so a
 * process runs exactly one case and the summary is written from an atexit handler. */
int LLVMFuzzerRunDriver(int *argc, char ***argv, int (*cb)(const uint8_t *data, size_t size));
static enum target s_fuzz_target;
static struct mon_rng s_fuzz_rng;
static uint64_t s_fuzz_execs, s_fuzz_bytes, s_fuzz_nontrivial_inputs;
static bool s_fuzz_finished;

static int fuzz_one(const uint8_t *data, size_t size) {
    s_case_flags = 0;
    s_cur = s_fuzz_target;
    s_in = NULL;
    s_in_len = 0;
    ++s_fuzz_execs;
    s_fuzz_bytes += size;
    ++s_stats[s_fuzz_target].cases;
    watchdog_arm(true);
    k_defs[s_fuzz_target].run(data, size, &s_fuzz_rng);
    watchdog_arm(false);
    bool acc = (s_case_flags >> F_ACCEPT) & 1, rej = (s_case_flags >> F_REJECT) & 1;
    s_stats[s_fuzz_target].accept += acc;
    s_stats[s_fuzz_target].reject += rej;
    if (acc || ((s_case_flags >> F_VIEW) & 1) || ((s_case_flags >> F_CALLBACK) & 1)) {
        ++s_fuzz_nontrivial_inputs;
        /* distinct non-trivial inputs: the fingerprint of the session accumulates accepted inputs */
        mon_fp(hash_bytes(data, size));
    }
    return 0;
}

static void fuzz_atexit(void) {
    if (s_fuzz_finished) {
        return;
    }
    s_fuzz_finished = true;
    static char n1[64], n2[64], n3[64];
    snprintf(n1, sizeof(n1), "fuzz.%s.executions", k_tname[s_fuzz_target]);
    snprintf(n2, sizeof(n2), "fuzz.%s.accepted_or_viewed", k_tname[s_fuzz_target]);
    snprintf(n3, sizeof(n3), "fuzz.%s.rejected", k_tname[s_fuzz_target]);
    mon_count(n1, s_fuzz_execs);
    mon_count(n2, s_fuzz_nontrivial_inputs);
    mon_count(n3, s_stats[s_fuzz_target].reject);
    mon_count("fuzz.executions", s_fuzz_execs);
    mon_count("fuzz.sessions", 1);
    mon_count("fuzz.input_bytes", s_fuzz_bytes);
    mon_sample("libFuzzer session on %s: %llu executions, %llu accepted/viewed, %llu rejected", k_tname[s_fuzz_target], (unsigned long long)s_fuzz_execs,
               (unsigned long long)s_fuzz_nontrivial_inputs, (unsigned long long)s_stats[s_fuzz_target].reject);
    mon_case_end(s_fuzz_nontrivial_inputs > 0);
    mon_finish();
}

static int fuzz_main(char *argv0) {
    uint64_t c;
    if (!mon_next_case(&c)) {
        return mon_finish();
    }
    mon_case_begin(c);
    s_fuzz_target = s_targets[c % s_ntargets];
    s_fuzz_rng = mon_case_rng;
    mon_fp(s_fuzz_target);
    static char a_runs[48], a_seed[48], a_art[4200], a_out[4200], a_seeddir[4200];
    long runs = mon_run.param[1] > 0 ? mon_run.param[1] : 100000;
    snprintf(a_runs, sizeof(a_runs), "-runs=%ld", runs);
    snprintf(a_seed, sizeof(a_seed), "-seed=%u", (unsigned)(mon_rand(&mon_case_rng) % 2000000000u) + 1);
    snprintf(a_art, sizeof(a_art), "-artifact_prefix=%s/fuzz-artifact.%d.", mon_run.outdir, mon_run.slice);
    snprintf(a_out, sizeof(a_out), "%s/fuzzcorpus.%d", mon_run.outdir, mon_run.slice);
    mkdir(a_out, 0755);
    {
        /* same location rule as load_corpus: <verif>/corpus/c04/<target key> */
        const char *root = getenv("VERIF_CORPUS");
        char here[900];
        snprintf(here, sizeof(here), "%s", __FILE__);
        char *sl = strrchr(here, '/');
        if (sl) {
            *sl = 0;
            sl = strrchr(here, '/');
        }
        if (sl) {
            *sl = 0;
        } else {
            strcpy(here, "/verif");
        }
        if (root && *root) {
            snprintf(a_seeddir, sizeof(a_seeddir), "%s/%s", root, k_tkey[s_fuzz_target]);
        } else {
            snprintf(a_seeddir, sizeof(a_seeddir), "%s/corpus/c04/%s", here, k_tkey[s_fuzz_target]);
        }
    }
    static char *fargv[16];
    int n = 0;
    fargv[n++] = argv0;
    fargv[n++] = a_runs;
    fargv[n++] = a_seed;
    fargv[n++] = "-max_len=4096";
    fargv[n++] = "-timeout=30";
    fargv[n++] = "-rss_limit_mb=6000";
    fargv[n++] = "-print_final_stats=1";
    fargv[n++] = "-verbosity=0";
    fargv[n++] = a_art;
    fargv[n++] = a_out;
    struct stat stx;
    if (stat(a_seeddir, &stx) == 0) {
        fargv[n++] = a_seeddir;
    }
    fargv[n] = NULL;
    char **pa = fargv;
    atexit(fuzz_atexit);
    int rc = LLVMFuzzerRunDriver(&n, &pa, fuzz_one);
    fuzz_atexit();
    return rc;
}
#endif

/* a logger is installed in half of the processes (by slice parity): the parsers' diagnostics are rendered (vsnprintf into a
 * heap buffer of exactly the needed size), so that what they pass to "%s" / "%.*s" is read under the sanitizer as well */
static uint64_t s_log_lines;
static int c04_cap_log(struct aws_logger *logger, enum aws_log_level level, aws_log_subject_t subject, const char *format, ...) {
    (void)logger;
    (void)level;
    (void)subject;
    va_list ap, ap2;
    va_start(ap, format);
    va_copy(ap2, ap);
    int n = vsnprintf(NULL, 0, format, ap);
    va_end(ap);
    if (n >= 0) {
        char *buf = malloc((size_t)n + 1);
        vsnprintf(buf, (size_t)n + 1, format, ap2);
        free(buf);
    }
    va_end(ap2);
    ++s_log_lines;
    return AWS_OP_SUCCESS;
}
static enum aws_log_level c04_cap_level(struct aws_logger *logger, aws_log_subject_t subject) {
    (void)logger;
    (void)subject;
    return AWS_LL_TRACE;
}
static void c04_cap_clean(struct aws_logger *logger) {
    (void)logger;
}
static struct aws_logger_vtable s_c04_cap_vtable = {.log = c04_cap_log, .get_log_level = c04_cap_level, .clean_up = c04_cap_clean, .set_log_level = NULL};
static struct aws_logger s_c04_cap_logger = {.vtable = &s_c04_cap_vtable, .allocator = NULL, .p_impl = NULL};

int main(int argc, char **argv) {
    mon_init(argc, argv, "C04");
    aws_common_library_init(aws_default_allocator()); /* registers the error codes, initialises the JSON module */
    if (mon_run.slice % 2 == 0) {
        aws_logger_set(&s_c04_cap_logger);
        mon_count("processes_with_a_logger_installed", 1);
    }
#ifdef C04_LIBFUZZER
    bool fuzz_mode = !strncmp(mon_run.mode, "fuzz:", 5);
    if (!parse_mode(fuzz_mode ? mon_run.mode + 5 : mon_run.mode)) {
#else
    if (!parse_mode(mon_run.mode)) {
#endif
        fprintf(stderr, "mon: unknown --mode '%s' (comma separated list of:", mon_run.mode);
        for (int t = 0; t < T_COUNT; ++t) {
            fprintf(stderr, " %s", k_tname[t]);
        }
        fprintf(stderr, ", or all, or cbor-deep)\n");
        return 2;
    }
    for (int i = 0; i < F_NFLAGS; ++i) {
        (mon_flag_name)(i, k_flag_names[i]);
    }
    s_alloc = mon_guard_allocator();
    signal(SIGPROF, on_watchdog);
    bb_init(&s_doc, DOC_CAP);
    bb_init(&s_aux, DOC_CAP);
    if (!C04_ASAN) {
        arena_init();
    }
    for (size_t i = 0; i < s_ntargets; ++i) {
        enum target t = s_targets[i];
        load_corpus(t);
        add_probes(t);
    }
#ifdef C04_LIBFUZZER
    if (fuzz_mode) {
        return fuzz_main(argv[0]);
    }
#endif
    uint64_t c;
    while (mon_next_case(&c)) {
        mon_case_begin(c);
        s_in = NULL;
        s_in_len = 0;
        watchdog_arm(true);
        bool nontrivial = run_case(c);
        watchdog_arm(false);
        mon_case_end(nontrivial);
    }
    static char names[T_COUNT][6][32];
    static const char *suffix[6] = {"cases", "accepted", "rejected", "views_checked", "callbacks", "input_bytes"};
    for (size_t i = 0; i < s_ntargets || (s_deep_mode && i < 1); ++i) {
        enum target t = s_deep_mode ? T_CBOR_WHOLE : s_targets[i];
        const uint64_t vals[6] = {s_stats[t].cases, s_stats[t].accept, s_stats[t].reject, s_stats[t].views, s_stats[t].callbacks,
                                  s_stats[t].bytes};
        for (int k = 0; k < 6; ++k) {
            snprintf(names[t][k], sizeof(names[t][k]), "%s.%s", s_deep_mode ? "cbor-deep" : k_tname[t], suffix[k]);
            if (vals[k] || k < 3) {
                mon_count(names[t][k], vals[k]);
            }
        }
    }
    mon_count("seed_cases", s_seed_cases);
    if (mon_run.slice == 0) {
        mon_count("corpus_files_loaded", s_corpus_files);
        mon_count("builtin_probes", s_builtin_probes);
    }
    mon_count_max("max_nesting_observed", s_max_depth_seen);
    return mon_finish();
}

