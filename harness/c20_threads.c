/*
 * C20 - threads: run-once, at-exit callbacks, manual join, managed threads + join-all
 * (DESIGN.md section 5, C20).  Event log written at the client boundary and from the thread
 * functions / at-exit callbacks the harness owns; checked after every scenario.
 */
#include "mon.h"
#include "perturb.h"

#include <aws/common/byte_buf.h>
#include <aws/common/common.h>
#include <aws/common/error.h>
#include <aws/common/private/thread_shared.h>
#include <aws/common/thread.h>

#include <pthread.h>
#include <sched.h>
#include <stdlib.h>
#include <time.h>

enum { EV_LAUNCH_CALL = 1, EV_LAUNCH_RET, EV_FN_ENTER, EV_FN_EXIT, EV_ATEXIT, EV_JOIN_CALL, EV_JOIN_RET, EV_JOINALL_CALL, EV_JOINALL_RET, EV_COUNT, EV_EXT_INC, EV_EXT_DEC };

enum { F_MANAGED, F_MANUAL, F_NESTED_MANAGED, F_ATEXIT_MULTI, F_CREATE_FAILED, F_JOINALL_BEFORE_FINISH, F_JOINALL_AFTER_FINISH, F_NAMED, F_PINNED_RETRY,
       F_MANY_THREADS, F_MANUAL_LAUNCHES_MANAGED, F_STACK_SIZE, F_TIMED_JOINALL_GAVE_UP, F_REINIT_WITH_THREADS_OUTSTANDING,
       F_TIMED_JOINALL_COMPLETED, F_EXTERNAL_PARTICIPANT, F_EXTERNAL_RELEASED_DURING_JOINALL, F_ATEXIT_FROM_CALL_ONCE, F_CONCURRENT_JOINALL };

#define MAX_T 56
#define MAX_ATEXIT 5

struct tdesc {
    int id;
    bool managed;
    int parent; /* -1: launched by main */
    int nchildren;
    int children[4];
    int natexit;
    uint32_t sleep_before_us, sleep_after_us;
    int yields;
    int opt_kind; /* 0 default(NULL for manual) 1 stack size 2 name 3 cpu_id 4 default options object */
    struct aws_thread thread;
    uint64_t arg_cookie;
    int launch_rc; /* written by the launcher after the call */
    int launched;  /* 1 once the launch call has been issued */
    int entered;   /* set (release) by the thread function on entry */
    bool counted;  /* manual thread that takes part in the managed count through the public increment/decrement pair;
                      joined and released by an owner thread of the harness, not by main */
    uint32_t owner_nap_us, owner_gap_us;
    int owner_lane;
    int once_at; /* >= 0: at-exit callback number once_at is registered from inside an aws_thread_call_once function */
    bool self_join;      /* manual thread that tries to join itself (refused by the library); its owner's join comes later */
    int launch_returned; /* set (release) by the launcher once aws_thread_launch has returned */
};

static struct {
    struct tdesc t[MAX_T];
    int n;
    int nroots;
    int roots[MAX_T];
    bool flat; /* no thread launches further threads (needed for the library re-init history) */
} S;

struct atexit_arg {
    int tid;
    int k;
    pthread_t expect_thread;
};
static struct atexit_arg s_atexit_args[MAX_T][MAX_ATEXIT];

static void nap(uint32_t us) {
    if (us) {
        struct timespec ts = {0, (long)us * 1000};
        nanosleep(&ts, NULL);
    }
}

static void atexit_cb(void *user) {
    struct atexit_arg *a = user;
    uint64_t on_thread = pthread_equal(pthread_self(), a->expect_thread) ? 1 : 0;
    mon_ev(EV_ATEXIT, (uint64_t)a->tid, (uint64_t)a->k, on_thread);
}

static void launch_one(struct tdesc *d);

static aws_thread_once s_once[MAX_T];
static int s_once_ran[MAX_T];
static void once_fn(void *user) {
    struct atexit_arg *a = user;
    ++s_once_ran[a->tid];
    if (aws_thread_current_at_exit(atexit_cb, a)) {
        mon_violation("C20:at-exit-registration-failed", "aws_thread_current_at_exit inside a call_once function failed on thread %d (error %d)", a->tid, aws_last_error());
    }
}

static uint64_t s_self_joins;
static void thread_main(void *arg) {
    struct tdesc *d = arg;
    mon_ev_bind((unsigned)(d->id + 1));
    perturb_bind((unsigned)((d->id + 1) & 31));
    mon_ev(EV_FN_ENTER, (uint64_t)d->id, d->arg_cookie, 0);
    __atomic_store_n(&d->entered, 1, __ATOMIC_RELEASE);
    for (int i = 0; i < d->yields; ++i) {
        sched_yield();
    }
    nap(d->sleep_before_us);
    for (int k = 0; k < d->natexit; ++k) {
        s_atexit_args[d->id][k].tid = d->id;
        s_atexit_args[d->id][k].k = k;
        s_atexit_args[d->id][k].expect_thread = pthread_self();
        if (k == d->once_at) {
            /* lazy one-time initialisation that hooks its tear-down to the initialising thread */
            s_once[d->id] = (aws_thread_once)AWS_THREAD_ONCE_STATIC_INIT;
            s_once_ran[d->id] = 0;
            aws_thread_call_once(&s_once[d->id], once_fn, &s_atexit_args[d->id][k]);
            aws_thread_call_once(&s_once[d->id], once_fn, &s_atexit_args[d->id][k]);
            if (s_once_ran[d->id] != 1) {
                mon_violation("C20:call-once", "aws_thread_call_once ran its function %d times on thread %d", s_once_ran[d->id], d->id);
            }
        } else if (aws_thread_current_at_exit(atexit_cb, &s_atexit_args[d->id][k])) {
            mon_violation("C20:at-exit-registration-failed", "aws_thread_current_at_exit failed on thread %d (error %d)", d->id, aws_last_error());
        }
    }
#if !defined(__SANITIZE_THREAD__)
    /* (not under ThreadSanitizer: its pthread_join interceptor forgets a thread id once a join on it was attempted, so the
     * owner's real join afterwards would trip the tool, not the library) */
    if (d->self_join && !d->managed) {
        /* a shutdown routine that ends up running on the worker itself: the join is refused (pthread_join reports EDEADLK),
         * the thread is still joinable and its owner's join has to wait for the function and the at-exit callbacks as ever */
        int waited = 0;
        while (!__atomic_load_n(&d->launch_returned, __ATOMIC_ACQUIRE) && waited++ < 20000) {
            nap(100);
        }
        if (__atomic_load_n(&d->launch_returned, __ATOMIC_ACQUIRE)) {
            int rc = aws_thread_join(&d->thread);
            if (rc == AWS_OP_SUCCESS) {
                mon_violation("C20:self-join-succeeded", "aws_thread_join called by thread %d on its own handle reported success", d->id);
            }
            __atomic_fetch_add(&s_self_joins, 1, __ATOMIC_RELAXED);
            nap(1500);
        }
    }
#endif
    for (int c = 0; c < d->nchildren; ++c) {
        launch_one(&S.t[d->children[c]]);
    }
    nap(d->sleep_after_us);
    mon_ev(EV_FN_EXIT, (uint64_t)d->id, 0, 0);
}

static void launch_one(struct tdesc *d) {
    struct aws_thread_options opt = *aws_default_thread_options();
    const struct aws_thread_options *popt = &opt;
    char name[16];
    switch (d->opt_kind) {
        case 1:
            opt.stack_size = (size_t)768 * 1024;
            break;
        case 2:
            snprintf(name, sizeof(name), "c20-%d", d->id);
            opt.name = aws_byte_cursor_from_c_str(name);
            break;
        case 3:
            opt.cpu_id = 0;
            break;
        default:
            break;
    }
    if (d->managed) {
        opt.join_strategy = AWS_TJS_MANAGED;
    } else if (d->opt_kind == 0) {
        popt = NULL; /* documented: options may be NULL */
    }
    aws_thread_init(&d->thread, mon_guard_allocator());
    d->launched = 1;
    mon_ev(EV_LAUNCH_CALL, (uint64_t)d->id, d->managed, 0);
    aws_reset_error();
    int rc = aws_thread_launch(&d->thread, thread_main, d, popt);
    int err = rc ? aws_last_error() : 0;
    d->launch_rc = rc;
    __atomic_store_n(&d->launch_returned, 1, __ATOMIC_RELEASE);
    mon_ev(EV_LAUNCH_RET, (uint64_t)d->id, (uint64_t)(rc != 0), (uint64_t)err);
}

static void generate(struct mon_rng *r) {
    memset(&S, 0, sizeof(S));
    int nroots = 1 + (int)mon_below(r, 24);
    if (mon_chance(r, 1, 4)) {
        nroots = 1 + (int)mon_below(r, 3);
    }
    S.n = 0;
    for (int i = 0; i < nroots && S.n < MAX_T; ++i) {
        struct tdesc *d = &S.t[S.n];
        d->id = S.n++;
        d->parent = -1;
        d->managed = mon_chance(r, 3, 5);
        S.roots[S.nroots++] = d->id;
    }
    /* children: managed threads launched by other threads, depth <= 3 */
    int first = 0, last = S.n;
    S.flat = mon_chance(r, 1, 5);
    for (int depth = 1; depth <= 3 && !S.flat; ++depth) {
        for (int p = first; p < last && S.n < MAX_T; ++p) {
            if (!mon_chance(r, 1, 3)) {
                continue;
            }
            int nc = 1 + (int)mon_below(r, 3);
            for (int c = 0; c < nc && S.n < MAX_T && S.t[p].nchildren < 4; ++c) {
                struct tdesc *d = &S.t[S.n];
                d->id = S.n++;
                d->parent = p;
                d->managed = true;
                S.t[p].children[S.t[p].nchildren++] = d->id;
            }
        }
        first = last;
        last = S.n;
    }
    /* up to 3 manual root threads are "externally counted" (thread.h: event-loop threads take part in the count through
     * aws_thread_increment/decrement_unjoined_count and are joined by their owner) */
    if (mon_chance(r, 1, 3)) {
        int want = 1 + (int)mon_below(r, 3);
        for (int i = 0; i < S.nroots && want > 0; ++i) {
            struct tdesc *d = &S.t[S.roots[i]];
            if (!d->managed && mon_chance(r, 1, 2)) {
                d->counted = true;
                d->owner_nap_us = (uint32_t)mon_below(r, 1500);
                d->owner_gap_us = mon_chance(r, 1, 2) ? 0 : (uint32_t)mon_below(r, 600);
                --want;
            }
        }
    }
    for (int i = 0; i < S.n; ++i) {
        struct tdesc *d = &S.t[i];
        d->natexit = mon_chance(r, 1, 2) ? 0 : (int)mon_below(r, MAX_ATEXIT + 1);
        d->once_at = (d->natexit && mon_chance(r, 1, 3)) ? (int)mon_below(r, (uint64_t)d->natexit) : -1;
        d->self_join = !d->managed && mon_chance(r, 1, 4);
        d->sleep_before_us = mon_chance(r, 1, 2) ? 0 : (uint32_t)mon_below(r, 400);
        d->sleep_after_us = mon_chance(r, 1, 2) ? 0 : (uint32_t)mon_below(r, 600);
        if (mon_chance(r, 1, 8)) {
            d->sleep_after_us = 1000 + (uint32_t)mon_below(r, 3000); /* outlives a short join timeout */
        }
        d->yields = (int)mon_below(r, 4);
        unsigned o = (unsigned)mon_below(r, 100);
        d->opt_kind = o < 55 ? 0 : o < 65 ? 1 : o < 80 ? 2 : o < 88 ? 3 : 4;
        d->arg_cookie = mon_rand(r) | 1;
        mon_fp((uint64_t)d->managed * 1000 + (uint64_t)d->natexit * 100 + (uint64_t)d->opt_kind * 10 + (uint64_t)(d->parent + 1));
    }
}

struct tcheck {
    int enters, exits;
    uint64_t t_enter, t_exit, t_last_atexit, t_launch_ret, t_join_ret;
    int launch_failed;
    int atexit_seen[MAX_ATEXIT];
    int atexit_order_ok;
    int last_atexit_k;
    int n_atexit;
    bool launch_returned;
    uint64_t t_ext_inc, t_ext_dec; /* 0: not seen */
};

static void check(struct mon_event *ev, size_t n, const struct mon_alloc_stats *st0, bool faults) {
    static struct tcheck c[MAX_T];
    memset(c, 0, sizeof(c));
    for (int i = 0; i < MAX_T; ++i) {
        c[i].last_atexit_k = 1 << 20;
        c[i].atexit_order_ok = 1;
    }
    uint64_t joinall_call[8], joinall_ret[8];
    uint64_t joinall_call_by_lane[64] = {0};
    int njoinall = 0, njoinall_ret = 0;
    for (size_t i = 0; i < n; ++i) {
        struct mon_event *e = &ev[i];
        struct tcheck *t = e->a < MAX_T ? &c[e->a] : NULL;
        switch (e->kind) {
            case EV_LAUNCH_RET:
                t->launch_returned = true;
                t->t_launch_ret = e->t;
                t->launch_failed = (int)e->b;
                if (e->b) {
                    mon_flag(F_CREATE_FAILED);
                    if (!faults) {
                        mon_violation("C20:launch-failed", "aws_thread_launch of thread %d failed with error %d although no fault was injected", (int)e->a, (int)e->c);
                    } else if ((int)e->c != AWS_ERROR_THREAD_INSUFFICIENT_RESOURCE) {
                        mon_violation("C20:launch-error-code", "pthread_create returned EAGAIN but aws_last_error() is %d", (int)e->c);
                    }
                }
                break;
            case EV_FN_ENTER:
                t->enters++;
                t->t_enter = e->t;
                if (e->b != S.t[e->a].arg_cookie) {
                    mon_violation("C20:wrong-argument", "thread %d received a different argument than was passed to aws_thread_launch", (int)e->a);
                }
                break;
            case EV_FN_EXIT:
                t->exits++;
                t->t_exit = e->t;
                break;
            case EV_ATEXIT: {
                int k = (int)e->b;
                if (k < MAX_ATEXIT) {
                    t->atexit_seen[k]++;
                }
                t->n_atexit++;
                if (!e->c) {
                    mon_violation("C20:at-exit-wrong-thread", "at-exit callback %d of thread %d ran on a different thread", k, (int)e->a);
                }
                if (t->exits == 0) {
                    mon_violation("C20:at-exit-before-function-end", "at-exit callback %d of thread %d ran before its thread function returned", k, (int)e->a);
                }
                /* reverse order of registration: k must strictly decrease */
                if (k >= t->last_atexit_k) {
                    t->atexit_order_ok = 0;
                }
                t->last_atexit_k = k;
                t->t_last_atexit = e->t;
                break;
            }
            case EV_JOIN_RET:
                t->t_join_ret = e->t;
                if (t->exits == 0) {
                    mon_violation("C20:join-before-function-end", "aws_thread_join(thread %d) returned before the thread function finished", (int)e->a);
                }
                if (t->n_atexit != S.t[e->a].natexit) {
                    mon_violation("C20:join-before-at-exit", "aws_thread_join(thread %d) returned after %d of %d at-exit callbacks", (int)e->a, t->n_atexit,
                                  S.t[e->a].natexit);
                }
                break;
            case EV_EXT_INC:
                t->t_ext_inc = e->t ? e->t : 1;
                break;
            case EV_EXT_DEC:
                t->t_ext_dec = e->t ? e->t : 1;
                if (njoinall > njoinall_ret) {
                    mon_flag(F_EXTERNAL_RELEASED_DURING_JOINALL);
                }
                break;
            case EV_JOINALL_CALL:
                if (njoinall < 8) {
                    joinall_call[njoinall++] = e->t;
                }
                joinall_call_by_lane[e->tix & 63] = e->t;
                break;
            case EV_JOINALL_RET: {
                if (njoinall_ret < 8) {
                    joinall_ret[njoinall_ret++] = e->t;
                }
                uint64_t call_t = joinall_call_by_lane[e->tix & 63]; /* the call this return belongs to: join-all may run on two threads at once */
                if (e->b /* timeout configured */ && e->a /* gave up, or result not visible (library clean-up) */) {
                    break;
                }
                for (int i2 = 0; i2 < S.n; ++i2) {
                    /* a participant counted in through aws_thread_increment_unjoined_count before the call: join-all must
                     * not return before its owner has begun to count it out */
                    if (c[i2].t_ext_inc && c[i2].t_ext_inc < call_t && !c[i2].t_ext_dec) {
                        mon_violation("C20:join-all-before-external-release",
                                      "aws_thread_join_all_managed returned while thread %d, counted in by aws_thread_increment_unjoined_count before the call, had not been "
                                      "counted out",
                                      i2);
                    }
                }
                for (int i2 = 0; i2 < S.n; ++i2) {
                    struct tcheck *m = &c[i2];
                    if (!S.t[i2].managed || !m->launch_returned || m->launch_failed || m->t_launch_ret > call_t) {
                        continue;
                    }
                    /* launched (call returned) before join-all was called: must be completely finished now */
                    if (m->exits == 0) {
                        mon_violation("C20:join-all-before-function-end", "aws_thread_join_all_managed returned while managed thread %d (launched before the call) had not finished its function", i2);
                    } else if (m->n_atexit != S.t[i2].natexit) {
                        mon_violation("C20:join-all-before-at-exit", "aws_thread_join_all_managed returned after %d of %d at-exit callbacks of managed thread %d", m->n_atexit,
                                      S.t[i2].natexit, i2);
                    }
                }
                break;
            }
            default:
                break;
        }
    }
    (void)joinall_ret;
    for (int i = 0; i < S.n; ++i) {
        struct tcheck *t = &c[i];
        struct tdesc *d = &S.t[i];
        if (!d->launched) {
            MON_CHECK(t->enters == 0, "C20:ran-without-launch", "thread %d ran but was never launched", i);
            continue;
        }
        if (t->launch_failed) {
            MON_CHECK(t->enters == 0, "C20:ran-after-failed-launch", "thread %d ran although aws_thread_launch reported failure", i);
            continue;
        }
        if (t->enters != 1 || t->exits != 1) {
            mon_violation(t->enters == 0 ? "C20:never-ran" : "C20:ran-twice", "thread %d (%s): function entered %d times, finished %d times", i,
                          d->managed ? "managed" : "manual", t->enters, t->exits);
            continue;
        }
        for (int k = 0; k < d->natexit; ++k) {
            if (t->atexit_seen[k] != 1) {
                mon_violation(t->atexit_seen[k] == 0 ? "C20:at-exit-lost" : "C20:at-exit-twice", "thread %d: at-exit callback %d of %d ran %d times", i, k, d->natexit,
                              t->atexit_seen[k]);
            }
        }
        if (!t->atexit_order_ok) {
            mon_violation("C20:at-exit-order", "thread %d: at-exit callbacks did not run in reverse order of registration", i);
        }
        if (d->natexit > 1) {
            mon_flag(F_ATEXIT_MULTI);
        }
        if (d->once_at >= 0) {
            mon_flag(F_ATEXIT_FROM_CALL_ONCE);
        }
    }
    size_t count = aws_thread_get_managed_thread_count();
    if (count != 0) {
        mon_violation("C20:managed-count-nonzero", "managed thread count is %zu after join-all with every thread finished", count);
    }
    struct mon_alloc_stats st1;
    mon_guard_stats(&st1);
    if (st1.live_blocks != st0->live_blocks) {
        mon_violation("C20:leak", "allocator imbalance after all joins: %lld blocks (%lld bytes) still live", (long long)(st1.live_blocks - st0->live_blocks),
                      (long long)(st1.live_bytes - st0->live_bytes));
    }
}

/* a second thread that calls join-all on its own (thread.h allows any non-managed thread): both callers must get the
 * guarantee, whichever of them ends up doing the joining */
static uint32_t s_helper_nap_us;
static void *joinall_helper_main(void *arg) {
    (void)arg;
    mon_ev_bind((unsigned)(MAX_T + 2 + 4));
    perturb_bind(29);
    nap(s_helper_nap_us);
    mon_ev(EV_JOINALL_CALL, 0, 0, 0);
    int rc = aws_thread_join_all_managed();
    mon_ev(EV_JOINALL_RET, (uint64_t)rc, 0, 0);
    MON_CHECK(rc == AWS_OP_SUCCESS, "C20:join-all-failed", "aws_thread_join_all_managed on a helper thread returned %d without a timeout configured", rc);
    return NULL;
}

static void *owner_main(void *arg) {
    struct tdesc *d = arg;
    mon_ev_bind((unsigned)(MAX_T + 2 + d->owner_lane));
    perturb_bind((unsigned)((d->id + 17) & 31));
    nap(d->owner_nap_us);
    mon_ev(EV_JOIN_CALL, (uint64_t)d->id, 0, 0);
    int rc = aws_thread_join(&d->thread);
    mon_ev(EV_JOIN_RET, (uint64_t)d->id, (uint64_t)rc, 0);
    MON_CHECK(rc == AWS_OP_SUCCESS, "C20:join-failed", "aws_thread_join(thread %d) by its owner failed with error %d", d->id, aws_last_error());
    aws_thread_clean_up(&d->thread);
    nap(d->owner_gap_us);
    mon_ev(EV_EXT_DEC, (uint64_t)d->id, 0, 0);
    aws_thread_decrement_unjoined_count();
    return NULL;
}

static void run_case(void) {
    struct mon_rng *r = &mon_case_rng;
    generate(r);
    int prof_idx = (int)mon_below(r, (uint64_t)perturb_nprofiles());
    bool faults = mon_chance(r, 1, 4);
    uint64_t pseed = mon_rand(r);
    struct perturb_profile prof;
    perturb_get_profile(prof_idx, &prof);
    if (faults) {
        if (mon_chance(r, 1, 2)) {
            prof.fail_create_at = 1 + (int)mon_below(r, (uint64_t)S.n);
        } else {
            prof.fail_create_every = 2 + (int)mon_below(r, 5);
        }
    }
    mon_fp((uint64_t)prof_idx * 2 + faults);
    struct mon_alloc_stats st0;
    mon_guard_stats(&st0);
    mon_ev_reset(MAX_T + 2 + 5, 128);
    mon_ev_bind(0);
    perturb_begin(pseed, &prof);
    perturb_bind(0);
    {
        char what[160];
        snprintf(what, sizeof(what), "%d threads (%d launched by main), faults=%d, profile=%s: a join / join-all / launch did not return", S.n, S.nroots, faults,
                 perturb_profile_name(prof_idx));
        mon_watchdog_arm(120, "C20:hang", what);
    }
    /* main: launch roots, interleaved with join-all / joins in PRNG order */
    bool early_joinall = mon_chance(r, 1, 2);
    bool timed_prelude = S.flat ? mon_chance(r, 3, 4) : mon_chance(r, 1, 6);
    mon_fp(timed_prelude);
    uint32_t main_nap = mon_chance(r, 1, 2) ? 0 : (uint32_t)mon_below(r, 800);
    pthread_t owners[4];
    int nowners = 0;
    for (int i = 0; i < S.nroots; ++i) {
        struct tdesc *d = &S.t[S.roots[i]];
        if (d->counted && nowners < 4) {
            /* the owner's protocol from thread.h: count first, launch, and give the count back if the launch failed */
            mon_ev(EV_EXT_INC, (uint64_t)d->id, 0, 0);
            aws_thread_increment_unjoined_count();
            launch_one(d);
            if (d->launch_rc != 0) {
                mon_ev(EV_EXT_DEC, (uint64_t)d->id, 0, 0);
                aws_thread_decrement_unjoined_count();
                d->counted = false;
            } else if ((d->owner_lane = nowners, perturb_create_harness_thread(&owners[nowners], owner_main, d)) == 0) {
                ++nowners;
                mon_flag(F_EXTERNAL_PARTICIPANT);
            } else {
                fprintf(stderr, "mon: pthread_create failed\n");
                exit(2);
            }
        } else {
            d->counted = false;
            launch_one(d);
        }
        if (mon_chance(r, 1, 6)) {
            sched_yield();
        }
    }
    pthread_t helper;
    bool have_helper = !timed_prelude && mon_chance(r, 1, 3);
    if (have_helper) {
        s_helper_nap_us = (uint32_t)mon_below(r, 1200);
        if (perturb_create_harness_thread(&helper, joinall_helper_main, NULL)) {
            fprintf(stderr, "mon: pthread_create failed\n");
            exit(2);
        }
        mon_flag(F_CONCURRENT_JOINALL);
    }
    nap(main_nap);
    int unfinished_at_joinall = 0;
    if (timed_prelude) {
        /* a finite join timeout, a join-all that may give up (directly, or inside the library clean-up), possibly a
         * library re-initialisation with managed threads still outstanding; afterwards the unbounded join-all below must
         * still wait for, join and free every one of them */
        uint64_t timeout_ns = 20000 + mon_below(r, 1500000);
        bool via_cleanup = S.flat && mon_chance(r, 4, 5);
        /* aws_common_library_init writes globals that a starting thread reads (g_set_mempolicy_ptr): initialising the
         * library while threads start up is the caller's race, not the library's. The re-init variant is therefore only
         * used when no thread launches further threads, and only after every launched thread has entered its function. */
        for (int i = 0; i < S.n; ++i) {
            if (S.t[i].nchildren) {
                via_cleanup = false;
            }
        }
        if (via_cleanup) {
            struct timespec t0, t1;
            clock_gettime(CLOCK_MONOTONIC, &t0);
            for (int i = 0; i < S.nroots; ++i) {
                struct tdesc *d = &S.t[S.roots[i]];
                while (d->launch_rc == 0 && !__atomic_load_n(&d->entered, __ATOMIC_ACQUIRE)) {
                    sched_yield();
                    clock_gettime(CLOCK_MONOTONIC, &t1);
                    if (t1.tv_sec - t0.tv_sec > 30) {
                        break; /* the scenario watchdog reports it */
                    }
                }
            }
        }
        uint32_t gap_us = mon_chance(r, 1, 2) ? 0 : (uint32_t)mon_below(r, 1200);
        aws_thread_set_managed_join_timeout_ns(timeout_ns);
        mon_ev(EV_JOINALL_CALL, 0, 1, 0);
        if (via_cleanup) {
            aws_common_library_clean_up();
            mon_ev(EV_JOINALL_RET, 1, 1, 0);
            size_t left = aws_thread_get_managed_thread_count();
            nap(gap_us); /* threads may finish and queue for their join while the library is "down" */
            aws_common_library_init(aws_default_allocator());
            if (left) {
                mon_flag(F_REINIT_WITH_THREADS_OUTSTANDING);
                mon_count("library_reinit_with_managed_threads_outstanding", 1);
            }
        } else {
            int rc = aws_thread_join_all_managed();
            mon_ev(EV_JOINALL_RET, (uint64_t)(rc != 0), 1, 0);
            if (rc) {
                mon_flag(F_TIMED_JOINALL_GAVE_UP);
                mon_count("timed_join_all_gave_up", 1);
            } else {
                mon_flag(F_TIMED_JOINALL_COMPLETED);
            }
            nap(gap_us);
        }
        aws_thread_set_managed_join_timeout_ns(0);
    }
    if (early_joinall) {
        mon_ev(EV_JOINALL_CALL, 0, 0, 0);
        int rc = aws_thread_join_all_managed();
        mon_ev(EV_JOINALL_RET, (uint64_t)rc, 0, 0);
        MON_CHECK(rc == AWS_OP_SUCCESS, "C20:join-all-failed", "aws_thread_join_all_managed returned %d without a timeout configured", rc);
    }
    /* join manual threads in a PRNG order */
    int order[MAX_T];
    int no = 0;
    for (int i = 0; i < S.nroots; ++i) {
        struct tdesc *d = &S.t[S.roots[i]];
        if (!d->managed && d->launch_rc == 0 && !d->counted) {
            order[no++] = d->id;
        }
    }
    for (int i = no - 1; i > 0; --i) {
        int j = (int)mon_below(r, (uint64_t)i + 1);
        int tmp = order[i];
        order[i] = order[j];
        order[j] = tmp;
    }
    for (int i = 0; i < no; ++i) {
        struct tdesc *d = &S.t[order[i]];
        mon_ev(EV_JOIN_CALL, (uint64_t)d->id, 0, 0);
        int rc = aws_thread_join(&d->thread);
        mon_ev(EV_JOIN_RET, (uint64_t)d->id, (uint64_t)rc, 0);
        MON_CHECK(rc == AWS_OP_SUCCESS, "C20:join-failed", "aws_thread_join(thread %d) failed with error %d", d->id, aws_last_error());
        aws_thread_clean_up(&d->thread);
        mon_flag(F_MANUAL);
        if (d->nchildren) {
            mon_flag(F_MANUAL_LAUNCHES_MANAGED);
        }
    }
    /* all manual threads are gone, so no further managed launch can start outside the managed system itself */
    mon_ev(EV_JOINALL_CALL, 0, 0, 0);
    int rc = aws_thread_join_all_managed();
    mon_ev(EV_JOINALL_RET, (uint64_t)rc, 0, 0);
    MON_CHECK(rc == AWS_OP_SUCCESS, "C20:join-all-failed", "aws_thread_join_all_managed returned %d without a timeout configured", rc);
    for (int i = 0; i < nowners; ++i) {
        pthread_join(owners[i], NULL);
    }
    if (have_helper) {
        pthread_join(helper, NULL);
    }
    perturb_end();
    mon_watchdog_disarm();
    size_t nev = 0;
    struct mon_event *ev = mon_ev_merge(&nev);
    if (mon_ev_overflowed()) {
        fprintf(stderr, "mon: event log overflow\n");
        exit(2);
    }
    check(ev, nev, &st0, faults);
    /* evidence: completion order hash, who was still running at the first join-all */
    uint64_t order_hash = 0xcbf29ce484222325ULL;
    uint64_t first_joinall_t = UINT64_MAX;
    int nmanaged = 0, nested = 0;
    for (size_t i = 0; i < nev; ++i) {
        if (ev[i].kind == EV_JOINALL_CALL && first_joinall_t == UINT64_MAX) {
            first_joinall_t = ev[i].t;
        }
        if (ev[i].kind == EV_FN_EXIT) {
            order_hash = (order_hash ^ ev[i].a) * 1099511628211ULL;
            if (S.t[ev[i].a].managed && ev[i].t > first_joinall_t) {
                ++unfinished_at_joinall;
            }
        }
    }
    for (int i = 0; i < S.n; ++i) {
        if (S.t[i].launched && S.t[i].launch_rc == 0) {
            if (S.t[i].managed) {
                ++nmanaged;
                mon_flag(F_MANAGED);
                if (S.t[i].parent >= 0) {
                    ++nested;
                    mon_flag(F_NESTED_MANAGED);
                }
            }
            if (S.t[i].opt_kind == 2) {
                mon_flag(F_NAMED);
            }
            if (S.t[i].opt_kind == 1) {
                mon_flag(F_STACK_SIZE);
            }
        }
        if (S.t[i].launched && S.t[i].opt_kind == 3 && faults) {
            mon_flag(F_PINNED_RETRY);
        }
    }
    if (unfinished_at_joinall) {
        mon_flag(F_JOINALL_BEFORE_FINISH);
    } else if (nmanaged) {
        mon_flag(F_JOINALL_AFTER_FINISH);
    }
    if (S.n >= 16) {
        mon_flag(F_MANY_THREADS);
    }
    mon_fp(order_hash);
    mon_fp(perturb_signature());
    mon_distinct("interleaving_signatures", perturb_signature());
    mon_distinct("thread_completion_orders", order_hash);

    mon_count("scenarios", 1);
    mon_count("manual_threads_that_tried_to_join_themselves", __atomic_exchange_n(&s_self_joins, 0, __ATOMIC_RELAXED));
    mon_count("threads_launched", (uint64_t)S.n);
    mon_count("managed_threads_finished_after_join_all_was_called", (uint64_t)unfinished_at_joinall);
    mon_count("pthread_create_failures_injected", perturb_creates_failed());
    mon_count("sched_points", perturb_points());
    mon_count("sched_delays_injected", perturb_delays());
    mon_count("thread_switches_in_trace_prefix", perturb_switches());
    mon_count_max("max_threads_in_scenario", (uint64_t)S.n);
    mon_sample("threads=%d roots=%d managed=%d nested=%d faults=%d profile=%s early_joinall=%d completion_order_hash=%016llx still_running_at_joinall=%d", S.n, S.nroots,
               nmanaged, nested, faults, perturb_profile_name(prof_idx), early_joinall, (unsigned long long)order_hash, unfinished_at_joinall);
    free(ev);
}

int main(int argc, char **argv) {
    mon_init(argc, argv, "C20");
    aws_common_library_init(aws_default_allocator());
    /* start the watchdog thread while no perturbation / fault injection is active */
    mon_watchdog_arm(3600, "C20:hang", "startup");
    mon_watchdog_disarm();
    static const char *names[] = {"managed_thread", "manual_thread_joined", "managed_thread_launched_by_thread", "several_at_exit_callbacks", "pthread_create_failed",
                                  "join_all_called_before_all_finished", "join_all_called_after_all_finished", "named_thread", "pinned_launch_with_fault_retry",
                                  "16_or_more_threads", "manual_thread_launched_managed", "explicit_stack_size", "timed_join_all_gave_up",
                                  "library_reinit_with_managed_threads_outstanding", "timed_join_all_completed",
                                  "externally_counted_manual_thread", "external_decrement_while_join_all_blocked",
                                  "at_exit_registered_inside_call_once", "join_all_called_from_a_second_thread_as_well"};
    for (int i = 0; i < (int)(sizeof(names) / sizeof(names[0])); ++i) {
        mon_flag_name(i, names[i]);
    }
    uint64_t c;
    while (mon_next_case(&c)) {
        mon_case_begin(c);
        run_case();
        mon_case_end(mon_flag_count() >= 3);
    }
    return mon_finish();
}
