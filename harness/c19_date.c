/*
 * C19 - date-time: format/parse round trip, calendar accessors, offsets/designators, epoch views
 * (DESIGN.md section 5, C19).
 *
 * Oracle: proleptic Gregorian calendar written for this harness, twice and independently:
 *   (a) closed-form days-from-civil / civil-from-days, (b) a naive year table + month walk.
 * The two are compared with each other for every instant (harness self-check) and the library's
 * accessors, renderings and parse results are compared with (a).
 *
 * Case layout (case index c):
 *   [0, 8030)              year sweep: year 1970+c, every month boundary -1/0/+1 s, Feb 28/29 -> Mar 1
 *                          transitions, last second of the year, one random instant of the year
 *   [8030, 8040)           special blocks: epoch start, 2^31/2^32 roll-over, 9999-12-31T23:59:59Z, nanosecond
 *                          saturation boundary, century rule years, powers of ten, ...
 *   [8040, ...)            blocks of 16 PRNG-derived instants
 * Every instant: both epoch constructors, all accessors (UTC and local), epoch views, six renderings x
 * {large, exact, capacity==length, short} buffers in fenced storage, parse of every rendering in explicit
 * and AUTO_DETECT mode, and 4 offset/designator strings generated from the same instant.
 *
 * --p0 = UTC offset in seconds of the process's TZ (0 for TZ=UTC, 19800 for TZ=Asia/Kolkata); verified at start.
 * --p1 = every p1-th instant is recorded for the Python datetime second opinion (default 16);
 * --p2 = at most p2 such records per process (default 8000; special instants are always recorded).
 */
#include "mon.h"

#include <aws/common/byte_buf.h>
#include <aws/common/common.h>
#include <aws/common/date_time.h>
#include <aws/common/error.h>

#include <math.h>
#include <stdlib.h>
#include <time.h>

#define T_MAX 253402300799LL /* 9999-12-31T23:59:59Z */
#define Y_MIN 1970
#define Y_MAX 9999
#define N_YEAR_CASES (Y_MAX - Y_MIN + 1) /* 8030 */
#define N_SPECIAL_CASES 10
#define FIRST_RANDOM_CASE (N_YEAR_CASES + N_SPECIAL_CASES)
#define RANDOM_BLOCK 16
#define N_VARIANTS 4
#define MAX_TEXT 100

enum {
    F_MONTH_BOUNDARY,
    F_LEAP_DAY,
    F_CENTURY_NON_LEAP,
    F_CENTURY_LEAP,
    F_YEAR_BOUNDARY,
    F_AFTER_2038,
    F_NANOS_SATURATED,
    F_DATE_ONLY_TRUNCATES,
    F_SHORT_BUFFER_REFUSED,
    F_APPEND_AT_LEN,
    F_OFFSET_POSITIVE,
    F_OFFSET_NEGATIVE,
    F_OFFSET_CROSSES_DAY,
    F_OFFSET_CROSSES_YEAR,
    F_FRACTION,
    F_LOWERCASE_DESIGNATOR,
    F_SEPARATOR_SPACE_OR_T_LOWER,
    F_BASIC_WITH_OFFSET,
    F_RFC822_OFFSET,
    F_SUBSECOND_INIT,
    F_EXTREME,
    F_WALL_BEFORE_EPOCH,
    F_DST_GAP_READING,
    F_FRACTION_10_OR_MORE_DIGITS,
    F_NFLAGS
};
static const char *FLAG_NAMES[F_NFLAGS] = {
    "month_boundary_pm1s",
    "leap_day_instant",
    "century_non_leap_feb28_mar1",
    "century_leap_feb29",
    "year_boundary",
    "instant_after_2038",
    "nanos_saturated_at_uint64_max",
    "date_only_truncates_to_midnight",
    "short_buffer_refused",
    "append_at_nonzero_len",
    "offset_positive",
    "offset_negative",
    "offset_local_date_differs_from_utc_date",
    "offset_local_year_differs_from_utc_year",
    "fractional_seconds",
    "lowercase_designator",
    "separator_space_or_lowercase_t",
    "iso_basic_with_offset",
    "rfc822_numeric_offset",
    "subsecond_constructor_input",
    "extreme_instant",
    "west_offset_wall_clock_before_epoch",
    "reading_inside_a_daylight_saving_switch_window",
    "fraction_of_10_or_more_digits",
};

/* ------------------------------------------------------------------ reference calendar (a): closed form */
struct civil {
    int64_t y;
    int mo; /* 1..12 */
    int d;  /* 1..31 */
    int wd; /* 0 = Sunday */
    int h, mi, s;
};

static bool is_leap(int64_t y) {
    return (y % 4 == 0 && y % 100 != 0) || y % 400 == 0;
}

static int month_len(int64_t y, int m) {
    static const int ml[12] = {31, 28, 31, 30, 31, 30, 31, 31, 30, 31, 30, 31};
    return (m == 2 && is_leap(y)) ? 29 : ml[m - 1];
}

static int64_t days_from_civil(int64_t y, int m, int d) {
    y -= m <= 2;
    int64_t era = (y >= 0 ? y : y - 399) / 400;
    int64_t yoe = y - era * 400;
    int64_t doy = (153 * (m > 2 ? m - 3 : m + 9) + 2) / 5 + d - 1;
    int64_t doe = yoe * 365 + yoe / 4 - yoe / 100 + doy;
    return era * 146097 + doe - 719468;
}

static void civil_from_days(int64_t z, int64_t *y, int *m, int *d) {
    z += 719468;
    int64_t era = (z >= 0 ? z : z - 146096) / 146097;
    int64_t doe = z - era * 146097;
    int64_t yoe = (doe - doe / 1460 + doe / 36524 - doe / 146096) / 365;
    int64_t yy = yoe + era * 400;
    int64_t doy = doe - (365 * yoe + yoe / 4 - yoe / 100);
    int64_t mp = (5 * doy + 2) / 153;
    *d = (int)(doy - (153 * mp + 2) / 5 + 1);
    *m = (int)(mp < 10 ? mp + 3 : mp - 9);
    *y = yy + (*m <= 2);
}

static void civil_from_secs(int64_t t, struct civil *c) {
    int64_t days = t >= 0 ? t / 86400 : -((-t + 86399) / 86400);
    int64_t sod = t - days * 86400;
    civil_from_days(days, &c->y, &c->mo, &c->d);
    int64_t w = (days + 4) % 7; /* 1970-01-01 was a Thursday */
    if (w < 0) {
        w += 7;
    }
    c->wd = (int)w;
    c->h = (int)(sod / 3600);
    c->mi = (int)(sod % 3600 / 60);
    c->s = (int)(sod % 60);
}

/* ------------------------------------------------------------------ reference calendar (b): naive table */
static int64_t s_year_start_day[Y_MAX - Y_MIN + 3]; /* days since epoch of Jan 1 of 1970 .. 10001 */

static void naive_init(void) {
    int64_t d = 0;
    for (int y = Y_MIN; y <= Y_MAX + 2; ++y) {
        s_year_start_day[y - Y_MIN] = d;
        d += 365 + (is_leap(y) ? 1 : 0);
    }
}

/* seconds since epoch of y-m-d h:mi:s, y in 1970..10000 */
static int64_t naive_secs(int64_t y, int m, int d, int h, int mi, int s) {
    int64_t days = s_year_start_day[y - Y_MIN];
    for (int k = 1; k < m; ++k) {
        days += month_len(y, k);
    }
    days += d - 1;
    return days * 86400 + h * 3600 + mi * 60 + s;
}

/* t >= 0 only */
static void naive_civil(int64_t t, struct civil *c) {
    int64_t days = t / 86400, sod = t % 86400;
    int lo = 0, hi = Y_MAX + 1 - Y_MIN; /* invariant: start[lo] <= days < start[hi+1] */
    while (lo < hi) {
        int mid = (lo + hi + 1) / 2;
        if (s_year_start_day[mid] <= days) {
            lo = mid;
        } else {
            hi = mid - 1;
        }
    }
    c->y = Y_MIN + lo;
    int64_t rem = days - s_year_start_day[lo];
    int m = 1;
    while (rem >= month_len(c->y, m)) {
        rem -= month_len(c->y, m);
        ++m;
    }
    c->mo = m;
    c->d = (int)rem + 1;
    c->wd = (int)((days + 4) % 7);
    c->h = (int)(sod / 3600);
    c->mi = (int)((sod / 60) % 60);
    c->s = (int)(sod % 60);
}

static bool civil_eq(const struct civil *a, const struct civil *b) {
    return a->y == b->y && a->mo == b->mo && a->d == b->d && a->wd == b->wd && a->h == b->h && a->mi == b->mi &&
           a->s == b->s;
}

/* ------------------------------------------------------------------ renderings */
enum { R_RFC_FULL, R_ISO_FULL, R_BASIC_FULL, R_RFC_DATE, R_ISO_DATE, R_BASIC_DATE, R_COUNT };
static const char *R_NAME[R_COUNT] = {"rfc822", "iso8601", "iso8601-basic", "rfc822-date", "iso8601-date",
                                      "iso8601-basic-date"};
static const enum aws_date_format R_FMT[R_COUNT] = {AWS_DATE_FORMAT_RFC822,         AWS_DATE_FORMAT_ISO_8601,
                                                    AWS_DATE_FORMAT_ISO_8601_BASIC, AWS_DATE_FORMAT_RFC822,
                                                    AWS_DATE_FORMAT_ISO_8601,       AWS_DATE_FORMAT_ISO_8601_BASIC};
static const char *WD_NAME[7] = {"Sun", "Mon", "Tue", "Wed", "Thu", "Fri", "Sat"};
static const char *MON_NAME[12] = {"Jan", "Feb", "Mar", "Apr", "May", "Jun", "Jul", "Aug", "Sep", "Oct", "Nov", "Dec"};
static const char *FMT_NAME[4] = {"RFC822", "ISO_8601", "ISO_8601_BASIC", "AUTO_DETECT"};

static size_t ref_text(int r, const struct civil *c, char *out, size_t cap) {
    int n = 0;
    switch (r) {
        case R_RFC_FULL:
            n = snprintf(out, cap, "%s, %02d %s %04lld %02d:%02d:%02d GMT", WD_NAME[c->wd], c->d, MON_NAME[c->mo - 1],
                         (long long)c->y, c->h, c->mi, c->s);
            break;
        case R_ISO_FULL:
            n = snprintf(out, cap, "%04lld-%02d-%02dT%02d:%02d:%02dZ", (long long)c->y, c->mo, c->d, c->h, c->mi, c->s);
            break;
        case R_BASIC_FULL:
            n = snprintf(out, cap, "%04lld%02d%02dT%02d%02d%02dZ", (long long)c->y, c->mo, c->d, c->h, c->mi, c->s);
            break;
        case R_RFC_DATE:
            n = snprintf(out, cap, "%s, %02d %s %04lld", WD_NAME[c->wd], c->d, MON_NAME[c->mo - 1], (long long)c->y);
            break;
        case R_ISO_DATE:
            n = snprintf(out, cap, "%04lld-%02d-%02d", (long long)c->y, c->mo, c->d);
            break;
        default:
            n = snprintf(out, cap, "%04lld%02d%02d", (long long)c->y, c->mo, c->d);
            break;
    }
    return (size_t)n;
}

static int lib_format(const struct aws_date_time *dt, int r, struct aws_byte_buf *buf) {
    return r < 3 ? aws_date_time_to_utc_time_str(dt, R_FMT[r], buf) : aws_date_time_to_utc_time_short_str(dt, R_FMT[r], buf);
}

/* ------------------------------------------------------------------ run state */
static long s_tz_off;        /* p0 */
static bool s_dst_zone;      /* p3: the process's zone has daylight saving; local-time oracles are skipped */
static unsigned s_py_every;  /* p1 */
static unsigned s_py_budget; /* p2 */
static unsigned s_py_written;
static FILE *s_xd, *s_py;
static uint64_t s_case;
static uint64_t s_din, s_dres; /* per-case digests: inputs / results in UTC terms */
static bool s_known_reported;
static unsigned s_case_instants, s_case_variants_ok, s_case_roundtrips_ok;

/* counters accumulated locally, flushed once per case */
enum {
    K_INSTANTS, K_FORMAT_CALLS, K_PARSE_CALLS, K_ROUNDTRIPS_OK, K_SHORT_REFUSED, K_CAP_EQ_LEN_REFUSED, K_CAP_EQ_LEN_ACCEPTED,
    K_OFFSET_STRINGS, K_DESIGNATOR_STRINGS, K_MONTH_BOUNDARIES, K_LEAP_DAY, K_RFC_DATE_ONLY_UNPARSEABLE,
    K_RFC_DATE_ONLY_PARSED, K_NANOS_SAT, K_NANOS_WRAP_SUBSECOND, K_PY_RECORDS, K_SELFCHECKS, K_ACCESSOR_CHECKS,
    K_CROSS_FORMAT_PARSES, K_COUNT
};
static const char *K_NAME[K_COUNT] = {
    "instants", "format_calls", "parse_calls", "roundtrips_ok", "short_buffer_refused", "capacity_eq_length_refused",
    "capacity_eq_length_accepted", "offset_strings_parsed", "designator_strings_parsed", "month_boundary_instants",
    "leap_day_instants", "rfc822_date_only_unparseable", "rfc822_date_only_parsed", "nanos_saturated",
    "note_nanos_wrapped_subsecond_after_saturation", "python_sample_records", "calendar_selfchecks", "accessor_checks",
    "iso_cross_format_parses"};
static uint64_t s_k[K_COUNT];

static void dg_in(uint64_t v) {
    s_din = (s_din ^ v) * 0x100000001B3ULL + 0x9E3779B97F4A7C15ULL;
    s_din ^= s_din >> 29;
}
static void dg_res(uint64_t v) {
    s_dres = (s_dres ^ v) * 0x100000001B3ULL + 0x9E3779B97F4A7C15ULL;
    s_dres ^= s_dres >> 29;
}
static uint64_t hash_bytes(const void *p, size_t n) {
    uint64_t h = 0xCBF29CE484222325ULL;
    for (size_t i = 0; i < n; ++i) {
        h = (h ^ ((const uint8_t *)p)[i]) * 0x100000001B3ULL;
    }
    return h ^ (n << 56);
}

/* fenced output buffers, cached per capacity */
#define MAX_CAP 192
static uint8_t *s_fence[MAX_CAP + 1];
static uint8_t *fence_for(size_t cap) {
    if (!s_fence[cap]) {
        s_fence[cap] = mon_fence_new(cap);
    }
    return s_fence[cap];
}
/* exact-size heap blocks for parser input: an over-read of one byte is an ASan report */
static uint8_t *s_inblk[MAX_TEXT + 1];
static uint8_t *input_block(const char *text, size_t n) {
    if (!s_inblk[n]) {
        s_inblk[n] = malloc(n ? n : 1);
    }
    memcpy(s_inblk[n], text, n);
    return s_inblk[n];
}

/* python sample record under construction */
static bool s_py_on;
static char s_pybuf[8192];
static size_t s_pylen;
static void py_add(const char *fmt, ...) __attribute__((format(printf, 1, 2)));
static void py_add(const char *fmt, ...) {
    if (!s_py_on || s_pylen > sizeof(s_pybuf) - 400) {
        return;
    }
    va_list ap;
    va_start(ap, fmt);
    int n = vsnprintf(s_pybuf + s_pylen, sizeof(s_pybuf) - s_pylen, fmt, ap);
    va_end(ap);
    if (n > 0) {
        s_pylen += (size_t)n;
    }
}

/* ------------------------------------------------------------------ accessor / epoch-view oracle */
static void check_fields(const struct aws_date_time *dt, int64_t t, unsigned ms, const char *origin) {
    ++s_k[K_ACCESSOR_CHECKS];
    if ((int64_t)dt->timestamp != t || dt->milliseconds != ms) {
        mon_violation("C19:instant", "%s: timestamp %lld ms %u, expected %lld ms %u", origin, (long long)dt->timestamp,
                      (unsigned)dt->milliseconds, (long long)t, ms);
    }
    struct civil c;
    civil_from_secs(t, &c);
    unsigned y = aws_date_time_year(dt, false);
    int mo = (int)aws_date_time_month(dt, false);
    unsigned d = aws_date_time_month_day(dt, false);
    int wd = (int)aws_date_time_day_of_week(dt, false);
    unsigned h = aws_date_time_hour(dt, false), mi = aws_date_time_minute(dt, false), s = aws_date_time_second(dt, false);
    if ((int64_t)y != c.y || mo != c.mo - 1 || (int)d != c.d || wd != c.wd || (int)h != c.h || (int)mi != c.mi || (int)s != c.s) {
        mon_violation("C19:accessor:utc",
                      "%s, t=%lld: UTC accessors give %u-%02d-%02u wd=%d %02u:%02u:%02u, calendar says %lld-%02d-%02d wd=%d "
                      "%02d:%02d:%02d",
                      origin, (long long)t, y, mo + 1, d, wd, h, mi, s, (long long)c.y, c.mo, c.d, c.wd, c.h, c.mi, c.s);
    }
    if (aws_date_time_dst(dt, false)) {
        mon_violation("C19:accessor:utc", "%s, t=%lld: aws_date_time_dst(utc) is true", origin, (long long)t);
    }
    dg_res(((uint64_t)y << 40) ^ ((uint64_t)mo << 32) ^ (d << 24) ^ (wd << 20) ^ (h << 12) ^ (mi << 6) ^ s);
    /* local view: TZ is pinned by the stage (fixed offset, no DST since 1945 for Asia/Kolkata) */
    struct civil l;
    civil_from_secs(t + s_tz_off, &l);
    unsigned ly = aws_date_time_year(dt, true);
    int lmo = (int)aws_date_time_month(dt, true);
    unsigned ld = aws_date_time_month_day(dt, true);
    int lwd = (int)aws_date_time_day_of_week(dt, true);
    unsigned lh = aws_date_time_hour(dt, true), lmi = aws_date_time_minute(dt, true), ls = aws_date_time_second(dt, true);
    if (!s_dst_zone && ((int64_t)ly != l.y || lmo != l.mo - 1 || (int)ld != l.d || lwd != l.wd || (int)lh != l.h || (int)lmi != l.mi ||
                        (int)ls != l.s || aws_date_time_dst(dt, true))) {
        mon_violation("C19:accessor:local",
                      "%s, t=%lld, TZ offset %ld s: local accessors give %u-%02d-%02u wd=%d %02u:%02u:%02u dst=%d, calendar says "
                      "%lld-%02d-%02d wd=%d %02d:%02d:%02d",
                      origin, (long long)t, s_tz_off, ly, lmo + 1, ld, lwd, lh, lmi, ls, (int)aws_date_time_dst(dt, true),
                      (long long)l.y, l.mo, l.d, l.wd, l.h, l.mi, l.s);
    }
    /* epoch views */
    double secs = aws_date_time_as_epoch_secs(dt);
    uint64_t millis = aws_date_time_as_millis(dt);
    uint64_t nanos = aws_date_time_as_nanos(dt);
    long double want_secs = (long double)t + (long double)ms / 1000.0L;
    if (fabsl((long double)secs - want_secs) > 1e-4L) {
        mon_violation("C19:epoch-views:secs", "%s, t=%lld ms=%u: as_epoch_secs = %.6f", origin, (long long)t, ms, secs);
    }
    if (millis != (uint64_t)t * 1000u + ms) {
        mon_violation("C19:epoch-views:millis", "%s, t=%lld ms=%u: as_millis = %llu", origin, (long long)t, ms,
                      (unsigned long long)millis);
    }
    unsigned __int128 want_n = (unsigned __int128)(uint64_t)t * 1000000000u + (unsigned __int128)ms * 1000000u;
    if (want_n <= UINT64_MAX) {
        if (nanos != (uint64_t)want_n) {
            mon_violation("C19:epoch-views:nanos", "%s, t=%lld ms=%u: as_nanos = %llu, expected %llu", origin, (long long)t, ms,
                          (unsigned long long)nanos, (unsigned long long)(uint64_t)want_n);
        }
        if (nanos / 1000000u != millis || (double)(millis / 1000u) != floor(secs)) {
            mon_violation("C19:epoch-views:consistency", "%s, t=%lld ms=%u: secs %.3f millis %llu nanos %llu disagree", origin,
                          (long long)t, ms, secs, (unsigned long long)millis, (unsigned long long)nanos);
        }
    } else if (ms == 0) {
        /* aws_timestamp_convert saturates: the only value consistent with the other views is UINT64_MAX */
        ++s_k[K_NANOS_SAT];
        mon_flag(F_NANOS_SATURATED);
        if (nanos != UINT64_MAX) {
            mon_violation("C19:epoch-views:nanos-saturation", "%s, t=%lld: as_nanos = %llu, expected saturation at UINT64_MAX",
                          origin, (long long)t, (unsigned long long)nanos);
        }
    } else if (nanos != UINT64_MAX) {
        /* sub-second instant after 2554-07-21: the saturated seconds part plus the millisecond part used to wrap
         * around (repaired in /repo by "fix: aws_date_time_as_nanos wrapped around ..."); the only value consistent
         * with the documented saturation is UINT64_MAX */
        ++s_k[K_NANOS_WRAP_SUBSECOND];
        mon_violation("C19:epoch-views:nanos-wrap-subsecond", "%s, t=%lld s + %u ms: as_nanos = %llu, expected saturation at UINT64_MAX",
                      origin, (long long)t, ms, (unsigned long long)nanos);
    }
    dg_res(millis);
    dg_res(want_n <= UINT64_MAX || ms == 0 ? nanos : 0);
}

/* ------------------------------------------------------------------ formatting oracle */
enum { B_LARGE, B_EXACT, B_EQ_LEN, B_SHORT };

/* returns true and copies the library text into got[] when the library produced the reference text */
static bool check_format(const struct aws_date_time *dt, int64_t t, int r, const char *ref, size_t L, int bmode, char *got) {
    struct mon_rng *rng = &mon_case_rng;
    size_t prefix = mon_chance(rng, 1, 4) ? (size_t)mon_range(rng, 1, 9) : 0;
    size_t room;
    switch (bmode) {
        case B_LARGE:
            room = L + 1 + (mon_chance(rng, 1, 2) ? (size_t)mon_range(rng, 1, 60) : (size_t)(AWS_DATE_TIME_STR_MAX_LEN - L - 1));
            break;
        case B_EXACT:
            room = L + 1; /* strftime needs room for its terminator */
            break;
        case B_EQ_LEN:
            room = L;
            break;
        default:
            room = mon_chance(rng, 1, 2) ? L - 1 : (size_t)mon_below(rng, L);
            break;
    }
    if (prefix + room == 0) {
        prefix = 1; /* a zero-capacity byte_buf with a non-NULL pointer is not a valid aws_byte_buf */
    }
    size_t cap = prefix + room;
    uint8_t *mem = fence_for(cap);
    memset(mem, 0xA5, cap);
    for (size_t i = 0; i < prefix; ++i) {
        mem[i] = (uint8_t)('a' + i);
    }
    struct aws_byte_buf buf = aws_byte_buf_from_empty_array(mem, cap);
    buf.len = prefix;
    struct aws_allocator *alloc_before = buf.allocator;
    mon_poison_last_error(&mon_case_rng);
    int rc = lib_format(dt, r, &buf);
    int err = rc ? aws_last_error() : 0;
    ++s_k[K_FORMAT_CALLS];
    dg_in(((uint64_t)r << 32) ^ ((uint64_t)bmode << 24) ^ (prefix << 12) ^ room);
    char key[80];
    bool ok = false;
    if (mon_fence_check(mem) != 0) {
        snprintf(key, sizeof(key), "C19:format:canary:%s", R_NAME[r]);
        mon_violation(key, "t=%lld %s into capacity %zu (len %zu): bytes outside the buffer were written", (long long)t, R_NAME[r],
                      cap, prefix);
    }
    if (buf.buffer != mem || buf.capacity != cap || buf.allocator != alloc_before) {
        snprintf(key, sizeof(key), "C19:format:buf-fields:%s", R_NAME[r]);
        mon_violation(key, "t=%lld %s: buffer pointer/capacity/allocator changed", (long long)t, R_NAME[r]);
    }
    for (size_t i = 0; i < prefix; ++i) {
        if (mem[i] != (uint8_t)('a' + i)) {
            snprintf(key, sizeof(key), "C19:format:prefix-damaged:%s", R_NAME[r]);
            mon_violation(key, "t=%lld %s appended at len %zu: byte %zu below len changed", (long long)t, R_NAME[r], prefix, i);
            break;
        }
    }
    if (rc == AWS_OP_SUCCESS) {
        if (buf.len != prefix + L || memcmp(mem + prefix, ref, L) != 0) {
            snprintf(key, sizeof(key), "C19:format:text:%s", R_NAME[r]);
            size_t gl = buf.len >= prefix && buf.len <= cap ? buf.len - prefix : 0;
            mon_violation(key, "t=%lld %s: library wrote '%.*s' (len %zu -> %zu), calendar says '%s'", (long long)t, R_NAME[r],
                          (int)gl, (const char *)mem + prefix, prefix, buf.len, ref);
        } else {
            ok = true;
            if (got) {
                memcpy(got, mem + prefix, L);
                got[L] = 0;
            }
            if (prefix) {
                mon_flag(F_APPEND_AT_LEN);
            }
        }
        if (room < L) {
            snprintf(key, sizeof(key), "C19:format:short-buffer-accepted:%s", R_NAME[r]);
            mon_violation(key, "t=%lld %s needs %zu bytes, succeeded with %zu bytes of room", (long long)t, R_NAME[r], L, room);
        }
        if (bmode == B_EQ_LEN) {
            ++s_k[K_CAP_EQ_LEN_ACCEPTED];
        }
    } else {
        if (room >= L + 1) {
            snprintf(key, sizeof(key), "C19:format:failed:%s", R_NAME[r]);
            mon_violation(key, "t=%lld %s with %zu bytes of room (text needs %zu + terminator): error %d (%s)", (long long)t,
                          R_NAME[r], room, L, err, aws_error_name(err));
        } else {
            /* room == L: strftime has no room for its terminator; the header only says "too small -> AWS_OP_ERR",
             * so refusing is accepted here and counted */
            if (bmode == B_EQ_LEN) {
                ++s_k[K_CAP_EQ_LEN_REFUSED];
            } else {
                ++s_k[K_SHORT_REFUSED];
                mon_flag(F_SHORT_BUFFER_REFUSED);
            }
        }
        if (err != AWS_ERROR_SHORT_BUFFER) {
            snprintf(key, sizeof(key), "C19:format:error-code:%s", R_NAME[r]);
            mon_violation(key, "t=%lld %s with %zu bytes of room: error %d (%s), expected AWS_ERROR_SHORT_BUFFER", (long long)t,
                          R_NAME[r], room, err, aws_error_name(err));
        }
        if (buf.len != prefix) {
            snprintf(key, sizeof(key), "C19:format:failed-len-changed:%s", R_NAME[r]);
            mon_violation(key, "t=%lld %s failed but len went %zu -> %zu", (long long)t, R_NAME[r], prefix, buf.len);
        }
    }
    dg_res(((uint64_t)(rc == AWS_OP_SUCCESS) << 63) ^ (uint64_t)err ^ (ok ? hash_bytes(mem + prefix, L) : 0));
    return ok;
}

/* ------------------------------------------------------------------ parse oracle */
struct parse_out {
    int rc;
    int err;
    int64_t ts;
};

static struct parse_out lib_parse(const char *text, size_t n, enum aws_date_format fmt, struct aws_date_time *dt) {
    struct parse_out o;
    uint8_t *blk = input_block(text, n);
    memset(dt, 0xA5, sizeof(*dt));
    mon_poison_last_error(&mon_case_rng);
    ++s_k[K_PARSE_CALLS];
    if ((s_k[K_PARSE_CALLS] & 1) != 0) {
        struct aws_byte_cursor cur = aws_byte_cursor_from_array(blk, n);
        o.rc = aws_date_time_init_from_str_cursor(dt, &cur, fmt);
        if (cur.ptr != blk || cur.len != n) {
            mon_violation("C19:parse:input-cursor-changed", "parse of '%.*s' changed the caller's cursor", (int)n, text);
        }
    } else {
        struct aws_byte_buf b = aws_byte_buf_from_array(blk, n);
        o.rc = aws_date_time_init_from_str(dt, &b, fmt);
    }
    o.err = o.rc ? aws_last_error() : 0;
    o.ts = o.rc ? 0 : (int64_t)dt->timestamp;
    if (memcmp(blk, text, n) != 0) {
        mon_violation("C19:parse:input-modified", "parse of '%.*s' modified the input bytes", (int)n, text);
    }
    dg_in(hash_bytes(text, n) ^ ((uint64_t)fmt << 60));
    dg_res(((uint64_t)(o.rc == 0) << 63) ^ (uint64_t)o.err ^ ((uint64_t)o.ts << 8));
    if (s_py_on) {
        py_add("%s[\"%.*s\",\"%s\",%d,%lld]", s_pybuf[s_pylen - 1] == '[' ? "" : ",", (int)n, text, FMT_NAME[fmt], o.rc == 0,
               (long long)o.ts);
    }
    return o;
}

/* parse must succeed and give `want`; keyclass e.g. "roundtrip:iso8601" ; returns success */
static bool expect_parse(const char *text, size_t n, enum aws_date_format fmt, int64_t want, const char *keyclass, int64_t t) {
    struct aws_date_time dt;
    struct parse_out o = lib_parse(text, n, fmt, &dt);
    const char *mode = fmt == AWS_DATE_FORMAT_AUTO_DETECT ? "auto" : "explicit";
    char key[96];
    if (o.rc != AWS_OP_SUCCESS) {
        snprintf(key, sizeof(key), "C19:%s:%s:rejected", keyclass, mode);
        mon_violation(key, "instant t=%lld: '%.*s' parsed with %s is rejected: error %d (%s)", (long long)t, (int)n, text,
                      FMT_NAME[fmt], o.err, aws_error_name(o.err));
        return false;
    }
    if (o.ts != want) {
        snprintf(key, sizeof(key), "C19:%s:%s:wrong-instant", keyclass, mode);
        mon_violation(key, "instant t=%lld: '%.*s' parsed with %s gives %lld, expected %lld (difference %lld s)", (long long)t,
                      (int)n, text, FMT_NAME[fmt], (long long)o.ts, (long long)want, (long long)(o.ts - want));
        return false;
    }
    char origin[160];
    snprintf(origin, sizeof(origin), "parse('%.*s', %s)", (int)n, text, FMT_NAME[fmt]);
    check_fields(&dt, want, 0, origin);
    return true;
}

/* the RFC 822 date-only rendering: known finding D8 when rejected with INVALID_DATE_STR in both modes */
static void rfc822_date_only(const char *text, size_t n, int64_t t) {
    int64_t want = t - t % 86400;
    struct aws_date_time dt;
    int failed = 0, passed = 0;
    struct parse_out o[2];
    static const enum aws_date_format modes[2] = {AWS_DATE_FORMAT_RFC822, AWS_DATE_FORMAT_AUTO_DETECT};
    for (int k = 0; k < 2; ++k) {
        o[k] = lib_parse(text, n, modes[k], &dt);
        if (o[k].rc == AWS_OP_SUCCESS) {
            ++passed;
            if (o[k].ts != want) {
                mon_violation(k ? "C19:roundtrip:rfc822-date:auto:wrong-instant" : "C19:roundtrip:rfc822-date:explicit:wrong-instant",
                              "instant t=%lld: '%.*s' parsed with %s gives %lld, expected midnight %lld", (long long)t, (int)n, text,
                              FMT_NAME[modes[k]], (long long)o[k].ts, (long long)want);
            } else {
                check_fields(&dt, want, 0, "parse(rfc822 date-only)");
            }
        } else if (o[k].err == AWS_ERROR_INVALID_DATE_STR) {
            ++failed;
        } else {
            mon_violation("C19:roundtrip:rfc822-date:error-code", "instant t=%lld: '%.*s' parsed with %s: error %d (%s)",
                          (long long)t, (int)n, text, FMT_NAME[modes[k]], o[k].err, aws_error_name(o[k].err));
        }
    }
    if (failed == 2) {
        ++s_k[K_RFC_DATE_ONLY_UNPARSEABLE];
        if (!s_known_reported) {
            s_known_reported = true; /* once per process: the class, not every instant */
            mon_violation("C19:rfc822:date-only-roundtrip",
                          "instant t=%lld: aws_date_time_to_utc_time_short_str(AWS_DATE_FORMAT_RFC822) wrote '%.*s'; "
                          "aws_date_time_init_from_str rejects it with AWS_ERROR_INVALID_DATE_STR both with AWS_DATE_FORMAT_RFC822 "
                          "and with AWS_DATE_FORMAT_AUTO_DETECT (the RFC 822 parser requires the time part); the same holds for "
                          "every instant (counter rfc822_date_only_unparseable)",
                          (long long)t, (int)n, text);
        }
    } else if (failed == 1) {
        int k = o[0].rc ? 0 : 1;
        mon_violation(k ? "C19:rfc822:date-only-roundtrip:auto-only" : "C19:rfc822:date-only-roundtrip:explicit-only",
                      "instant t=%lld: '%.*s' is rejected with %s but accepted with the other mode", (long long)t, (int)n, text,
                      FMT_NAME[modes[k]]);
    } else if (passed == 2) {
        ++s_k[K_RFC_DATE_ONLY_PARSED];
        ++s_case_roundtrips_ok;
    }
}

/* ------------------------------------------------------------------ offset / designator strings */
static const int REAL_OFFSETS_MIN[] = {0, 330, 345, 210, 840, 720, 60, 480, 765, 570, 540, 1, 59, 1439, 600, 300};

static void run_variant(int64_t t) {
    struct mon_rng *r = &mon_case_rng;
    char text[MAX_TEXT + 28];
    size_t n = 0;
    int family = (int)mon_below(r, 3); /* 0 RFC 822, 1 ISO extended, 2 ISO basic */
    bool use_offset = mon_chance(r, 1, 2);
    int64_t off = 0;
    bool neg = false;
    if (use_offset) {
        int mins = mon_chance(r, 2, 3) ? REAL_OFFSETS_MIN[mon_below(r, sizeof(REAL_OFFSETS_MIN) / sizeof(REAL_OFFSETS_MIN[0]))]
                                       : (int)mon_below(r, 24 * 60);
        neg = mon_chance(r, 1, 2);
        off = (int64_t)mins * 60;
        struct civil probe;
        civil_from_secs(t + (neg ? -off : off), &probe);
        if (probe.y > Y_MAX) {
            neg = true; /* local fields would need a five-digit year */
        }
    }
    if (use_offset && off > 0 && mon_chance(r, 1, 6)) {
        /* wall-clock readings at and just before 1970-01-01T00:00:00 shown with a west offset: the fields alone denote a
         * time before the epoch (timegm of the fields is -1, -2, -86400 ...), the instant is in range */
        static const int64_t WALL[] = {-1, -1, -2, 0, -59, -60, -3599, -3600, -86399, -86400};
        int64_t w = WALL[mon_below(r, sizeof(WALL) / sizeof(WALL[0]))];
        if (w + off >= 0) {
            neg = true;
            t = w + off;
            mon_flag(F_WALL_BEFORE_EPOCH);
        }
    }
    int64_t signed_off = neg ? -off : off;
    struct civil u, l;
    civil_from_secs(t, &u);
    civil_from_secs(t + signed_off, &l);
    char zone[16];
    bool lower = false;
    if (family == 0) {
        if (use_offset) {
            snprintf(zone, sizeof(zone), "%c%02d%02d", neg ? '-' : '+', (int)(off / 3600), (int)(off % 3600 / 60));
        } else {
            static const char *des[8] = {"Z", "z", "UT", "ut", "UTC", "utc", "GMT", "gmt"};
            unsigned k = (unsigned)mon_below(r, 8);
            lower = (k & 1) != 0;
            snprintf(zone, sizeof(zone), "%s", des[k]);
        }
        bool unpadded = l.d < 10 && mon_chance(r, 1, 8);
        if (unpadded) {
            n = (size_t)snprintf(text, sizeof(text), "%s, %d %s %04lld %02d:%02d:%02d %s", WD_NAME[l.wd], l.d, MON_NAME[l.mo - 1],
                                 (long long)l.y, l.h, l.mi, l.s, zone);
        } else {
            n = (size_t)snprintf(text, sizeof(text), "%s, %02d %s %04lld %02d:%02d:%02d %s", WD_NAME[l.wd], l.d,
                                 MON_NAME[l.mo - 1], (long long)l.y, l.h, l.mi, l.s, zone);
        }
        if (use_offset) {
            mon_flag(F_RFC822_OFFSET);
        }
    } else {
        char frac[48] = "";
        unsigned fk = (unsigned)mon_below(r, 5);
        if (fk == 1) {
            snprintf(frac, sizeof(frac), ".5");
        } else if (fk == 2) {
            snprintf(frac, sizeof(frac), ",123456");
        } else if (fk == 3) {
            /* the grammar puts no limit on the digits of the fraction (a double printed at full precision has 17) */
            static const unsigned LONG_ND[] = {10, 11, 12, 15, 17, 20, 30, 40};
            unsigned nd = mon_chance(r, 1, 4) ? LONG_ND[mon_below(r, 8)] : (unsigned)mon_range(r, 1, 9);
            if (nd > 9) {
                mon_flag(F_FRACTION_10_OR_MORE_DIGITS);
            }
            frac[0] = mon_chance(r, 1, 2) ? '.' : ',';
            for (unsigned i = 0; i < nd; ++i) {
                frac[1 + i] = (char)('0' + mon_below(r, 10));
            }
            frac[1 + nd] = 0;
        }
        if (frac[0]) {
            mon_flag(F_FRACTION);
        }
        static const char seps[3] = {'T', 't', ' '};
        char sep = seps[mon_chance(r, 1, 2) ? 0 : 1 + mon_below(r, 2)];
        if (sep != 'T') {
            mon_flag(F_SEPARATOR_SPACE_OR_T_LOWER);
        }
        if (use_offset) {
            bool colon = mon_chance(r, 1, 2);
            snprintf(zone, sizeof(zone), colon ? "%c%02d:%02d" : "%c%02d%02d", neg ? '-' : '+', (int)(off / 3600),
                     (int)(off % 3600 / 60));
            if (family == 2) {
                mon_flag(F_BASIC_WITH_OFFSET);
            }
        } else {
            lower = mon_chance(r, 1, 2);
            snprintf(zone, sizeof(zone), "%s", lower ? "z" : "Z");
        }
        if (family == 1) {
            n = (size_t)snprintf(text, sizeof(text), "%04lld-%02d-%02d%c%02d:%02d:%02d%s%s", (long long)l.y, l.mo, l.d, sep, l.h,
                                 l.mi, l.s, frac, zone);
        } else {
            n = (size_t)snprintf(text, sizeof(text), "%04lld%02d%02d%c%02d%02d%02d%s%s", (long long)l.y, l.mo, l.d, sep, l.h, l.mi,
                                 l.s, frac, zone);
        }
    }
    if (lower) {
        mon_flag(F_LOWERCASE_DESIGNATOR);
    }
    if (use_offset) {
        mon_flag(neg ? F_OFFSET_NEGATIVE : F_OFFSET_POSITIVE);
        if (l.d != u.d) {
            mon_flag(F_OFFSET_CROSSES_DAY);
        }
        if (l.y != u.y) {
            mon_flag(F_OFFSET_CROSSES_YEAR);
        }
    }
    if (n > MAX_TEXT) {
        return; /* cannot happen: longest text is 40 bytes */
    }
    static const enum aws_date_format fam_fmt[3] = {AWS_DATE_FORMAT_RFC822, AWS_DATE_FORMAT_ISO_8601,
                                                    AWS_DATE_FORMAT_ISO_8601_BASIC};
    enum aws_date_format fmt = fam_fmt[family];
    unsigned mk = (unsigned)mon_below(r, 8);
    if (mk < 3) {
        fmt = AWS_DATE_FORMAT_AUTO_DETECT;
    } else if (mk == 3 && family != 0) {
        /* documented leniency: either ISO format constant accepts both spellings */
        fmt = family == 1 ? AWS_DATE_FORMAT_ISO_8601_BASIC : AWS_DATE_FORMAT_ISO_8601;
        ++s_k[K_CROSS_FORMAT_PARSES];
    }
    mon_fp(hash_bytes(text, n) ^ (uint64_t)fmt);
    static const char *kc_off[3] = {"parse:offset:rfc822", "parse:offset:iso8601", "parse:offset:iso8601-basic"};
    static const char *kc_des[3] = {"parse:designator:rfc822", "parse:designator:iso8601", "parse:designator:iso8601-basic"};
    if (expect_parse(text, n, fmt, t, use_offset ? kc_off[family] : kc_des[family], t)) {
        ++s_case_variants_ok;
        ++s_k[use_offset ? K_OFFSET_STRINGS : K_DESIGNATOR_STRINGS];
    }
    if (mon_sampling()) {
        mon_sample(" '%s'/%s", text, FMT_NAME[fmt]);
    }
}

/* ------------------------------------------------------------------ one instant */
enum { I_SPECIAL = 1 };

static void run_instant(int64_t t, unsigned idx_in_case, unsigned iflags) {
    struct mon_rng *r = &mon_case_rng;
    if (t < 0 || t > T_MAX) {
        return;
    }
    ++s_k[K_INSTANTS];
    ++s_case_instants;
    mon_fp((uint64_t)t);
    dg_in((uint64_t)t);
    struct civil c, nv;
    civil_from_secs(t, &c);
    naive_civil(t, &nv);
    ++s_k[K_SELFCHECKS];
    if (!civil_eq(&c, &nv) || naive_secs(c.y, c.mo, c.d, c.h, c.mi, c.s) != t ||
        days_from_civil(c.y, c.mo, c.d) * 86400 + c.h * 3600 + c.mi * 60 + c.s != t) {
        mon_violation("C19:harness:calendar-selfcheck", "the harness's two reference calendars disagree for t=%lld", (long long)t);
        return;
    }
    if (t > 2147483647LL) {
        mon_flag(F_AFTER_2038);
    }
    if (c.mo == 2 && c.d == 29) {
        mon_flag(F_LEAP_DAY);
        ++s_k[K_LEAP_DAY];
        if (c.y % 100 == 0) {
            mon_flag(F_CENTURY_LEAP);
        }
    }
    if (c.y % 100 == 0 && !is_leap(c.y) && ((c.mo == 2 && c.d == 28) || (c.mo == 3 && c.d == 1))) {
        mon_flag(F_CENTURY_NON_LEAP);
    }
    if (t == 0 || t == T_MAX) {
        mon_flag(F_EXTREME);
    }
    {
        int64_t sod = t % 86400;
        bool edge = sod == 0 || sod == 1 || sod == 86399;
        if (edge && ((c.d == 1 && sod <= 1) || (sod == 86399 && c.d == month_len(c.y, c.mo)))) {
            mon_flag(F_MONTH_BOUNDARY);
            ++s_k[K_MONTH_BOUNDARIES];
            if ((c.mo == 1 && c.d == 1) || (c.mo == 12 && c.d == 31)) {
                mon_flag(F_YEAR_BOUNDARY);
            }
        }
    }
    s_py_on = s_py && ((iflags & I_SPECIAL) ||
                       (s_py_written < s_py_budget && ((s_case * 64 + idx_in_case) % s_py_every) == 0));
    s_pylen = 0;

    /* constructors */
    unsigned ms = mon_chance(r, 1, 2) ? 0 : (unsigned)mon_range(r, 1, 999);
    static const double fracs[5] = {0.0, 0.0, 0.5, 0.25, 0.125};
    unsigned fk = (unsigned)mon_below(r, 5);
    if (ms || fracs[fk] != 0.0) {
        mon_flag(F_SUBSECOND_INIT);
    }
    struct aws_date_time dtm, dts;
    memset(&dtm, 0xA5, sizeof(dtm));
    memset(&dts, 0x5A, sizeof(dts));
    aws_date_time_init_epoch_millis(&dtm, (uint64_t)t * 1000u + ms);
    check_fields(&dtm, t, ms, "aws_date_time_init_epoch_millis");
    aws_date_time_init_epoch_secs(&dts, (double)t + fracs[fk]);
    check_fields(&dts, t, (unsigned)(fracs[fk] * 1000.0), "aws_date_time_init_epoch_secs");
    if (aws_date_time_diff(&dtm, &dts) != 0) {
        mon_violation("C19:diff", "t=%lld: aws_date_time_diff of two views of the same second = %lld", (long long)t,
                      (long long)aws_date_time_diff(&dtm, &dts));
    }
    dg_in(((uint64_t)ms << 8) ^ fk);
    if (s_py_on) {
        py_add("{\"case\":%llu,\"t\":%lld,\"lib\":[%u,%d,%u,%d,%u,%u,%u],\"txt\":[", (unsigned long long)s_case, (long long)t,
               (unsigned)aws_date_time_year(&dtm, false), (int)aws_date_time_month(&dtm, false) + 1,
               (unsigned)aws_date_time_month_day(&dtm, false), (int)aws_date_time_day_of_week(&dtm, false),
               (unsigned)aws_date_time_hour(&dtm, false), (unsigned)aws_date_time_minute(&dtm, false),
               (unsigned)aws_date_time_second(&dtm, false));
    }

    /* six renderings x four buffer regimes */
    char libtxt[R_COUNT][48];
    size_t liblen[R_COUNT];
    bool have[R_COUNT];
    for (int k = 0; k < R_COUNT; ++k) {
        char ref[48];
        size_t L = ref_text(k, &c, ref, sizeof(ref));
        const struct aws_date_time *dt = (k & 1) ? &dts : &dtm; /* sub-second part must not show */
        have[k] = check_format(dt, t, k, ref, L, B_LARGE, libtxt[k]);
        liblen[k] = L;
        check_format((k & 1) ? &dtm : &dts, t, k, ref, L, B_EXACT, NULL);
        check_format(dt, t, k, ref, L, B_EQ_LEN, NULL);
        check_format(dt, t, k, ref, L, B_SHORT, NULL);
        if (s_py_on) {
            py_add("%s\"%s\"", k ? "," : "", have[k] ? libtxt[k] : "?");
        }
    }
    if (s_py_on) {
        py_add("],\"parse\":[");
    }
    if (mon_sampling()) {
        mon_sample(" | t=%lld '%s' '%s'", (long long)t, have[R_RFC_FULL] ? libtxt[R_RFC_FULL] : "?",
                   have[R_BASIC_DATE] ? libtxt[R_BASIC_DATE] : "?");
    }

    /* round trips: parse(format(t)) in explicit and AUTO_DETECT mode */
    int64_t midnight = t - t % 86400;
    if (midnight != t) {
        mon_flag(F_DATE_ONLY_TRUNCATES);
    }
    static const char *kc[R_COUNT] = {"roundtrip:rfc822", "roundtrip:iso8601", "roundtrip:iso8601-basic", "roundtrip:rfc822-date",
                                      "roundtrip:iso8601-date", "roundtrip:iso8601-basic-date"};
    for (int k = 0; k < R_COUNT; ++k) {
        if (!have[k]) {
            continue; /* text already reported */
        }
        if (k == R_RFC_DATE) {
            rfc822_date_only(libtxt[k], liblen[k], t);
            continue;
        }
        int64_t want = k < 3 ? t : midnight;
        bool a = expect_parse(libtxt[k], liblen[k], R_FMT[k], want, kc[k], t);
        bool b = expect_parse(libtxt[k], liblen[k], AWS_DATE_FORMAT_AUTO_DETECT, want, kc[k], t);
        if (a && b) {
            ++s_case_roundtrips_ok;
            ++s_k[K_ROUNDTRIPS_OK];
        }
    }
    /* documented leniency between the two ISO constants: one cross parse per instant, rotating */
    {
        static const int iso_r[4] = {R_ISO_FULL, R_BASIC_FULL, R_ISO_DATE, R_BASIC_DATE};
        int k = iso_r[(idx_in_case + (unsigned)t) & 3];
        if (have[k]) {
            enum aws_date_format other =
                R_FMT[k] == AWS_DATE_FORMAT_ISO_8601 ? AWS_DATE_FORMAT_ISO_8601_BASIC : AWS_DATE_FORMAT_ISO_8601;
            ++s_k[K_CROSS_FORMAT_PARSES];
            expect_parse(libtxt[k], liblen[k], other, k < 3 ? t : midnight, "roundtrip:iso-cross-format", t);
        }
    }
    for (int v = 0; v < N_VARIANTS; ++v) {
        run_variant(t);
    }
    if (s_py_on) {
        py_add("]}\n");
        if (s_pylen < sizeof(s_pybuf) - 400) {
            fwrite(s_pybuf, 1, s_pylen, s_py);
            ++s_k[K_PY_RECORDS];
            ++s_py_written;
        }
        s_py_on = false;
    }
}

/* ------------------------------------------------------------------ cases */
static void year_case(int y) {
    struct mon_rng *r = &mon_case_rng;
    unsigned i = 0;
    for (int m = 1; m <= 12; ++m) {
        int64_t b = naive_secs(y, m, 1, 0, 0, 0);
        if (days_from_civil(y, m, 1) * 86400 != b) {
            mon_violation("C19:harness:calendar-selfcheck", "month start %d-%02d: table %lld, closed form %lld", y, m, (long long)b,
                          (long long)(days_from_civil(y, m, 1) * 86400));
            return;
        }
        run_instant(b - 1, i++, 0); /* skipped for 1970-01 (negative) */
        run_instant(b, i++, y == Y_MIN && m == 1 ? I_SPECIAL : 0);
        run_instant(b + 1, i++, 0);
    }
    /* Feb 28 -> Feb 29 / Mar 1 */
    int64_t f28 = naive_secs(y, 2, 28, 0, 0, 0);
    run_instant(f28, i++, 0);
    run_instant(f28 + 86399, i++, 0);
    run_instant(f28 + 86400, i++, y % 100 == 0 ? I_SPECIAL : 0); /* Feb 29 00:00:00 in leap years, else Mar 1 */
    run_instant(f28 + 86400 + (int64_t)mon_below(r, 86400), i++, 0);
    if (is_leap(y)) {
        run_instant(f28 + 2 * 86400 - 1, i++, 0); /* Feb 29 23:59:59 */
    }
    /* last second of the year (for 9999: the maximum) and a random instant of the year */
    int64_t ny = naive_secs(y + 1, 1, 1, 0, 0, 0);
    run_instant(ny - 1, i++, y == Y_MAX ? I_SPECIAL : 0);
    run_instant(naive_secs(y, 1, 1, 0, 0, 0) + (int64_t)mon_below(r, (uint64_t)(ny - naive_secs(y, 1, 1, 0, 0, 0))), i++, 0);
}

static void special_case(unsigned k) {
    struct mon_rng *r = &mon_case_rng;
    unsigned i = 0;
    int64_t list[64];
    size_t n = 0;
#define ADD(v) list[n++] = (int64_t)(v)
    switch (k) {
        case 0: {
            static const int64_t v[] = {0, 1, 2, 59, 60, 61, 3599, 3600, 3601, 86399, 86400, 86401, 31535999, 31536000};
            for (size_t j = 0; j < sizeof(v) / sizeof(v[0]); ++j) {
                ADD(v[j]);
            }
            break;
        }
        case 1:
            for (int d = -2; d <= 2; ++d) {
                ADD(2147483648LL + d);
                ADD(4294967296LL + d);
                ADD(2147483648LL * 1000 / 1000 + 86400 * d);
            }
            break;
        case 2:
            ADD(T_MAX);
            ADD(T_MAX - 1);
            ADD(T_MAX - 2);
            ADD(T_MAX - 59);
            ADD(T_MAX - 60);
            ADD(T_MAX - 3599);
            ADD(T_MAX - 3600);
            ADD(T_MAX - 86399);
            ADD(T_MAX - 86400);
            ADD(naive_secs(9999, 1, 1, 0, 0, 0));
            ADD(naive_secs(9999, 1, 1, 0, 0, 0) - 1);
            ADD(naive_secs(9999, 12, 31, 0, 0, 0));
            break;
        case 3: /* as_nanos leaves the uint64 range at 18446744073.709551615 s; int64 nanos at 9223372036.85 s */
            for (int d = -2; d <= 2; ++d) {
                ADD(18446744073LL + d);
                ADD(9223372036LL + d);
                ADD(18446744073LL * 1 + 86400LL * d);
            }
            break;
        case 4:
        case 5: {
            static const int ya[] = {2000, 2100, 2200, 2300, 2400, 2500};
            static const int yb[] = {2800, 3000, 4000, 5000, 8000, 9600, 9900};
            const int *ys = k == 4 ? ya : yb;
            size_t ny = k == 4 ? 6 : 7;
            for (size_t j = 0; j < ny; ++j) {
                int64_t f28 = naive_secs(ys[j], 2, 28, 0, 0, 0);
                ADD(f28 + 86399);
                ADD(f28 + 86400);
                ADD(f28 + 86400 + 43200);
                ADD(f28 + 2 * 86400 - 1);
                ADD(f28 + 2 * 86400);
                ADD(naive_secs(ys[j], 12, 31, 23, 59, 59));
                ADD(naive_secs(ys[j], 1, 1, 0, 0, 0));
            }
            break;
        }
        case 6: {
            static const int64_t v[] = {999999999LL, 1000000000LL, 1000000001LL, 9999999999LL, 10000000000LL, 10000000001LL,
                                        99999999999LL, 100000000000LL, 100000000001LL, 1234567890LL, 1700000000LL, 2000000000LL};
            for (size_t j = 0; j < sizeof(v) / sizeof(v[0]); ++j) {
                ADD(v[j]);
            }
            break;
        }
        case 7: {
            int64_t sun = naive_secs(2023, 11, 12, 12, 0, 0);
            for (int d = 0; d < 7; ++d) {
                ADD(sun + 86400 * d);
                ADD(naive_secs(2023, 11, 12, 0, 0, 0) + 86400 * d - 1);
            }
            ADD(naive_secs(1999, 12, 31, 23, 59, 59));
            ADD(naive_secs(2000, 1, 1, 0, 0, 0));
            ADD(naive_secs(2023, 11, 14, 22, 13, 20));
            break;
        }
        case 8:
            for (int sh = 33; sh <= 37; ++sh) {
                for (int d = -1; d <= 1; ++d) {
                    ADD((1LL << sh) + d);
                }
            }
            break;
        default:
            for (int j = 0; j < 12; ++j) {
                int y = (int)mon_range(r, Y_MIN, Y_MAX - 1);
                ADD(naive_secs(y, 12, 31, 23, 59, 59));
                ADD(naive_secs(y + 1, 1, 1, 0, 0, 0));
            }
            break;
    }
#undef ADD
    for (size_t j = 0; j < n; ++j) {
        run_instant(list[j], i++, I_SPECIAL);
    }
}

static int64_t clamp_t(int64_t t) {
    return t < 0 ? 0 : (t > T_MAX ? T_MAX : t);
}

static void random_case(void) {
    struct mon_rng *r = &mon_case_rng;
    for (unsigned i = 0; i < RANDOM_BLOCK; ++i) {
        int64_t t;
        switch ((unsigned)mon_below(r, 9)) {
            case 8: { /* readings that do not exist as LOCAL time in zones with daylight saving: 01:00..03:59 in the weeks in
                       * which the US, EU and southern-hemisphere rules switch (the text says UTC or carries an offset, so
                       * the process's zone must not matter) */
                static const int MD[][2] = {{3, 8}, {3, 25}, {10, 1}, {10, 25}, {11, 1}, {4, 1}, {9, 24}};
                int y = (int)mon_range(r, 1970, 2100);
                unsigned k = (unsigned)mon_below(r, 7);
                t = clamp_t(naive_secs(y, MD[k][0], MD[k][1] + (int)mon_below(r, 7), 1 + (int)mon_below(r, 3), (int)mon_below(r, 60), (int)mon_below(r, 60)));
                mon_flag(F_DST_GAP_READING);
                break;
            }
            case 0:
            case 1:
                t = (int64_t)mon_range(r, 0, (uint64_t)T_MAX);
                break;
            case 2:
                t = (int64_t)mon_below(r, 4102444800ULL); /* 1970 .. 2099 */
                break;
            case 3: { /* any day boundary */
                int64_t day = (int64_t)mon_range(r, 0, (uint64_t)(T_MAX / 86400));
                t = clamp_t(day * 86400 + (int64_t)mon_range(r, 0, 2) - 1);
                break;
            }
            case 4: { /* built from fields: the other direction of the calendar */
                int y = (int)mon_range(r, Y_MIN, Y_MAX);
                int m = (int)mon_range(r, 1, 12);
                int d = (int)mon_range(r, 1, (uint64_t)month_len(y, m));
                t = naive_secs(y, m, d, (int)mon_below(r, 24), (int)mon_below(r, 60), (int)mon_below(r, 60));
                break;
            }
            case 5: { /* near a month boundary: minute and hour carries */
                int y = (int)mon_range(r, Y_MIN, Y_MAX);
                int m = (int)mon_range(r, 1, 12);
                t = clamp_t(naive_secs(y, m, 1, 0, 0, 0) + (int64_t)mon_range(r, 0, 7200) - 3600);
                break;
            }
            case 6: { /* Feb 29 of a leap year */
                int y = (int)mon_range(r, 1972 / 4, Y_MAX / 4) * 4;
                if (!is_leap(y)) {
                    y += 4;
                }
                t = clamp_t(naive_secs(y, 2, 29, 0, 0, 0) + (int64_t)mon_below(r, 86400));
                break;
            }
            default: /* around the 32-bit roll-overs */
                t = (mon_chance(r, 1, 2) ? 2147483648LL : 4294967296LL) + (int64_t)mon_range(r, 0, 200000) - 100000;
                break;
        }
        run_instant(t, i, 0);
    }
}

static void run_case(uint64_t c) {
    s_case = c;
    s_din = 0x1234567 + c;
    s_dres = 0;
    s_case_instants = s_case_variants_ok = s_case_roundtrips_ok = 0;
    memset(s_k, 0, sizeof(s_k));
    if (c < N_YEAR_CASES) {
        mon_fp(1);
        mon_sample("year %d:", (int)(Y_MIN + c));
        year_case((int)(Y_MIN + c));
    } else if (c < FIRST_RANDOM_CASE) {
        mon_fp(2);
        mon_sample("special block %u:", (unsigned)(c - N_YEAR_CASES));
        special_case((unsigned)(c - N_YEAR_CASES));
    } else {
        mon_fp(3);
        mon_sample("random block:");
        random_case();
    }
    for (int k = 0; k < K_COUNT; ++k) {
        if (s_k[k]) {
            mon_count(K_NAME[k], s_k[k]);
        }
    }
    if (s_xd) {
        uint64_t rec[3] = {c, s_din, s_dres};
        fwrite(rec, sizeof(rec), 1, s_xd);
    }
}

int main(int argc, char **argv) {
    mon_init(argc, argv, "C19");
    aws_common_library_init(aws_default_allocator());
    for (int i = 0; i < F_NFLAGS; ++i) {
        mon_flag_name(i, FLAG_NAMES[i]);
    }
    s_tz_off = mon_run.param[0];
    s_py_every = mon_run.param[1] > 0 ? (unsigned)mon_run.param[1] : 16;
    s_py_budget = mon_run.param[2] > 0 ? (unsigned)mon_run.param[2] : 8000;
    s_dst_zone = mon_run.param[3] != 0;
    naive_init();
    /* the stage pins TZ; the local-view oracle and the "identical in UTC terms" comparison depend on it */
    {
        time_t zero = 0, later = 4102444800LL; /* 2100-01-01 */
        struct tm a, b;
        localtime_r(&zero, &a);
        localtime_r(&later, &b);
        if (s_dst_zone) {
            /* a zone WITH daylight saving (POSIX rule string, no tzdata needed): only the UTC-side oracles apply */
            time_t jul = 1562000000; /* 2019-07-01 */
            struct tm c2;
            localtime_r(&jul, &c2);
            localtime_r(&later, &b);
            time_t jan = 1547000000; /* 2019-01-09 */
            localtime_r(&jan, &a);
            if (a.tm_isdst == c2.tm_isdst) {
                fprintf(stderr, "mon: C19 DST stage: TZ '%s' has no daylight saving\n", getenv("TZ") ? getenv("TZ") : "(unset)");
                return 2;
            }
            mon_count("tz_confirmed_dst_zone_processes", 1);
        } else if (a.tm_gmtoff != s_tz_off || b.tm_gmtoff != s_tz_off || a.tm_isdst > 0 || b.tm_isdst > 0) {
            fprintf(stderr, "mon: C19 expects a fixed UTC offset of %ld s (--p0) but the process's TZ ('%s') gives %ld / %ld s\n",
                    s_tz_off, getenv("TZ") ? getenv("TZ") : "(unset)", (long)a.tm_gmtoff, (long)b.tm_gmtoff);
            return 2;
        }
        if (!s_dst_zone) {
            mon_count(s_tz_off == 0 ? "tz_confirmed_utc_processes" : "tz_confirmed_nonutc_processes", 1);
        }
    }
    if (mon_run.outdir) {
        char path[1024];
        snprintf(path, sizeof(path), "%s/xd.%d", mon_run.outdir, mon_run.slice);
        s_xd = fopen(path, "wb");
        snprintf(path, sizeof(path), "%s/py.%d", mon_run.outdir, mon_run.slice);
        s_py = fopen(path, "w");
    }
    uint64_t c;
    while (mon_next_case(&c)) {
        mon_case_begin(c);
        run_case(c);
        /* non-trivial: the case formatted and re-parsed at least one instant in all six renderings (five must
         * round-trip, RFC 822 date-only is the recorded finding), parsed at least one offset/designator string to
         * the right instant, and observed at least 4 distinct mechanisms */
        bool nontrivial = s_case_instants > 0 && s_case_roundtrips_ok >= 5 * s_case_instants && s_case_variants_ok > 0 &&
                          mon_flag_count() >= 4;
        mon_case_end(nontrivial);
    }
    if (s_xd) {
        fclose(s_xd);
    }
    if (s_py) {
        fclose(s_py);
    }
    return mon_finish();
}
