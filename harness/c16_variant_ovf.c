/*
 * C16 variant translation unit: math.gcc_builtin.inl + math.gcc_overflow.inl included directly
 *
 * The dispatcher is bypassed: the include guards of all implementation files are pre-defined, then the
 * two files under test are included by hand.
 * The generic part of math.inl (subtraction, size_t dispatch, power-of-two helpers, min/max) and
 * clock.inl (time-unit conversion) are compiled on top of the implementation chosen here, so they are
 * exercised with every variant underneath.  Everything from the library headers is `static inline`
 * (AWS_STATIC_IMPL), so the four TUs do not collide at link time; c16_variant.h exports one table.
 */
/* neutralise every implementation file the dispatcher in math.inl could pick ... */
#define AWS_COMMON_MATH_GCC_OVERFLOW_INL
#define AWS_COMMON_MATH_GCC_BUILTIN_INL
#define AWS_COMMON_MATH_GCC_X64_ASM_INL
#define AWS_COMMON_MATH_FALLBACK_INL
#include <aws/common/math.h> /* declarations + generic part of math.inl; no add/mul/clz/ctz bodies yet */
/* ... and include the implementation under test directly */
#undef AWS_COMMON_MATH_GCC_BUILTIN_INL
#undef AWS_COMMON_MATH_GCC_OVERFLOW_INL
#include <aws/common/math.gcc_builtin.inl>
#include <aws/common/math.gcc_overflow.inl>

#define C16_VARIANT_NAME ovf
#define C16_VARIANT_WHAT "math.gcc_builtin.inl + math.gcc_overflow.inl (__builtin_*_overflow)"
#include "c16_variant.h"
