/*
 * C09 - array list and intrusive linked list keep exact sequence contents
 * (DESIGN.md section 5, C09).
 *
 *   --mode array  : two array lists (dynamic or fenced static storage) driven against a reference
 *                   vector of element ids with a per-position "defined" bit; every operation is
 *                   followed by a full comparison of both lists.
 *   --mode linked : a pool of nodes and three lists driven against three arrays of node ids; every
 *                   operation is followed by full forward and backward walks of all lists.
 *
 * Documented behaviour encoded in the model (not alarms):
 *   - aws_array_list_set_at beyond the length leaves the gap elements unspecified: those positions
 *     carry defined=0 and their bytes are never compared (they keep travelling with erase/sort/copy).
 *   - slots vacated by pop_back/erase/pop_front_n/clear are beyond the length; the implementation
 *     zero-fills the slot in pop_back, the header does not promise it: it is counted, not judged.
 *   - growth: header of init_dynamic/set_at: "grow by a factor of 2"; source comment of
 *     ensure_capacity: exact size if the index is beyond the doubled size. The model tracks the byte
 *     capacity under that rule (own violation key C09:array:growth-rule).
 *   - aws_array_list_shrink_to_fit on an empty dynamic list drops the buffer without releasing it
 *     (DESIGN section 9: outside the property). Counted (counter + note); the harness releases the
 *     dropped block itself so that long runs stay small. Allocator balance is NOT asserted.
 */
#include "mon.h"

#include <aws/common/array_list.h>
#include <aws/common/common.h>
#include <aws/common/error.h>
#include <aws/common/linked_list.h>

#include <stdlib.h>

/* ====================================================================================== array */

#define MAX_ITEM 300
#define MAXN 400      /* reference vector capacity */
#define SOFT_MAX 200  /* growth operations are redirected to removals above this length */

enum {
    F_GROW_DOUBLE,
    F_GROW_EXACT,
    F_GAP_CREATED,
    F_STATIC_FULL_REFUSED,
    F_STATIC_INDEX_REFUSED,
    F_OVERFLOW_INDEX_REFUSED,
    F_ERASE_MIDDLE,
    F_POP_FRONT_N_PARTIAL,
    F_POP_FRONT_N_HUGE,
    F_HUGE_LIST,
    F_GIANT_ERASE,
    F_GIANT_SHRINK,
    F_SLICED_SWAP,
    F_SORT_TIES,
    F_COPY_REALLOC,
    F_COPY_STATIC_TOO_SMALL,
    F_COPY_FITS,
    F_SHRINK_REALLOC,
    F_SHRINK_STATIC_REFUSED,
    F_SWAP_CONTENTS,
    F_EMPTY_REFUSED,
    F_INVALID_INDEX_REFUSED,
    F_PUSH_FRONT_SHIFT,
    F_SECURE_ZERO_SEEN,
    F_SHRINK_EMPTY_DROP,
    F_REINIT,
    F_FROM_INITIALIZED,
    F_GAP_MOVED,
    /* linked mode */
    F_L_SWAP_ADJ_AB = 32,
    F_L_SWAP_ADJ_BA,
    F_L_SWAP_NONADJ,
    F_L_SWAP_IDENT,
    F_L_SWAP_FIRST_LAST,
    F_L_SWAPC_ONE_EMPTY,
    F_L_SWAPC_BOTH_EMPTY,
    F_L_SWAPC_BOTH_FULL,
    F_L_MOVE_BACK_EMPTY_SRC,
    F_L_MOVE_BACK_EMPTY_DST,
    F_L_MOVE_BACK_BOTH,
    F_L_MOVE_FRONT_EMPTY_SRC,
    F_L_MOVE_FRONT_EMPTY_DST,
    F_L_MOVE_FRONT_BOTH,
    F_L_INSERT_AT_SENTINEL,
    F_L_INSERT_MIDDLE,
    F_L_REMOVE_ONLY,
    F_L_REMOVE_MIDDLE,
    F_L_POP_TO_EMPTY,
};

struct al {
    struct aws_array_list l;
    bool is_static;
    void *store;  /* fenced caller-provided storage */
    size_t scap;  /* its capacity in items */
    size_t n;     /* reference length */
    size_t cs;    /* reference byte capacity (current_size) */
    uint64_t id[MAXN];
    uint8_t def[MAXN];
};

static struct al s_al[2];
static size_t s_item;
static uint64_t s_next_id;
static uint8_t *s_val; /* fenced, exactly item_size bytes: argument of push/set */
static uint8_t *s_out; /* fenced, exactly item_size bytes: result of get/front/back */
static const char *s_op = "";
static uint64_t s_opno;
static struct aws_allocator *s_alloc;
static uint64_t s_dropped; /* shrink_to_fit on an empty dynamic list: buffer dropped without release */

/* release observation */
static void *s_rel_last[4];
static unsigned s_rel_n;
static void *s_secure_ptr;
static int s_secure_state; /* 0 not seen, 1 zero, 2 non-zero */
static size_t s_secure_bad_at;

static void release_hook(void *payload, size_t size, void *user) {
    (void)user;
    s_rel_last[s_rel_n++ & 3] = payload;
    if (s_secure_ptr && payload == s_secure_ptr) {
        s_secure_state = 1;
        const uint8_t *p = payload;
        for (size_t i = 0; i < size; ++i) {
            if (p[i]) {
                s_secure_state = 2;
                s_secure_bad_at = i;
                break;
            }
        }
    }
}

static bool was_released(void *p) {
    for (unsigned i = 0; i < 4 && i < s_rel_n; ++i) {
        if (s_rel_last[i] == p) {
            return true;
        }
    }
    return false;
}

static inline uint64_t mix64(uint64_t z) {
    z = (z ^ (z >> 30)) * 0xBF58476D1CE4E5B9ULL;
    z = (z ^ (z >> 27)) * 0x94D049BB133111EBULL;
    return z ^ (z >> 31);
}

/* element bytes h(id, offset) */
static void elem_bytes(uint64_t id, uint8_t *out, size_t item) {
    for (size_t i = 0; i < item; i += 8) {
        uint64_t w = mix64(id * 0x9E3779B97F4A7C15ULL + (i + 8) * 0xD6E8FEB86659FD93ULL);
        size_t k = item - i < 8 ? item - i : 8;
        memcpy(out + i, &w, k);
    }
}

static bool elem_equals(uint64_t id, const uint8_t *got, size_t item) {
    uint8_t tmp[MAX_ITEM + 8];
    elem_bytes(id, tmp, item);
    return memcmp(tmp, got, item) == 0;
}

/* total preorder with many ties: high nibble of the first byte */
static int s_cmp(const void *a, const void *b) {
    int ka = *(const uint8_t *)a >> 4, kb = *(const uint8_t *)b >> 4;
    return (ka > kb) - (ka < kb);
}

static bool index_overflows(size_t idx, size_t item, size_t *need) {
    size_t inc;
    if (__builtin_add_overflow(idx, (size_t)1, &inc)) {
        return true;
    }
    return __builtin_mul_overflow(inc, item, need);
}

static uint64_t new_elem(void) {
    uint64_t id = s_next_id++;
    elem_bytes(id, s_val, s_item);
    return id;
}

/* ---- snapshots for "failed / read-only operation leaves the list byte-identical" */
struct snap {
    struct aws_array_list hdr;
    uint8_t *bytes;
};

static void snap_take(const struct al *a, struct snap *s) {
    s->hdr = a->l;
    s->bytes = NULL;
    if (a->l.data && a->l.current_size) {
        s->bytes = malloc(a->l.current_size);
        memcpy(s->bytes, a->l.data, a->l.current_size);
    }
}

static void snap_same(const struct al *a, struct snap *s, const char *key, const char *what) {
    if (memcmp(&s->hdr, &a->l, sizeof(s->hdr))) {
        mon_violation(key, "%s (list %d): list header changed: length %zu->%zu current_size %zu->%zu item_size %zu->%zu "
                      "data %s alloc %s", what, (int)(a - s_al), s->hdr.length, a->l.length, s->hdr.current_size,
                      a->l.current_size, s->hdr.item_size, a->l.item_size, s->hdr.data == a->l.data ? "same" : "changed",
                      s->hdr.alloc == a->l.alloc ? "same" : "changed");
    } else if (s->bytes && memcmp(s->bytes, a->l.data, s->hdr.current_size)) {
        size_t at = 0;
        while (s->bytes[at] == ((uint8_t *)a->l.data)[at]) {
            ++at;
        }
        mon_violation(key, "%s (list %d): storage byte %zu (element %zu, length %zu, item_size %zu) changed %02x->%02x", what,
                      (int)(a - s_al), at, at / s_item, a->n, s_item, s->bytes[at], ((uint8_t *)a->l.data)[at]);
    }
    free(s->bytes);
    s->bytes = NULL;
}

static void snap_drop(struct snap *s) {
    free(s->bytes);
    s->bytes = NULL;
}

/* ---- full comparison of one list with its reference */
static void check_list(struct al *a) {
    int which = (int)(a - s_al);
    struct aws_array_list *l = &a->l;
    if (!aws_array_list_is_valid(l)) {
        mon_violation("C09:array:is-valid", "after %s: aws_array_list_is_valid(list %d) is false (length %zu current_size %zu "
                      "item_size %zu data %s)", s_op, which, l->length, l->current_size, l->item_size, l->data ? "set" : "NULL");
        return;
    }
    MON_CHECK(l->item_size == s_item, "C09:array:header", "after %s: item_size of list %d is %zu, expected %zu", s_op, which,
              l->item_size, s_item);
    MON_CHECK(l->alloc == (a->is_static ? NULL : s_alloc), "C09:array:header", "after %s: allocator of list %d changed", s_op, which);
    if (l->item_size != s_item) {
        return;
    }
    size_t len = aws_array_list_length(l);
    size_t cap = aws_array_list_capacity(l);
    if (len != a->n) {
        mon_violation("C09:array:length", "after %s: list %d has length %zu, reference %zu", s_op, which, len, a->n);
        return;
    }
    MON_CHECK(cap == l->current_size / s_item, "C09:array:capacity", "after %s: capacity() %zu != current_size %zu / item_size %zu",
              s_op, cap, l->current_size, s_item);
    if (len > cap || len * s_item > l->current_size) {
        mon_violation("C09:array:capacity", "after %s: list %d length %zu exceeds capacity %zu (current_size %zu, item_size %zu)",
                      s_op, which, len, cap, l->current_size, s_item);
        return;
    }
    if (a->is_static) {
        MON_CHECK(l->data == a->store, "C09:array:static-storage", "after %s: static list %d no longer uses the caller's storage", s_op,
                  which);
        MON_CHECK(l->current_size == a->scap * s_item, "C09:array:static-grew", "after %s: static list %d current_size %zu, caller "
                  "provided %zu items of %zu bytes", s_op, which, l->current_size, a->scap, s_item);
        int bad = mon_fence_check(a->store);
        MON_CHECK(bad == 0, "C09:array:static-canary", "after %s: %d canary bytes next to the storage of static list %d damaged "
                  "(capacity %zu items of %zu bytes, length %zu)", s_op, bad, which, a->scap, s_item, len);
        if (l->data != a->store) {
            return;
        }
    } else {
        if (l->current_size != a->cs) {
            mon_violation("C09:array:growth-rule", "after %s: dynamic list %d current_size %zu bytes, reference rule gives %zu "
                          "(item_size %zu, length %zu)", s_op, which, l->current_size, a->cs, s_item, len);
            a->cs = l->current_size; /* keep in step */
        }
        if (l->data) {
            size_t real = mon_guard_block_size(l->data);
            if (real != l->current_size) {
                mon_violation("C09:array:current-size-vs-block", "after %s: dynamic list %d claims current_size %zu but its block "
                              "has %zu bytes", s_op, which, l->current_size, real);
                return;
            }
        }
    }
    const uint8_t *d = l->data;
    for (size_t i = 0; i < len; ++i) {
        if (a->def[i] && !elem_equals(a->id[i], d + i * s_item, s_item)) {
            uint8_t exp[MAX_ITEM + 8];
            elem_bytes(a->id[i], exp, s_item);
            size_t at = 0;
            while (exp[at] == d[i * s_item + at]) {
                ++at;
            }
            /* which reference element does it look like? */
            long looks = -1;
            for (size_t j = 0; j < len; ++j) {
                if (a->def[j] && elem_equals(a->id[j], d + i * s_item, s_item)) {
                    looks = (long)j;
                    break;
                }
            }
            mon_violation("C09:array:contents", "after %s: list %d element %zu of %zu (item_size %zu) differs from the reference at "
                          "byte %zu: got %s expected %s (bytes equal reference element %ld)", s_op, which, i, len, s_item, at,
                          mon_hex(d + i * s_item, s_item, 20), mon_hex(exp, s_item, 20), looks);
            return;
        }
    }
    /* through the API: front, back, one rotating index with get_at and get_at_ptr */
    if (len) {
        memset(s_out, 0xEE, s_item);
        if (aws_array_list_front(l, s_out) != AWS_OP_SUCCESS || (a->def[0] && !elem_equals(a->id[0], s_out, s_item))) {
            mon_violation("C09:array:front", "after %s: front() of list %d (length %zu) failed or returned %s", s_op, which, len,
                          mon_hex(s_out, s_item, 20));
        }
        memset(s_out, 0xEE, s_item);
        if (aws_array_list_back(l, s_out) != AWS_OP_SUCCESS || (a->def[len - 1] && !elem_equals(a->id[len - 1], s_out, s_item))) {
            mon_violation("C09:array:back", "after %s: back() of list %d (length %zu) failed or returned %s", s_op, which, len,
                          mon_hex(s_out, s_item, 20));
        }
        size_t i = (size_t)(s_opno * 7 + (uint64_t)which) % len;
        memset(s_out, 0xEE, s_item);
        void *p = NULL;
        if (aws_array_list_get_at(l, s_out, i) != AWS_OP_SUCCESS || (a->def[i] && !elem_equals(a->id[i], s_out, s_item))) {
            mon_violation("C09:array:get-at", "after %s: get_at(%zu) of list %d (length %zu) failed or returned %s", s_op, i, which,
                          len, mon_hex(s_out, s_item, 20));
        }
        if (aws_array_list_get_at_ptr(l, &p, i) != AWS_OP_SUCCESS || p != (void *)(d + i * s_item)) {
            mon_violation("C09:array:get-at-ptr", "after %s: get_at_ptr(%zu) of list %d failed or does not point at element %zu", s_op,
                          i, which, i);
        }
        MON_CHECK(mon_fence_check(s_out) == 0, "C09:array:out-canary", "after %s: get/front/back wrote outside the item_size-byte "
                  "result buffer", s_op);
    }
}

static uint64_t s_len_ge8, s_len_ge32, s_len_max, s_len_sum, s_len_checks;

static void check_all(void) {
    check_list(&s_al[0]);
    check_list(&s_al[1]);
    for (int k = 0; k < 2; ++k) {
        size_t n = s_al[k].n;
        s_len_ge8 += n >= 8;
        s_len_ge32 += n >= 32;
        s_len_sum += n;
        ++s_len_checks;
        if (n > s_len_max) {
            s_len_max = n;
        }
    }
    mon_guard_check_live("C09:array");
}

/* ---- reference operations */
static void ref_ensure(struct al *a, size_t idx) {
    size_t need = (idx + 1) * s_item;
    if (!a->is_static && a->cs < need) {
        if (a->cs * 2 > need) {
            a->cs *= 2;
            mon_flag(F_GROW_DOUBLE);
        } else {
            if (a->cs * 2 < need) {
                mon_flag(F_GROW_EXACT);
            } else {
                mon_flag(F_GROW_DOUBLE);
            }
            a->cs = need;
        }
    }
}

static void ref_remove(struct al *a, size_t idx) {
    for (size_t j = idx; j + 1 < a->n; ++j) {
        if (!a->def[j + 1]) {
            mon_flag(F_GAP_MOVED);
        }
        a->id[j] = a->id[j + 1];
        a->def[j] = a->def[j + 1];
    }
    --a->n;
}

static void ref_insert_front(struct al *a, uint64_t id) {
    for (size_t j = a->n; j > 0; --j) {
        if (!a->def[j - 1]) {
            mon_flag(F_GAP_MOVED);
        }
        a->id[j] = a->id[j - 1];
        a->def[j] = a->def[j - 1];
    }
    a->id[0] = id;
    a->def[0] = 1;
    ++a->n;
}

/* would storing at idx succeed, according to the documentation? */
enum { EXP_OK, EXP_OVERFLOW, EXP_STATIC_BOUNDS };
static int expect_store(const struct al *a, size_t idx) {
    size_t need;
    if (index_overflows(idx, s_item, &need)) {
        return EXP_OVERFLOW;
    }
    if (a->is_static && need > a->scap * s_item) {
        return EXP_STATIC_BOUNDS;
    }
    return EXP_OK;
}

static void al_init(struct al *a, struct mon_rng *r) {
    memset(a, 0, sizeof(*a));
    a->is_static = mon_chance(r, 1, 3);
    if (a->is_static) {
        a->scap = 1 + (size_t)mon_below(r, mon_chance(r, 1, 2) ? 8 : 40);
        a->store = mon_fence_new(a->scap * s_item);
        a->cs = a->scap * s_item;
        bool from_init = mon_chance(r, 1, 4);
        mon_fp(100 + a->scap * 2 + from_init);
        if (from_init) {
            for (size_t i = 0; i < a->scap; ++i) {
                a->id[i] = s_next_id++;
                a->def[i] = 1;
                elem_bytes(a->id[i], (uint8_t *)a->store + i * s_item, s_item);
            }
            a->n = a->scap;
            aws_array_list_init_static_from_initialized(&a->l, a->store, a->scap, s_item);
            mon_flag(F_FROM_INITIALIZED);
            mon_sample(" [%d:static-from-initialized %zu]", (int)(a - s_al), a->scap);
        } else {
            aws_array_list_init_static(&a->l, a->store, a->scap, s_item);
            mon_sample(" [%d:static %zu]", (int)(a - s_al), a->scap);
        }
    } else {
        size_t initial = (size_t)mon_below(r, 9);
        mon_fp(50 + initial);
        if (aws_array_list_init_dynamic(&a->l, s_alloc, initial, s_item) != AWS_OP_SUCCESS) {
            mon_violation("C09:array:init", "init_dynamic(%zu items of %zu bytes) failed, error %d", initial, s_item, aws_last_error());
        }
        a->cs = initial * s_item;
        mon_sample(" [%d:dynamic %zu]", (int)(a - s_al), initial);
    }
}

static void al_clean_up(struct al *a, bool secure) {
    void *data = a->l.data;
    bool dyn = !a->is_static;
    s_secure_ptr = (secure && dyn) ? data : NULL;
    s_secure_state = 0;
    s_rel_n = 0;
    memset(s_rel_last, 0, sizeof(s_rel_last));
    if (secure) {
        aws_array_list_clean_up_secure(&a->l);
    } else {
        aws_array_list_clean_up(&a->l);
    }
    if (secure && dyn && data) {
        if (s_secure_state == 1) {
            mon_flag(F_SECURE_ZERO_SEEN);
        } else if (s_secure_state == 2) {
            mon_violation("C09:array:clean-up-secure-not-erased", "clean_up_secure released the storage with non-zero byte at offset "
                          "%zu (item_size %zu)", s_secure_bad_at, s_item);
        }
    }
    if (dyn && data && !was_released(data)) {
        mon_count("clean_up_without_release", 1);
    }
    s_secure_ptr = NULL;
    MON_CHECK(AWS_IS_ZEROED(a->l), "C09:array:clean-up-not-reset", "clean_up%s left a non-zero list structure", secure ? "_secure" : "");
    if (a->store) {
        MON_CHECK(mon_fence_check(a->store) == 0, "C09:array:static-canary", "canary next to static storage damaged at clean_up");
        mon_fence_free(a->store);
        a->store = NULL;
    }
}

/* a very large index; if must_overflow the byte size (index+1)*item_size does not fit size_t */
static size_t huge_index(struct mon_rng *r, bool must_overflow) {
    for (;;) {
        size_t idx;
        switch (mon_below(r, 7)) {
            case 0: idx = SIZE_MAX; break;
            case 1: idx = SIZE_MAX - 1 - (size_t)mon_below(r, 3); break;
            case 2: idx = SIZE_MAX / s_item; break;
            case 3: idx = SIZE_MAX / s_item + 1 + (size_t)mon_below(r, 3); break;
            case 4: idx = SIZE_MAX / s_item - 1; break; /* largest index whose byte size still fits */
            case 5: idx = SIZE_MAX / 2 + (size_t)mon_below(r, 2); break;
            default: idx = ((size_t)1 << 32) + (size_t)mon_below(r, 1000); break;
        }
        size_t need;
        if (!must_overflow || index_overflows(idx, s_item, &need)) {
            return idx;
        }
    }
}

static void expect_err(int rc, int want_err, const char *what) {
    if (rc == AWS_OP_SUCCESS) {
        return; /* reported by the caller */
    }
    MON_CHECK(aws_last_error() == want_err, "C09:array:error-code", "%s: error %d (%s), documented %d (%s)", what, aws_last_error(),
              aws_error_name(aws_last_error()), want_err, aws_error_name(want_err));
}

static void array_op(struct mon_rng *r, unsigned phase) {
    struct al *a = &s_al[mon_chance(r, 2, 3) ? 0 : 1];
    struct al *b = a == &s_al[0] ? &s_al[1] : &s_al[0];
    int which = (int)(a - s_al);
    struct aws_array_list *l = &a->l;
    unsigned pick = (unsigned)mon_below(r, 100);
    struct snap sn, sn2;
    int rc;
    /* phases 0 and 2 mostly grow, phase 1 is mixed, phase 3 mostly drains; lists above SOFT_MAX only shrink */
    unsigned drain_pct = phase == 3 ? 60 : phase == 1 ? 25 : 0;
    if (pick < 43 && (a->n >= SOFT_MAX || mon_below(r, 100) < drain_pct)) {
        unsigned k = (unsigned)mon_below(r, 3);
        pick = k == 0 ? 43 : k == 1 ? 60 : 67; /* pop_back / erase / pop_front_n */
    }
    mon_poison_last_error(&mon_case_rng);
    if (pick < 23) { /* ------------------------------------------------ push_back */
        s_op = "push_back";
        mon_fp(1 + 64 * (uint64_t)which);
        uint64_t id = new_elem();
        int e = expect_store(a, a->n);
        if (e != EXP_OK) {
            snap_take(a, &sn);
        }
        rc = aws_array_list_push_back(l, s_val);
        mon_sample(" %d.push_back%s", which, rc ? "=ERR" : "");
        if (e != EXP_OK) {
            mon_flag(F_STATIC_FULL_REFUSED);
            if (rc == AWS_OP_SUCCESS) {
                mon_violation("C09:array:static-accepted", "push_back on full static list (%zu of %zu items) succeeded", a->n, a->scap);
                snap_drop(&sn);
            } else {
                expect_err(rc, AWS_ERROR_LIST_EXCEEDS_MAX_SIZE, "push_back on full static list");
                snap_same(a, &sn, "C09:array:failed-op-changed-list", "failed push_back");
            }
        } else if (rc != AWS_OP_SUCCESS) {
            mon_violation("C09:array:op-failed", "push_back failed with error %d (%s list, length %zu)", aws_last_error(),
                          a->is_static ? "static" : "dynamic", a->n);
        } else {
            ref_ensure(a, a->n);
            a->id[a->n] = id;
            a->def[a->n] = 1;
            ++a->n;
        }
    } else if (pick < 31) { /* ----------------------------------------- push_front */
        s_op = "push_front";
        mon_fp(2 + 64 * (uint64_t)which);
        uint64_t id = new_elem();
        int e = expect_store(a, a->n);
        if (e != EXP_OK) {
            snap_take(a, &sn);
        }
        rc = aws_array_list_push_front(l, s_val);
        mon_sample(" %d.push_front%s", which, rc ? "=ERR" : "");
        if (e != EXP_OK) {
            mon_flag(F_STATIC_FULL_REFUSED);
            if (rc == AWS_OP_SUCCESS) {
                mon_violation("C09:array:static-accepted", "push_front on full static list (%zu of %zu items) succeeded", a->n, a->scap);
                snap_drop(&sn);
            } else {
                expect_err(rc, AWS_ERROR_LIST_EXCEEDS_MAX_SIZE, "push_front on full static list");
                snap_same(a, &sn, "C09:array:failed-op-changed-list", "failed push_front");
            }
        } else if (rc != AWS_OP_SUCCESS) {
            mon_violation("C09:array:op-failed", "push_front failed with error %d (%s list, length %zu)", aws_last_error(),
                          a->is_static ? "static" : "dynamic", a->n);
        } else {
            if (a->n) {
                mon_flag(F_PUSH_FRONT_SHIFT);
            }
            ref_ensure(a, a->n);
            ref_insert_front(a, id);
        }
    } else if (pick < 43) { /* ----------------------------------------- set_at */
        s_op = "set_at";
        size_t idx;
        unsigned cls = (unsigned)mon_below(r, 20);
        if (cls < 7 && a->n) {
            idx = (size_t)mon_below(r, a->n);
        } else if (cls < 10) {
            idx = a->n;
        } else if (cls < 16) {
            idx = a->n + 1 + (size_t)mon_below(r, 5);
        } else if (cls < 18) {
            idx = a->n + 6 + (size_t)mon_below(r, 35);
        } else {
            idx = huge_index(r, !a->is_static); /* a dynamic list would really allocate: only overflowing sizes */
        }
        mon_fp(3 + 64 * (uint64_t)which + 256 * (uint64_t)(idx < a->n ? 0 : idx - a->n < 64 ? 1 + idx - a->n : 99));
        uint64_t id = new_elem();
        int e = expect_store(a, idx);
        if (e != EXP_OK) {
            snap_take(a, &sn);
        }
        rc = aws_array_list_set_at(l, s_val, idx);
        mon_sample(" %d.set_at(%zu)%s", which, idx, rc ? "=ERR" : "");
        if (e != EXP_OK) {
            mon_flag(e == EXP_OVERFLOW ? F_OVERFLOW_INDEX_REFUSED : F_STATIC_INDEX_REFUSED);
            if (rc == AWS_OP_SUCCESS) {
                mon_violation("C09:array:bad-index-accepted", "set_at(index %zu) succeeded on %s list (item_size %zu, capacity %zu items)",
                              idx, a->is_static ? "static" : "dynamic", s_item, a->cs / s_item);
                snap_drop(&sn);
            } else {
                if (e == EXP_STATIC_BOUNDS) {
                    expect_err(rc, AWS_ERROR_INVALID_INDEX, "set_at past the bounds of a static list");
                }
                snap_same(a, &sn, "C09:array:failed-op-changed-list", "failed set_at");
            }
        } else if (rc != AWS_OP_SUCCESS) {
            mon_violation("C09:array:op-failed", "set_at(%zu) failed with error %d (%s list, length %zu, capacity %zu)", idx,
                          aws_last_error(), a->is_static ? "static" : "dynamic", a->n, a->cs / s_item);
        } else {
            ref_ensure(a, idx);
            if (idx >= a->n) {
                for (size_t j = a->n; j < idx; ++j) {
                    a->def[j] = 0; /* documented: gap elements are unspecified */
                    a->id[j] = 0;
                    mon_flag(F_GAP_CREATED);
                }
                a->n = idx + 1;
            }
            a->id[idx] = id;
            a->def[idx] = 1;
        }
    } else if (pick < 48) { /* ----------------------------------------- pop_back */
        s_op = "pop_back";
        mon_fp(4 + 64 * (uint64_t)which);
        if (!a->n) {
            snap_take(a, &sn);
        }
        rc = aws_array_list_pop_back(l);
        mon_sample(" %d.pop_back%s", which, rc ? "=ERR" : "");
        if (!a->n) {
            mon_flag(F_EMPTY_REFUSED);
            MON_CHECK(rc != AWS_OP_SUCCESS, "C09:array:empty-accepted", "pop_back on an empty list succeeded");
            expect_err(rc, AWS_ERROR_LIST_EMPTY, "pop_back on empty list");
            snap_same(a, &sn, "C09:array:failed-op-changed-list", "failed pop_back");
        } else if (rc != AWS_OP_SUCCESS) {
            mon_violation("C09:array:op-failed", "pop_back failed with error %d at length %zu", aws_last_error(), a->n);
        } else {
            --a->n;
            /* implementation detail (not in the header): the vacated slot is zero-filled; counted only */
            if (l->data && (a->n + 1) * s_item <= l->current_size) {
                mon_count(aws_is_mem_zeroed((uint8_t *)l->data + a->n * s_item, s_item) ? "pop_back_slot_zeroed"
                                                                                         : "pop_back_slot_not_zeroed", 1);
            }
        }
    } else if (pick < 51) { /* ----------------------------------------- pop_front */
        s_op = "pop_front";
        mon_fp(5 + 64 * (uint64_t)which);
        if (!a->n) {
            snap_take(a, &sn);
        }
        rc = aws_array_list_pop_front(l);
        mon_sample(" %d.pop_front%s", which, rc ? "=ERR" : "");
        if (!a->n) {
            mon_flag(F_EMPTY_REFUSED);
            MON_CHECK(rc != AWS_OP_SUCCESS, "C09:array:empty-accepted", "pop_front on an empty list succeeded");
            expect_err(rc, AWS_ERROR_LIST_EMPTY, "pop_front on empty list");
            snap_same(a, &sn, "C09:array:failed-op-changed-list", "failed pop_front");
        } else if (rc != AWS_OP_SUCCESS) {
            mon_violation("C09:array:op-failed", "pop_front failed with error %d at length %zu", aws_last_error(), a->n);
        } else {
            ref_remove(a, 0);
        }
    } else if (pick < 57) { /* ----------------------------------------- get_at / get_at_ptr */
        bool ptr = mon_chance(r, 2, 5);
        s_op = ptr ? "get_at_ptr" : "get_at";
        size_t idx;
        unsigned cls = (unsigned)mon_below(r, 10);
        if (cls < 5 && a->n) {
            idx = (size_t)mon_below(r, a->n);
        } else if (cls < 7) {
            idx = a->n;
        } else if (cls < 9) {
            idx = a->n + 1 + (size_t)mon_below(r, 5);
        } else {
            idx = huge_index(r, false);
        }
        mon_fp(6 + ptr + 64 * (uint64_t)which + 256 * (uint64_t)(idx < a->n ? 0 : 1));
        snap_take(a, &sn);
        memset(s_out, 0xEE, s_item);
        void *p = (void *)s_out;
        rc = ptr ? aws_array_list_get_at_ptr(l, &p, idx) : aws_array_list_get_at(l, s_out, idx);
        mon_sample(" %d.%s(%zu)%s", which, s_op, idx, rc ? "=ERR" : "");
        if (idx >= a->n) {
            mon_flag(F_INVALID_INDEX_REFUSED);
            MON_CHECK(rc != AWS_OP_SUCCESS, "C09:array:bad-index-accepted", "%s(index %zu) succeeded at length %zu", s_op, idx, a->n);
            expect_err(rc, AWS_ERROR_INVALID_INDEX, "get at an index >= length");
        } else if (rc != AWS_OP_SUCCESS) {
            mon_violation("C09:array:op-failed", "%s(%zu) failed with error %d at length %zu", s_op, idx, aws_last_error(), a->n);
        } else if (ptr) {
            MON_CHECK(p == (void *)((uint8_t *)l->data + idx * s_item), "C09:array:get-at-ptr", "get_at_ptr(%zu) does not point at "
                      "element %zu of the storage", idx, idx);
        } else if (a->def[idx] && !elem_equals(a->id[idx], s_out, s_item)) {
            mon_violation("C09:array:get-at", "get_at(%zu) at length %zu returned %s", idx, a->n, mon_hex(s_out, s_item, 20));
        }
        snap_same(a, &sn, "C09:array:read-changed-list", s_op);
    } else if (pick < 60) { /* ----------------------------------------- front / back */
        bool back = mon_chance(r, 1, 2);
        s_op = back ? "back" : "front";
        mon_fp(8 + back + 64 * (uint64_t)which);
        snap_take(a, &sn);
        memset(s_out, 0xEE, s_item);
        rc = back ? aws_array_list_back(l, s_out) : aws_array_list_front(l, s_out);
        mon_sample(" %d.%s%s", which, s_op, rc ? "=ERR" : "");
        if (!a->n) {
            mon_flag(F_EMPTY_REFUSED);
            MON_CHECK(rc != AWS_OP_SUCCESS, "C09:array:empty-accepted", "%s on an empty list succeeded", s_op);
            expect_err(rc, AWS_ERROR_LIST_EMPTY, "front/back on empty list");
        } else if (rc != AWS_OP_SUCCESS) {
            mon_violation("C09:array:op-failed", "%s failed with error %d at length %zu", s_op, aws_last_error(), a->n);
        } else {
            size_t i = back ? a->n - 1 : 0;
            if (a->def[i] && !elem_equals(a->id[i], s_out, s_item)) {
                mon_violation(back ? "C09:array:back" : "C09:array:front", "%s at length %zu returned %s", s_op, a->n,
                              mon_hex(s_out, s_item, 20));
            }
        }
        snap_same(a, &sn, "C09:array:read-changed-list", s_op);
    } else if (pick < 67) { /* ----------------------------------------- erase */
        s_op = "erase";
        size_t idx;
        unsigned cls = (unsigned)mon_below(r, 10);
        if (cls < 2 || a->n == 0) {
            idx = cls == 0 ? a->n : cls == 1 ? a->n + 1 + (size_t)mon_below(r, 4) : huge_index(r, false);
        } else if (cls < 4) {
            idx = 0;
        } else if (cls < 6) {
            idx = a->n - 1;
        } else {
            idx = (size_t)mon_below(r, a->n);
        }
        mon_fp(10 + 64 * (uint64_t)which + 256 * (uint64_t)(idx >= a->n ? 3 : idx == 0 ? 0 : idx == a->n - 1 ? 1 : 2));
        if (idx >= a->n) {
            snap_take(a, &sn);
        }
        rc = aws_array_list_erase(l, idx);
        mon_sample(" %d.erase(%zu)%s", which, idx, rc ? "=ERR" : "");
        if (idx >= a->n) {
            mon_flag(F_INVALID_INDEX_REFUSED);
            MON_CHECK(rc != AWS_OP_SUCCESS, "C09:array:bad-index-accepted", "erase(index %zu) succeeded at length %zu", idx, a->n);
            expect_err(rc, AWS_ERROR_INVALID_INDEX, "erase at an index >= length");
            snap_same(a, &sn, "C09:array:failed-op-changed-list", "failed erase");
        } else if (rc != AWS_OP_SUCCESS) {
            mon_violation("C09:array:op-failed", "erase(%zu) failed with error %d at length %zu", idx, aws_last_error(), a->n);
        } else {
            if (idx > 0 && idx < a->n - 1) {
                mon_flag(F_ERASE_MIDDLE);
            }
            ref_remove(a, idx);
        }
    } else if (pick < 71) { /* ----------------------------------------- pop_front_n */
        s_op = "pop_front_n";
        size_t k;
        switch (mon_below(r, 20)) {
            case 0: case 1: k = 0; break;
            case 2: case 3: case 4: k = 1; break;
            case 5: case 6: k = a->n ? a->n - 1 : 0; break;
            case 7: case 8: k = a->n; break;
            case 9: k = a->n + 1; break;
            case 10:
                /* counts whose byte size (item_size * k) does not fit size_t, incl. products that wrap to a small number */
                switch (mon_below(r, 5)) {
                    case 0: k = SIZE_MAX; break;
                    case 1: k = SIZE_MAX / s_item; break;
                    case 2: k = SIZE_MAX / s_item + 1 + (size_t)mon_below(r, a->n + 2); break;
                    case 3: k = SIZE_MAX / 2 + 1 + (size_t)mon_below(r, 4); break;
                    default: k = ((size_t)1 << (40 + mon_below(r, 23))) + (size_t)mon_below(r, a->n + 2); break;
                }
                mon_flag(F_POP_FRONT_N_HUGE);
                break;
            case 11: case 12: k = (size_t)mon_below(r, a->n + 1); break;
            default: k = 1 + (size_t)mon_below(r, a->n < 5 ? a->n + 1 : 5); break;
        }
        mon_fp(11 + 64 * (uint64_t)which + 256 * (uint64_t)(k == 0 ? 0 : k < a->n ? 1 : 2));
        aws_array_list_pop_front_n(l, k);
        mon_sample(" %d.pop_front_n(%zu)", which, k);
        if (k >= a->n) {
            a->n = 0;
        } else {
            if (k) {
                mon_flag(F_POP_FRONT_N_PARTIAL);
            }
            for (size_t j = 0; j < k; ++j) {
                ref_remove(a, 0);
            }
        }
    } else if (pick < 77) { /* ----------------------------------------- swap */
        s_op = "swap";
        if (!a->n) {
            mon_fp(12);
            return; /* indices must be within the bounds of the array */
        }
        size_t i = (size_t)mon_below(r, a->n);
        size_t j = mon_chance(r, 1, 8) ? i : (size_t)mon_below(r, a->n);
        mon_fp(13 + 64 * (uint64_t)which + 256 * (uint64_t)(i == j));
        aws_array_list_swap(l, i, j);
        mon_sample(" %d.swap(%zu,%zu)", which, i, j);
        if (i != j && s_item > 128) {
            mon_flag(F_SLICED_SWAP);
        }
        uint64_t tid = a->id[i];
        uint8_t td = a->def[i];
        a->id[i] = a->id[j];
        a->def[i] = a->def[j];
        a->id[j] = tid;
        a->def[j] = td;
    } else if (pick < 81) { /* ----------------------------------------- sort */
        s_op = "sort";
        mon_fp(14 + 64 * (uint64_t)which);
        size_t n = a->n;
        uint8_t *before = NULL;
        if (n) {
            before = malloc(n * s_item);
            memcpy(before, l->data, n * s_item);
        }
        aws_array_list_sort(l, s_cmp);
        mon_sample(" %d.sort", which);
        if (n && aws_array_list_length(l) == n && l->data) {
            const uint8_t *d = l->data;
            bool ties = false;
            for (size_t i = 1; i < n; ++i) {
                int c = s_cmp(d + (i - 1) * s_item, d + i * s_item);
                if (c > 0) {
                    mon_violation("C09:array:sort-order", "after sort (length %zu, item_size %zu): element %zu key %u > element %zu "
                                  "key %u", n, s_item, i - 1, d[(i - 1) * s_item] >> 4, i, d[i * s_item] >> 4);
                    break;
                }
                ties |= c == 0;
            }
            if (ties) {
                mon_flag(F_SORT_TIES);
            }
            /* permutation of the previous contents (bytes), and carry the reference along */
            static uint64_t nid[MAXN];
            static uint8_t ndef[MAXN], used[MAXN];
            memset(used, 0, n);
            for (size_t i = 0; i < n; ++i) {
                size_t j;
                for (j = 0; j < n; ++j) {
                    if (!used[j] && !memcmp(before + j * s_item, d + i * s_item, s_item)) {
                        break;
                    }
                }
                if (j == n) {
                    mon_violation("C09:array:sort-not-permutation", "after sort (length %zu, item_size %zu): element %zu = %s was not "
                                  "in the list before (or occurs more often now)", n, s_item, i, mon_hex(d + i * s_item, s_item, 20));
                    free(before);
                    return;
                }
                used[j] = 1;
                nid[i] = a->id[j];
                ndef[i] = a->def[j];
            }
            memcpy(a->id, nid, n * sizeof(nid[0]));
            memcpy(a->def, ndef, n);
        }
        free(before);
    } else if (pick < 85) { /* ----------------------------------------- copy a -> b */
        s_op = "copy";
        if (!a->l.data) {
            mon_fp(15);
            mon_count("copy_skipped_source_without_storage", 1);
            return; /* aws_array_list_copy requires from->data */
        }
        mon_fp(16 + 64 * (uint64_t)which);
        size_t need = a->n * s_item;
        bool fits = b->l.current_size >= need;
        bool must_fail = !fits && b->is_static;
        snap_take(a, &sn);
        if (must_fail) {
            snap_take(b, &sn2);
        }
        rc = aws_array_list_copy(&a->l, &b->l);
        mon_sample(" copy(%d->%d)%s", which, 1 - which, rc ? "=ERR" : "");
        snap_same(a, &sn, "C09:array:copy-changed-source", "copy");
        if (must_fail) {
            mon_flag(F_COPY_STATIC_TOO_SMALL);
            if (rc == AWS_OP_SUCCESS) {
                mon_violation("C09:array:static-accepted", "copy of %zu items into a static list of %zu items succeeded", a->n, b->scap);
                snap_drop(&sn2);
            } else {
                expect_err(rc, AWS_ERROR_DEST_COPY_TOO_SMALL, "copy into a smaller static list");
                snap_same(b, &sn2, "C09:array:failed-op-changed-list", "failed copy (destination)");
            }
        } else if (rc != AWS_OP_SUCCESS) {
            mon_violation("C09:array:op-failed", "copy of %zu items into %s list (capacity %zu) failed with error %d", a->n,
                          b->is_static ? "static" : "dynamic", b->cs / s_item, aws_last_error());
        } else {
            if (fits) {
                mon_flag(F_COPY_FITS);
            } else {
                mon_flag(F_COPY_REALLOC);
                b->cs = need;
            }
            memcpy(b->id, a->id, a->n * sizeof(a->id[0]));
            memcpy(b->def, a->def, a->n);
            b->n = a->n;
        }
    } else if (pick < 88) { /* ----------------------------------------- shrink_to_fit */
        s_op = "shrink_to_fit";
        mon_fp(17 + 64 * (uint64_t)which);
        void *old = l->data;
        size_t old_cs = l->current_size;
        if (a->is_static) {
            snap_take(a, &sn);
        }
        s_rel_n = 0;
        memset(s_rel_last, 0, sizeof(s_rel_last));
        rc = aws_array_list_shrink_to_fit(l);
        mon_sample(" %d.shrink_to_fit%s", which, rc ? "=ERR" : "");
        if (a->is_static) {
            mon_flag(F_SHRINK_STATIC_REFUSED);
            MON_CHECK(rc != AWS_OP_SUCCESS, "C09:array:static-accepted", "shrink_to_fit on a static list succeeded");
            expect_err(rc, AWS_ERROR_LIST_STATIC_MODE_CANT_SHRINK, "shrink_to_fit on static list");
            snap_same(a, &sn, "C09:array:failed-op-changed-list", "failed shrink_to_fit");
        } else if (rc != AWS_OP_SUCCESS) {
            mon_violation("C09:array:op-failed", "shrink_to_fit failed with error %d (length %zu)", aws_last_error(), a->n);
        } else {
            if (a->n * s_item < a->cs) {
                a->cs = a->n * s_item;
                if (a->n) {
                    mon_flag(F_SHRINK_REALLOC);
                }
            }
            MON_CHECK(l->current_size == a->n * s_item || l->length != a->n, "C09:array:shrink-not-minimal",
                      "shrink_to_fit left current_size %zu for %zu items of %zu bytes", l->current_size, a->n, s_item);
            if (a->n == 0 && old && old_cs && l->data == NULL) {
                /* DESIGN section 9: the buffer is dropped, not released - outside the property, counted */
                if (!was_released(old)) {
                    mon_flag(F_SHRINK_EMPTY_DROP);
                    mon_count("shrink_to_fit_empty_dropped_buffer_unreleased", 1);
                    ++s_dropped;
                    aws_mem_release(s_alloc, old); /* keep the process small; not part of any oracle */
                } else {
                    mon_count("shrink_to_fit_empty_released_buffer", 1);
                }
            }
        }
    } else if (pick < 89) { /* ----------------------------------------- clear */
        s_op = "clear";
        mon_fp(18 + 64 * (uint64_t)which);
        aws_array_list_clear(l);
        mon_sample(" %d.clear", which);
        a->n = 0;
    } else if (pick < 92) { /* ----------------------------------------- swap_contents */
        s_op = "swap_contents";
        if (a->is_static || b->is_static) {
            mon_fp(19);
            return; /* both lists must be dynamic with the same allocator */
        }
        mon_fp(20 + 64 * (uint64_t)which);
        struct aws_array_list ha = a->l, hb = b->l;
        aws_array_list_swap_contents(&a->l, &b->l);
        mon_sample(" swap_contents");
        mon_flag(F_SWAP_CONTENTS);
        MON_CHECK(!memcmp(&a->l, &hb, sizeof(hb)) && !memcmp(&b->l, &ha, sizeof(ha)), "C09:array:swap-contents",
                  "swap_contents did not exchange the two list headers exactly");
        static uint64_t tid[MAXN];
        static uint8_t tdef[MAXN];
        memcpy(tid, a->id, a->n * sizeof(tid[0]));
        memcpy(tdef, a->def, a->n);
        memcpy(a->id, b->id, b->n * sizeof(tid[0]));
        memcpy(a->def, b->def, b->n);
        memcpy(b->id, tid, a->n * sizeof(tid[0]));
        memcpy(b->def, tdef, a->n);
        size_t t = a->n;
        a->n = b->n;
        b->n = t;
        t = a->cs;
        a->cs = b->cs;
        b->cs = t;
    } else if (pick < 96) { /* ----------------------------------------- ensure_capacity */
        s_op = "ensure_capacity";
        size_t cap = a->cs / s_item;
        size_t idx;
        unsigned cls = (unsigned)mon_below(r, 10);
        if ((cls < 2 || cap >= 512) && cap) {
            idx = (size_t)mon_below(r, cap); /* (and no further growth once the list is large) */
        } else if (cls < 4) {
            idx = cap;
        } else if (cls < 7) {
            idx = cap + 1 + (size_t)mon_below(r, 5);
        } else if (cls < 8) {
            idx = cap * 2 + (size_t)mon_below(r, 3);
        } else if (cls < 9) {
            idx = cap ? cap - 1 : 0;
        } else {
            idx = huge_index(r, !a->is_static);
        }
        mon_fp(21 + 64 * (uint64_t)which + 256 * (uint64_t)(idx < cap ? 0 : idx - cap < 64 ? 1 + idx - cap : 99));
        int e = expect_store(a, idx);
        snap_take(a, &sn);
        rc = aws_array_list_ensure_capacity(l, idx);
        mon_sample(" %d.ensure_capacity(%zu)%s", which, idx, rc ? "=ERR" : "");
        if (e != EXP_OK) {
            mon_flag(e == EXP_OVERFLOW ? F_OVERFLOW_INDEX_REFUSED : F_STATIC_INDEX_REFUSED);
            if (rc == AWS_OP_SUCCESS) {
                mon_violation("C09:array:bad-index-accepted", "ensure_capacity(index %zu) succeeded on %s list (item_size %zu, "
                              "capacity %zu items)", idx, a->is_static ? "static" : "dynamic", s_item, cap);
                snap_drop(&sn);
            } else {
                if (e == EXP_STATIC_BOUNDS) {
                    expect_err(rc, AWS_ERROR_INVALID_INDEX, "ensure_capacity beyond the maximum index of a static list");
                }
                snap_same(a, &sn, "C09:array:failed-op-changed-list", "failed ensure_capacity");
            }
        } else if (rc != AWS_OP_SUCCESS) {
            mon_violation("C09:array:op-failed", "ensure_capacity(%zu) failed with error %d (%s list, capacity %zu)", idx,
                          aws_last_error(), a->is_static ? "static" : "dynamic", cap);
            snap_drop(&sn);
        } else if (idx < cap) {
            snap_same(a, &sn, "C09:array:failed-op-changed-list", "ensure_capacity within the capacity");
        } else {
            snap_drop(&sn);
            ref_ensure(a, idx);
            MON_CHECK(aws_array_list_capacity(l) > idx, "C09:array:capacity", "ensure_capacity(%zu) succeeded, capacity is %zu", idx,
                      aws_array_list_capacity(l));
        }
    } else if (pick < 97) { /* ----------------------------------------- clean_up + init again */
        s_op = "reinit";
        bool secure = mon_chance(r, 1, 2);
        mon_fp(22 + secure + 64 * (uint64_t)which);
        mon_sample(" %d.clean_up%s", which, secure ? "_secure" : "");
        al_clean_up(a, secure);
        al_init(a, r);
        mon_flag(F_REINIT);
    } else { /* ---------------------------------------------------------- length / capacity */
        s_op = "length/capacity";
        mon_fp(24 + 64 * (uint64_t)which);
        snap_take(a, &sn);
        size_t len = aws_array_list_length(l), cap = aws_array_list_capacity(l);
        MON_CHECK(len == a->n, "C09:array:length", "length() %zu, reference %zu", len, a->n);
        MON_CHECK(cap >= len, "C09:array:capacity", "capacity() %zu < length() %zu", cap, len);
        snap_same(a, &sn, "C09:array:read-changed-list", s_op);
    }
}

static bool run_array_case(uint64_t case_idx) {
    struct mon_rng *r = &mon_case_rng;
    static const size_t sizes[] = {1, 2, 3, 8, 24, 127, 128, 129, 255, 256, 300};
    s_item = sizes[mon_below(r, sizeof(sizes) / sizeof(sizes[0]))];
    s_next_id = case_idx * 1000003ULL + 1;
    s_alloc = mon_guard_allocator();
    mon_guard_set_release_hook(release_hook, NULL);
    s_val = mon_fence_new(s_item);
    s_out = mon_fence_new(s_item);
    mon_fp(s_item);
    mon_sample("item_size=%zu:", s_item);
    uint64_t v0 = mon_violations();
    al_init(&s_al[0], r);
    al_init(&s_al[1], r);
    s_op = "init";
    s_opno = 0;
    check_all();
    size_t nops = 10 + (size_t)mon_below(r, 141);
    size_t done = 0;
    for (size_t op = 0; op < nops && mon_violations() == v0; ++op) {
        if (mon_chance(r, 1, 3)) {
            mon_poison_last_error(r);
        }
        s_opno = op + 1;
        array_op(r, (unsigned)((op * 4) / nops));
        check_all();
        ++done;
    }
    mon_count("ops", done);
    bool clean = mon_violations() == v0;
    if (clean) {
        /* only tear down lists that are known to be sound */
        s_op = "clean_up";
        al_clean_up(&s_al[0], mon_chance(r, 1, 2));
        al_clean_up(&s_al[1], mon_chance(r, 1, 2));
        MON_CHECK(mon_fence_check(s_val) == 0, "C09:array:val-canary", "canary next to the value buffer damaged");
        MON_CHECK(mon_fence_check(s_out) == 0, "C09:array:out-canary", "canary next to the result buffer damaged");
        mon_fence_free(s_val);
        mon_fence_free(s_out);
    }
    mon_guard_set_release_hook(NULL, NULL);
    return mon_flag_count() >= 4;
}

/* ====================================================================================== linked */

#define NPOOL 24
#define NLISTS 3
#define CANARY_A 0x5AA5C33C0FF0A55AULL
#define CANARY_B 0x3CC3A55AF00F5AA5ULL

struct pnode {
    uint64_t c0;
    struct aws_linked_list_node node;
    uint64_t c1;
};

struct plist {
    uint64_t c0;
    struct aws_linked_list list;
    uint64_t c1;
};

static struct pnode s_pool[NPOOL];
static struct plist s_lists[NLISTS];
static int s_where[NPOOL];          /* list index or -1 */
static int s_order[NLISTS][NPOOL];  /* reference order */
static int s_cnt[NLISTS];

static int node_id(const struct aws_linked_list_node *p) {
    for (int i = 0; i < NPOOL; ++i) {
        if (p == &s_pool[i].node) {
            return i;
        }
    }
    return -1;
}

/* printable name of whatever a pointer refers to: n<id>, L<k>.head, L<k>.tail, NULL, ? */
static const char *ptr_name(const struct aws_linked_list_node *p) {
    static char bufs[8][16];
    static int w;
    char *b = bufs[w++ & 7];
    int id = node_id(p);
    if (!p) {
        snprintf(b, 16, "NULL");
    } else if (id >= 0) {
        snprintf(b, 16, "n%d", id);
    } else {
        snprintf(b, 16, "?");
        for (int k = 0; k < NLISTS; ++k) {
            if (p == &s_lists[k].list.head) {
                snprintf(b, 16, "L%d.head", k);
            } else if (p == &s_lists[k].list.tail) {
                snprintf(b, 16, "L%d.tail", k);
            }
        }
    }
    return b;
}

static const char *order_str(int k) {
    static char buf[NPOOL * 4 + 8];
    size_t o = 0;
    buf[0] = 0;
    for (int i = 0; i < s_cnt[k]; ++i) {
        o += (size_t)snprintf(buf + o, sizeof(buf) - o, "%s%d", i ? "," : "", s_order[k][i]);
    }
    return buf;
}

static bool linked_check_all(void) {
    bool ok = true;
    for (int k = 0; k < NLISTS; ++k) {
        struct aws_linked_list *L = &s_lists[k].list;
        if (s_lists[k].c0 != CANARY_A || s_lists[k].c1 != CANARY_B) {
            mon_violation("C09:linked:canary", "after %s: memory next to list %d was written", s_op, k);
            ok = false;
        }
        if (L->head.prev != NULL || L->tail.next != NULL) {
            mon_violation("C09:linked:sentinel-outer", "after %s: list %d head.prev=%s tail.next=%s (both must stay NULL)", s_op, k,
                          ptr_name(L->head.prev), ptr_name(L->tail.next));
            ok = false;
        }
        /* forward walk on raw pointers */
        const struct aws_linked_list_node *prev = &L->head, *p = L->head.next;
        bool walk_ok = true;
        for (int i = 0; i <= s_cnt[k]; ++i) {
            const struct aws_linked_list_node *want = i < s_cnt[k] ? &s_pool[s_order[k][i]].node : &L->tail;
            if (p != want) {
                mon_violation("C09:linked:forward-walk", "after %s: list %d forward position %d is %s, reference order [%s] expects %s",
                              s_op, k, i, ptr_name(p), order_str(k), ptr_name(want));
                walk_ok = false;
                break;
            }
            if (p->prev != prev) {
                mon_violation("C09:linked:back-link", "after %s: list %d: %s->prev is %s, but it follows %s (reference [%s])", s_op, k,
                              ptr_name(p), ptr_name(p->prev), ptr_name(prev), order_str(k));
                walk_ok = false;
                break;
            }
            prev = p;
            p = p->next;
        }
        /* backward walk on raw pointers */
        const struct aws_linked_list_node *next = &L->tail;
        p = L->tail.prev;
        for (int i = s_cnt[k] - 1; i >= -1 && walk_ok; --i) {
            const struct aws_linked_list_node *want = i >= 0 ? &s_pool[s_order[k][i]].node : &L->head;
            if (p != want) {
                mon_violation("C09:linked:backward-walk", "after %s: list %d backward position %d is %s, reference order [%s] expects "
                              "%s", s_op, k, i, ptr_name(p), order_str(k), ptr_name(want));
                walk_ok = false;
                break;
            }
            if (p->next != next) {
                mon_violation("C09:linked:forward-link", "after %s: list %d: %s->next is %s, but it precedes %s", s_op, k, ptr_name(p),
                              ptr_name(p->next), ptr_name(next));
                walk_ok = false;
                break;
            }
            next = p;
            p = p->prev;
        }
        if (!walk_ok) {
            ok = false;
            continue;
        }
        /* the structure is sound: the library's own iteration API may be used without leaving its preconditions */
        MON_CHECK(aws_linked_list_is_valid(L), "C09:linked:is-valid", "after %s: aws_linked_list_is_valid(list %d) false", s_op, k);
        MON_CHECK(aws_linked_list_is_valid_deep(L), "C09:linked:is-valid", "after %s: aws_linked_list_is_valid_deep(list %d) false", s_op,
                  k);
        MON_CHECK(aws_linked_list_empty(L) == (s_cnt[k] == 0), "C09:linked:empty", "after %s: empty(list %d) wrong for %d nodes", s_op,
                  k, s_cnt[k]);
        int i = 0;
        for (struct aws_linked_list_node *it = aws_linked_list_begin(L); it != aws_linked_list_end(L); it = aws_linked_list_next(it)) {
            if (i >= s_cnt[k] || it != &s_pool[s_order[k][i]].node) {
                mon_violation("C09:linked:forward-walk", "after %s: begin/next walk of list %d differs at position %d", s_op, k, i);
                ok = false;
                break;
            }
            ++i;
        }
        MON_CHECK(i == s_cnt[k], "C09:linked:forward-walk", "after %s: begin/next walk of list %d visited %d of %d nodes", s_op, k, i,
                  s_cnt[k]);
        i = s_cnt[k] - 1;
        for (struct aws_linked_list_node *it = aws_linked_list_rbegin(L); it != aws_linked_list_rend(L); it = aws_linked_list_prev(it)) {
            if (i < 0 || it != &s_pool[s_order[k][i]].node) {
                mon_violation("C09:linked:backward-walk", "after %s: rbegin/prev walk of list %d differs at position %d", s_op, k, i);
                ok = false;
                break;
            }
            --i;
        }
        MON_CHECK(i == -1, "C09:linked:backward-walk", "after %s: rbegin/prev walk of list %d stopped at position %d", s_op, k, i);
        if (s_cnt[k]) {
            MON_CHECK(aws_linked_list_front(L) == &s_pool[s_order[k][0]].node, "C09:linked:front", "after %s: front(list %d) wrong", s_op, k);
            MON_CHECK(aws_linked_list_back(L) == &s_pool[s_order[k][s_cnt[k] - 1]].node, "C09:linked:back", "after %s: back(list %d) "
                      "wrong", s_op, k);
        }
    }
    for (int n = 0; n < NPOOL; ++n) {
        struct pnode *pn = &s_pool[n];
        if (pn->c0 != CANARY_A || pn->c1 != CANARY_B) {
            mon_violation("C09:linked:canary", "after %s: memory next to node %d was written", s_op, n);
            ok = false;
        }
        if (s_where[n] < 0) {
            if (pn->node.next || pn->node.prev) {
                mon_violation("C09:linked:detached-node-linked", "after %s: node %d is in no list but has next=%s prev=%s", s_op, n,
                              ptr_name(pn->node.next), ptr_name(pn->node.prev));
                ok = false;
            }
            MON_CHECK(!aws_linked_list_node_is_in_list(&pn->node), "C09:linked:is-in-list", "after %s: detached node %d reported in a "
                      "list", s_op, n);
        } else if (ok) {
            MON_CHECK(aws_linked_list_node_is_in_list(&pn->node), "C09:linked:is-in-list", "after %s: node %d of list %d reported not in "
                      "a list", s_op, n, s_where[n]);
        }
    }
    return ok;
}

static int pick_detached(struct mon_rng *r) {
    int start = (int)mon_below(r, NPOOL);
    for (int i = 0; i < NPOOL; ++i) {
        int n = (start + i) % NPOOL;
        if (s_where[n] < 0) {
            return n;
        }
    }
    return -1;
}

static int pick_nonempty(struct mon_rng *r) {
    int start = (int)mon_below(r, NLISTS);
    for (int i = 0; i < NLISTS; ++i) {
        int k = (start + i) % NLISTS;
        if (s_cnt[k]) {
            return k;
        }
    }
    return -1;
}

static void ref_ins(int k, int pos, int n) {
    for (int i = s_cnt[k]; i > pos; --i) {
        s_order[k][i] = s_order[k][i - 1];
    }
    s_order[k][pos] = n;
    ++s_cnt[k];
    s_where[n] = k;
}

static void ref_del(int k, int pos) {
    s_where[s_order[k][pos]] = -1;
    for (int i = pos; i + 1 < s_cnt[k]; ++i) {
        s_order[k][i] = s_order[k][i + 1];
    }
    --s_cnt[k];
}

static void linked_op(struct mon_rng *r, unsigned phase) {
    unsigned pick = (unsigned)mon_below(r, 100);
    bool drain = (phase & 1) != 0;
    if (drain && pick < 36 && mon_chance(r, 1, 2)) {
        pick = 36 + (unsigned)mon_below(r, 24);
    }
    if (pick < 20) { /* push_back / push_front */
        bool back = pick < 10;
        int k = (int)mon_below(r, NLISTS), n = pick_detached(r);
        s_op = back ? "push_back" : "push_front";
        mon_fp(1 + back + 16 * (uint64_t)k);
        if (n < 0) {
            return;
        }
        if (mon_chance(r, 1, 4)) {
            aws_linked_list_node_reset(&s_pool[n].node);
        }
        if (back) {
            aws_linked_list_push_back(&s_lists[k].list, &s_pool[n].node);
            ref_ins(k, s_cnt[k], n);
        } else {
            aws_linked_list_push_front(&s_lists[k].list, &s_pool[n].node);
            ref_ins(k, 0, n);
        }
        mon_sample(" L%d.%s(n%d)", k, s_op, n);
    } else if (pick < 36) { /* insert_before / insert_after */
        bool before = pick < 28;
        int k = (int)mon_below(r, NLISTS), n = pick_detached(r);
        s_op = before ? "insert_before" : "insert_after";
        if (n < 0) {
            mon_fp(3);
            return;
        }
        /* position 0..cnt: anchor is a node, or (documented iteration end points) the tail / head sentinel */
        int pos;
        bool sentinel = s_cnt[k] == 0 || mon_chance(r, 1, 6);
        struct aws_linked_list_node *anchor;
        if (before) {
            pos = sentinel ? s_cnt[k] : (int)mon_below(r, (uint64_t)s_cnt[k]);
            anchor = sentinel ? &s_lists[k].list.tail : &s_pool[s_order[k][pos]].node;
            mon_fp(4 + 16 * (uint64_t)k + 64 * (uint64_t)sentinel);
            aws_linked_list_insert_before(anchor, &s_pool[n].node);
            if (!sentinel && pos > 0) {
                mon_flag(F_L_INSERT_MIDDLE);
            }
            ref_ins(k, pos, n);
        } else {
            pos = sentinel ? -1 : (int)mon_below(r, (uint64_t)s_cnt[k]);
            anchor = sentinel ? &s_lists[k].list.head : &s_pool[s_order[k][pos]].node;
            mon_fp(5 + 16 * (uint64_t)k + 64 * (uint64_t)sentinel);
            aws_linked_list_insert_after(anchor, &s_pool[n].node);
            if (!sentinel && pos < s_cnt[k] - 1) {
                mon_flag(F_L_INSERT_MIDDLE);
            }
            ref_ins(k, pos + 1, n);
        }
        if (sentinel) {
            mon_flag(F_L_INSERT_AT_SENTINEL);
        }
        mon_sample(" %s(%s,n%d)", s_op, ptr_name(anchor), n);
    } else if (pick < 46) { /* pop_back / pop_front (non-empty lists only: precondition) */
        bool back = pick < 41;
        int k = pick_nonempty(r);
        s_op = back ? "pop_back" : "pop_front";
        mon_fp(6 + back);
        if (k < 0) {
            return;
        }
        mon_fp(16 * (uint64_t)k);
        int pos = back ? s_cnt[k] - 1 : 0;
        int n = s_order[k][pos];
        struct aws_linked_list_node *got = back ? aws_linked_list_pop_back(&s_lists[k].list) : aws_linked_list_pop_front(&s_lists[k].list);
        mon_sample(" L%d.%s", k, s_op);
        MON_CHECK(got == &s_pool[n].node, "C09:linked:pop-wrong-node", "%s(list %d, reference [%s]) returned %s, expected n%d", s_op, k,
                  order_str(k), ptr_name(got), n);
        if (s_cnt[k] == 1) {
            mon_flag(F_L_POP_TO_EMPTY);
        }
        ref_del(k, pos);
    } else if (pick < 58) { /* remove */
        int k = pick_nonempty(r);
        s_op = "remove";
        mon_fp(8);
        if (k < 0) {
            return;
        }
        int pos = (int)mon_below(r, (uint64_t)s_cnt[k]);
        mon_fp(16 * (uint64_t)k + 64 * (uint64_t)(pos == 0) + 128 * (uint64_t)(pos == s_cnt[k] - 1));
        int n = s_order[k][pos];
        aws_linked_list_remove(&s_pool[n].node);
        mon_sample(" remove(n%d)", n);
        if (s_cnt[k] == 1) {
            mon_flag(F_L_REMOVE_ONLY);
        } else if (pos > 0 && pos < s_cnt[k] - 1) {
            mon_flag(F_L_REMOVE_MIDDLE);
        }
        ref_del(k, pos);
    } else if (pick < 76) { /* swap_nodes within one list */
        int k = pick_nonempty(r);
        s_op = "swap_nodes";
        mon_fp(9);
        if (k < 0) {
            return;
        }
        int c = s_cnt[k];
        int i, j;
        unsigned cls = (unsigned)mon_below(r, 10);
        if (cls == 0 || c == 1) {
            i = j = (int)mon_below(r, (uint64_t)c);
        } else if (cls < 3) {
            i = (int)mon_below(r, (uint64_t)c - 1);
            j = i + 1;
        } else if (cls < 5) {
            j = (int)mon_below(r, (uint64_t)c - 1);
            i = j + 1;
        } else if (cls < 7) {
            i = mon_chance(r, 1, 2) ? 0 : c - 1;
            j = c - 1 - i;
        } else {
            i = (int)mon_below(r, (uint64_t)c);
            j = (int)mon_below(r, (uint64_t)c);
        }
        mon_fp(16 * (uint64_t)k + 64 * (uint64_t)(i == j ? 0 : j == i + 1 ? 1 : i == j + 1 ? 2 : 3));
        int a = s_order[k][i], b = s_order[k][j];
        aws_linked_list_swap_nodes(&s_pool[a].node, &s_pool[b].node);
        mon_sample(" swap_nodes(n%d,n%d)", a, b);
        if (i == j) {
            mon_flag(F_L_SWAP_IDENT);
        } else if (j == i + 1) {
            mon_flag(F_L_SWAP_ADJ_AB);
        } else if (i == j + 1) {
            mon_flag(F_L_SWAP_ADJ_BA);
        } else {
            mon_flag(F_L_SWAP_NONADJ);
        }
        if (i != j && ((i == 0 && j == c - 1) || (j == 0 && i == c - 1))) {
            mon_flag(F_L_SWAP_FIRST_LAST);
        }
        s_order[k][i] = b;
        s_order[k][j] = a;
    } else if (pick < 84) { /* swap_contents */
        int x = (int)mon_below(r, NLISTS), y = (x + 1 + (int)mon_below(r, NLISTS - 1)) % NLISTS;
        s_op = "swap_contents";
        mon_fp(10 + 16 * (uint64_t)x + 64 * (uint64_t)y);
        bool ex = s_cnt[x] == 0, ey = s_cnt[y] == 0;
        aws_linked_list_swap_contents(&s_lists[x].list, &s_lists[y].list);
        mon_sample(" swap_contents(L%d,L%d)", x, y);
        mon_flag(ex && ey ? F_L_SWAPC_BOTH_EMPTY : (ex || ey) ? F_L_SWAPC_ONE_EMPTY : F_L_SWAPC_BOTH_FULL);
        int tmp[NPOOL], tc = s_cnt[x];
        memcpy(tmp, s_order[x], sizeof(tmp));
        memcpy(s_order[x], s_order[y], sizeof(tmp));
        memcpy(s_order[y], tmp, sizeof(tmp));
        s_cnt[x] = s_cnt[y];
        s_cnt[y] = tc;
        for (int i = 0; i < s_cnt[x]; ++i) {
            s_where[s_order[x][i]] = x;
        }
        for (int i = 0; i < s_cnt[y]; ++i) {
            s_where[s_order[y][i]] = y;
        }
    } else if (pick < 96) { /* move_all_back / move_all_front */
        bool back = pick < 90;
        int dst = (int)mon_below(r, NLISTS), src = (dst + 1 + (int)mon_below(r, NLISTS - 1)) % NLISTS;
        s_op = back ? "move_all_back" : "move_all_front";
        mon_fp(11 + back + 16 * (uint64_t)dst + 64 * (uint64_t)src);
        bool es = s_cnt[src] == 0, ed = s_cnt[dst] == 0;
        if (back) {
            aws_linked_list_move_all_back(&s_lists[dst].list, &s_lists[src].list);
            mon_flag(es ? F_L_MOVE_BACK_EMPTY_SRC : ed ? F_L_MOVE_BACK_EMPTY_DST : F_L_MOVE_BACK_BOTH);
            for (int i = 0; i < s_cnt[src]; ++i) {
                s_order[dst][s_cnt[dst] + i] = s_order[src][i];
                s_where[s_order[src][i]] = dst;
            }
        } else {
            aws_linked_list_move_all_front(&s_lists[dst].list, &s_lists[src].list);
            mon_flag(es ? F_L_MOVE_FRONT_EMPTY_SRC : ed ? F_L_MOVE_FRONT_EMPTY_DST : F_L_MOVE_FRONT_BOTH);
            for (int i = s_cnt[dst] - 1; i >= 0; --i) {
                s_order[dst][i + s_cnt[src]] = s_order[dst][i];
            }
            for (int i = 0; i < s_cnt[src]; ++i) {
                s_order[dst][i] = s_order[src][i];
                s_where[s_order[src][i]] = dst;
            }
        }
        mon_sample(" %s(L%d<-L%d)", s_op, dst, src);
        s_cnt[dst] += s_cnt[src];
        s_cnt[src] = 0;
    } else { /* re-initialise an empty list */
        s_op = "init";
        mon_fp(13);
        for (int k = 0; k < NLISTS; ++k) {
            if (s_cnt[k] == 0) {
                aws_linked_list_init(&s_lists[k].list);
                mon_sample(" L%d.init", k);
                break;
            }
        }
    }
}

static bool run_linked_case(uint64_t case_idx) {
    (void)case_idx;
    struct mon_rng *r = &mon_case_rng;
    for (int k = 0; k < NLISTS; ++k) {
        memset(&s_lists[k].list, 0xA5, sizeof(s_lists[k].list)); /* init must not depend on prior contents */
        s_lists[k].c0 = CANARY_A;
        s_lists[k].c1 = CANARY_B;
        aws_linked_list_init(&s_lists[k].list);
        s_cnt[k] = 0;
    }
    for (int n = 0; n < NPOOL; ++n) {
        s_pool[n].c0 = CANARY_A;
        s_pool[n].c1 = CANARY_B;
        memset(&s_pool[n].node, 0x5A, sizeof(s_pool[n].node));
        aws_linked_list_node_reset(&s_pool[n].node);
        s_where[n] = -1;
    }
    s_op = "init";
    uint64_t v0 = mon_violations();
    linked_check_all();
    size_t nops = 10 + (size_t)mon_below(r, 141);
    size_t done = 0;
    for (size_t op = 0; op < nops && mon_violations() == v0; ++op) {
        if (mon_chance(r, 1, 3)) {
            mon_poison_last_error(r);
        }
        linked_op(r, (unsigned)((op * 4) / nops));
        if (!linked_check_all()) {
            break;
        }
        ++done;
    }
    mon_count("ops", done);
    return mon_flag_count() >= 4;
}

/* ====================================================================================== main */


/* ------------------------------------------------------------------ dynamic lists whose storage passes 4 GiB
 * The allocator reserves address space only (mmap, MAP_NORESERVE) and records the sizes asked for; a handful of pages
 * at both ends are touched. One growth step from a small list: what is checked is the size arithmetic, not the copy. */
#include <sys/mman.h>
#define HUGE_SLOTS 4
static struct {
    void *addr;
    size_t len;
} s_hblk[HUGE_SLOTS];
static int s_hacq, s_hrel;

static void *huge_acquire(struct aws_allocator *a, size_t size) {
    (void)a;
    for (int i = 0; i < HUGE_SLOTS; ++i) {
        if (!s_hblk[i].addr) {
            void *p = mmap(NULL, size, PROT_READ | PROT_WRITE, MAP_PRIVATE | MAP_ANONYMOUS | MAP_NORESERVE, -1, 0);
            if (p == MAP_FAILED) {
                return NULL;
            }
            s_hblk[i].addr = p;
            s_hblk[i].len = size;
            ++s_hacq;
            return p;
        }
    }
    return NULL;
}

static void huge_release(struct aws_allocator *a, void *p) {
    (void)a;
    for (int i = 0; p && i < HUGE_SLOTS; ++i) {
        if (s_hblk[i].addr == p) {
            munmap(p, s_hblk[i].len);
            s_hblk[i].addr = NULL;
            ++s_hrel;
            return;
        }
    }
}

static size_t huge_block_len(const void *p) {
    for (int i = 0; i < HUGE_SLOTS; ++i) {
        if (s_hblk[i].addr == p) {
            return s_hblk[i].len;
        }
    }
    return 0;
}

static struct aws_allocator s_huge_alloc = {.mem_acquire = huge_acquire, .mem_release = huge_release, .mem_realloc = NULL, .mem_calloc = NULL, .impl = NULL};

static bool run_huge_array_case(uint64_t case_idx) {
    struct mon_rng *r = &mon_case_rng;
    static const size_t ITEMS[] = {1, 8, 24, 300};
    static const size_t BYTES[] = {((size_t)1 << 32) + 40, (size_t)1 << 32, ((size_t)1 << 32) - 8, (size_t)3 << 31, ((size_t)1 << 33) + 600, ((size_t)5 << 30) + 24};
    size_t item = ITEMS[mon_below(r, 4)];
    size_t target = BYTES[mon_below(r, 6)];
    size_t index = target / item;
    (void)case_idx;
    s_op = "huge";
    mon_fp(0xB16);
    mon_fp(item);
    mon_fp(target);
    memset(s_hblk, 0, sizeof(s_hblk));
    s_hacq = s_hrel = 0;
    void *probe = mmap(NULL, target + item + 4096, PROT_READ | PROT_WRITE, MAP_PRIVATE | MAP_ANONYMOUS | MAP_NORESERVE, -1, 0);
    if (probe == MAP_FAILED) {
        mon_count("huge_list_skipped_no_address_space", 1);
        return false;
    }
    munmap(probe, target + item + 4096);
    struct aws_array_list l;
    size_t init_items = (size_t)mon_below(r, 6);
    if (aws_array_list_init_dynamic(&l, &s_huge_alloc, init_items, item)) {
        mon_violation("C09:huge:init", "init_dynamic(%zu items of %zu bytes) failed", init_items, item);
        return false;
    }
    uint8_t buf[304], got[304];
    size_t npush = 1 + (size_t)mon_below(r, 5);
    for (size_t i = 0; i < npush; ++i) {
        memset(buf, (int)(0x30 + i), item);
        if (aws_array_list_push_back(&l, buf)) {
            mon_violation("C09:huge:push", "push_back %zu failed", i);
        }
    }
    unsigned how = (unsigned)mon_below(r, 2);
    int rc;
    memset(buf, 0xC7, item);
    if (how == 0) {
        rc = aws_array_list_ensure_capacity(&l, index);
        if (rc == AWS_OP_SUCCESS && (aws_array_list_capacity(&l) <= index || huge_block_len(l.data) < (index + 1) * item)) {
            mon_violation("C09:huge:capacity", "item_size %zu: ensure_capacity(index %zu, byte offset %zu) reported success; capacity is %zu items, the block has %zu bytes",
                          item, index, index * item, aws_array_list_capacity(&l), huge_block_len(l.data));
            aws_array_list_clean_up(&l);
            return true;
        }
        if (rc == AWS_OP_SUCCESS) {
            rc = aws_array_list_set_at(&l, buf, index);
        }
    } else {
        rc = aws_array_list_set_at(&l, buf, index);
    }
    if (rc != AWS_OP_SUCCESS) {
        mon_violation("C09:huge:growth-refused", "item_size %zu: %s to index %zu (byte offset %zu) failed with error %d although the address space is available", item,
                      how == 0 ? "ensure_capacity + set_at" : "set_at", index, index * item, aws_last_error());
    } else {
        size_t cap = aws_array_list_capacity(&l);
        size_t blk = huge_block_len(l.data);
        if (cap <= index || l.current_size < (index + 1) * item || blk < (index + 1) * item) {
            mon_violation("C09:huge:capacity",
                          "item_size %zu: after growing to index %zu (byte offset %zu) capacity is %zu items, current_size %zu, the block obtained from the allocator has %zu bytes",
                          item, index, index * item, cap, l.current_size, blk);
        } else {
            if (aws_array_list_length(&l) != index + 1) {
                mon_violation("C09:huge:length", "length %zu after set_at(%zu)", aws_array_list_length(&l), index);
            }
            if (aws_array_list_get_at(&l, got, index) || memcmp(got, buf, item)) {
                mon_violation("C09:huge:contents", "item_size %zu: element %zu read back differs from what set_at stored", item, index);
            }
            for (size_t i = 0; i < npush; ++i) {
                memset(buf, (int)(0x30 + i), item);
                if (aws_array_list_get_at(&l, got, i) || memcmp(got, buf, item)) {
                    mon_violation("C09:huge:contents", "item_size %zu: element %zu did not survive the growth to %zu bytes", item, i, l.current_size);
                    break;
                }
            }
            if (aws_array_list_back(&l, got) || memcmp(got, "\xC7", 1)) {
                mon_violation("C09:huge:contents", "back() differs from the element stored at index %zu", index);
            }
            if (aws_array_list_get_at(&l, got, index + 1) == AWS_OP_SUCCESS) {
                mon_violation("C09:array:bad-index-accepted", "get_at(length) succeeded at length %zu", index + 1);
            }
        }
    }
    aws_array_list_clean_up(&l);
    if (s_hacq != s_hrel) {
        mon_violation("C09:huge:allocator-balance", "%d blocks obtained, %d released", s_hacq, s_hrel);
    }
    mon_flag(F_HUGE_LIST);
    mon_count("huge_lists_4GiB_and_more", 1);
    return true;
}

/* one case per -O2 stage run: a byte list of 2^31+64 elements, erase near the front (really moves 2 GiB) */
static bool run_giant_erase_case(void) {
    struct mon_rng *r = &mon_case_rng;
    size_t n = ((size_t)1 << 31) + 64 + (size_t)mon_below(r, 64);
    s_op = "giant-erase";
    mon_fp(0x61A7);
    memset(s_hblk, 0, sizeof(s_hblk));
    s_hacq = s_hrel = 0;
    struct aws_array_list l;
    if (aws_array_list_init_dynamic(&l, &s_huge_alloc, n, 1)) {
        mon_count("giant_erase_skipped_no_address_space", 1);
        return false;
    }
    static const size_t MARK_AT[] = {0, 1, 2, 3, 4, 5, 6, 1000, 65536, ((size_t)1 << 30) + 7, ((size_t)1 << 31) - 1, (size_t)1 << 31, ((size_t)1 << 31) + 9};
    enum { NM = sizeof(MARK_AT) / sizeof(MARK_AT[0]) };
    uint8_t last = 0xEE, v;
    if (aws_array_list_set_at(&l, &last, n - 1)) {
        mon_violation("C09:huge:growth-refused", "set_at(%zu) on a %zu-byte list failed", n - 1, n);
        aws_array_list_clean_up(&l);
        return true;
    }
    for (size_t i = 0; i < NM; ++i) {
        v = (uint8_t)(0x10 + i);
        aws_array_list_set_at(&l, &v, MARK_AT[i]);
    }
    size_t idx = 1 + (size_t)mon_below(r, 5); /* 1..5 */
    if (aws_array_list_erase(&l, idx)) {
        mon_violation("C09:giant:erase-failed", "erase(%zu) on a list of %zu one-byte elements failed (error %d)", idx, n, aws_last_error());
    } else {
        if (aws_array_list_length(&l) != n - 1) {
            mon_violation("C09:giant:length", "after erase(%zu) of %zu elements the length is %zu", idx, n, aws_array_list_length(&l));
        }
        for (size_t i = 0; i < NM; ++i) {
            if (MARK_AT[i] == idx) {
                continue;
            }
            size_t now_at = MARK_AT[i] > idx ? MARK_AT[i] - 1 : MARK_AT[i];
            uint8_t got = 0;
            aws_array_list_get_at(&l, &got, now_at);
            if (got != (uint8_t)(0x10 + i)) {
                mon_violation("C09:giant:contents", "after erase(%zu) on %zu one-byte elements: the element that was at index %zu is not at index %zu (found %02x, expected %02x)", idx,
                              n, MARK_AT[i], now_at, got, (unsigned)(0x10 + i));
                break;
            }
        }
        uint8_t b = 0;
        aws_array_list_back(&l, &b);
        if (b != last) {
            mon_violation("C09:giant:contents", "after erase(%zu) on %zu one-byte elements back() is %02x, the last element was %02x", idx, n, b, last);
        }
    }
    aws_array_list_clean_up(&l);
    mon_flag(F_GIANT_ERASE);
    mon_count("giant_erase_on_list_of_2GiB", 1);
    return true;
}

/* one case per -O2 stage run: 2^29+16 eight-byte elements (4 GiB + 128 bytes live) in a list with 4096 spare slots, then
 * shrink_to_fit: the new block has exactly the live size and every element keeps its value (the copy really moves 4 GiB) */
static bool run_giant_shrink_case(void) {
    struct mon_rng *r = &mon_case_rng;
    size_t n = ((size_t)1 << 29) + 16 + (size_t)mon_below(r, 16);
    s_op = "giant-shrink";
    mon_fp(0x61A8);
    memset(s_hblk, 0, sizeof(s_hblk));
    s_hacq = s_hrel = 0;
    struct aws_array_list l;
    if (aws_array_list_init_dynamic(&l, &s_huge_alloc, n + 4096, sizeof(uint64_t))) {
        mon_count("giant_shrink_skipped_no_address_space", 1);
        return false;
    }
    static const size_t MARK_AT[] = {0, 1, 15, 16, 17, 1000, ((size_t)1 << 28) + 3, ((size_t)1 << 29) - 1, (size_t)1 << 29, ((size_t)1 << 29) + 1, ((size_t)1 << 29) + 15};
    enum { NM = sizeof(MARK_AT) / sizeof(MARK_AT[0]) };
    uint64_t last = 0xEEEEEEEE11111111ULL, v;
    if (aws_array_list_set_at(&l, &last, n - 1)) {
        mon_violation("C09:huge:growth-refused", "set_at(%zu) on a list with capacity %zu failed", n - 1, n + 4096);
        aws_array_list_clean_up(&l);
        return true;
    }
    for (size_t i = 0; i < NM; ++i) {
        v = 0xABCD000000000000ULL + i;
        aws_array_list_set_at(&l, &v, MARK_AT[i]);
    }
    if (aws_array_list_shrink_to_fit(&l)) {
        /* the second 4 GiB block may not be available: not a verdict */
        mon_count("giant_shrink_skipped_no_address_space", 1);
        aws_array_list_clean_up(&l);
        return false;
    }
    if (aws_array_list_length(&l) != n || aws_array_list_capacity(&l) != n || l.current_size != n * sizeof(uint64_t) || !l.data ||
        huge_block_len(l.data) != n * sizeof(uint64_t)) {
        mon_violation("C09:giant:shrink-size", "after shrink_to_fit of %zu eight-byte elements: length %zu, capacity %zu, current_size %zu, data %p", n, aws_array_list_length(&l),
                      aws_array_list_capacity(&l), l.current_size, l.data);
    } else {
        for (size_t i = 0; i < NM; ++i) {
            uint64_t got = 0;
            aws_array_list_get_at(&l, &got, MARK_AT[i]);
            if (got != 0xABCD000000000000ULL + i) {
                mon_violation("C09:giant:contents", "after shrink_to_fit of %zu eight-byte elements (%zu bytes live): element %zu reads %016llx, expected %016llx", n,
                              n * sizeof(uint64_t), MARK_AT[i], (unsigned long long)got, (unsigned long long)(0xABCD000000000000ULL + i));
                break;
            }
        }
        uint64_t b = 0;
        aws_array_list_back(&l, &b);
        if (b != last) {
            mon_violation("C09:giant:contents", "after shrink_to_fit of %zu eight-byte elements back() is %016llx, the last element was %016llx", n, (unsigned long long)b,
                          (unsigned long long)last);
        }
    }
    aws_array_list_clean_up(&l);
    if (s_hacq != s_hrel) {
        mon_violation("C09:huge:allocator-balance", "giant shrink: %d blocks obtained, %d released", s_hacq, s_hrel);
    }
    mon_flag(F_GIANT_SHRINK);
    mon_count("giant_shrink_to_fit_of_4GiB_live", 1);
    return true;
}

int main(int argc, char **argv) {
    mon_init(argc, argv, "C09");
    aws_common_library_init(aws_default_allocator());
    static const struct {
        int bit;
        const char *name;
    } names[] = {
        {F_GROW_DOUBLE, "grow_double"},
        {F_GROW_EXACT, "grow_exact"},
        {F_GAP_CREATED, "set_at_gap_created"},
        {F_STATIC_FULL_REFUSED, "static_full_push_refused"},
        {F_STATIC_INDEX_REFUSED, "static_index_refused"},
        {F_OVERFLOW_INDEX_REFUSED, "overflow_index_refused"},
        {F_ERASE_MIDDLE, "erase_middle"},
        {F_POP_FRONT_N_PARTIAL, "pop_front_n_partial"},
        {F_POP_FRONT_N_HUGE, "pop_front_n_huge_count"},
        {F_HUGE_LIST, "dynamic_list_storage_4GiB_or_more"},
        {F_GIANT_ERASE, "erase_near_front_of_2GiB_byte_list"},
        {F_GIANT_SHRINK, "shrink_to_fit_with_4GiB_live"},
        {F_SLICED_SWAP, "sliced_swap_item_gt_128"},
        {F_SORT_TIES, "sort_with_ties"},
        {F_COPY_REALLOC, "copy_into_smaller_dynamic"},
        {F_COPY_STATIC_TOO_SMALL, "copy_into_smaller_static_refused"},
        {F_COPY_FITS, "copy_into_larger"},
        {F_SHRINK_REALLOC, "shrink_to_fit_reallocated"},
        {F_SHRINK_STATIC_REFUSED, "shrink_static_refused"},
        {F_SWAP_CONTENTS, "array_swap_contents"},
        {F_EMPTY_REFUSED, "empty_list_refused"},
        {F_INVALID_INDEX_REFUSED, "invalid_index_refused"},
        {F_PUSH_FRONT_SHIFT, "push_front_shift"},
        {F_SECURE_ZERO_SEEN, "clean_up_secure_zero_at_release"},
        {F_SHRINK_EMPTY_DROP, "shrink_to_fit_empty_dropped_buffer"},
        {F_REINIT, "clean_up_and_reinit"},
        {F_FROM_INITIALIZED, "static_from_initialized"},
        {F_GAP_MOVED, "unspecified_gap_element_shifted"},
        {F_L_SWAP_ADJ_AB, "swap_nodes_adjacent_a_before_b"},
        {F_L_SWAP_ADJ_BA, "swap_nodes_adjacent_b_before_a"},
        {F_L_SWAP_NONADJ, "swap_nodes_non_adjacent"},
        {F_L_SWAP_IDENT, "swap_nodes_identical"},
        {F_L_SWAP_FIRST_LAST, "swap_nodes_first_last"},
        {F_L_SWAPC_ONE_EMPTY, "linked_swap_contents_one_empty"},
        {F_L_SWAPC_BOTH_EMPTY, "linked_swap_contents_both_empty"},
        {F_L_SWAPC_BOTH_FULL, "linked_swap_contents_both_nonempty"},
        {F_L_MOVE_BACK_EMPTY_SRC, "move_all_back_empty_source"},
        {F_L_MOVE_BACK_EMPTY_DST, "move_all_back_empty_destination"},
        {F_L_MOVE_BACK_BOTH, "move_all_back_both_nonempty"},
        {F_L_MOVE_FRONT_EMPTY_SRC, "move_all_front_empty_source"},
        {F_L_MOVE_FRONT_EMPTY_DST, "move_all_front_empty_destination"},
        {F_L_MOVE_FRONT_BOTH, "move_all_front_both_nonempty"},
        {F_L_INSERT_AT_SENTINEL, "insert_at_sentinel"},
        {F_L_INSERT_MIDDLE, "insert_in_middle"},
        {F_L_REMOVE_ONLY, "remove_only_node"},
        {F_L_REMOVE_MIDDLE, "remove_middle_node"},
        {F_L_POP_TO_EMPTY, "pop_to_empty"},
    };
    for (size_t i = 0; i < sizeof(names) / sizeof(names[0]); ++i) {
        mon_flag_name(names[i].bit, names[i].name);
    }
    bool linked = mon_run.mode && !strcmp(mon_run.mode, "linked");
    if (mon_run.mode && mon_run.mode[0] && !linked && strcmp(mon_run.mode, "array")) {
        fprintf(stderr, "c09_lists: unknown --mode %s (array|linked)\n", mon_run.mode);
        return 2;
    }
    uint64_t c;
    while (mon_next_case(&c)) {
        mon_case_begin(c);
#ifdef DEBUG_BUILD
        /* Debug builds fill every new allocation (AWS_ARRAY_LIST_DEBUG_FILL): a 4 GiB list would really use 4 GiB */
        bool huge = false;
#else
        bool huge = !linked && c % 128 == 127;
#endif
        bool giant = false;
#ifndef DEBUG_BUILD
        giant = !linked && c == 511; /* once per -O2 stage run */
        if (!linked && c == 767) { /* likewise */
            mon_case_end(run_giant_shrink_case());
            continue;
        }
#endif
        bool nontrivial = linked ? run_linked_case(c) : giant ? run_giant_erase_case() : (huge ? run_huge_array_case(c) : run_array_case(c));
        mon_case_end(nontrivial);
    }
    if (!linked) {
        mon_count("list_checks", s_len_checks);
        mon_count("list_checks_length_ge_8", s_len_ge8);
        mon_count("list_checks_length_ge_32", s_len_ge32);
        mon_count("list_checks_length_sum", s_len_sum);
        mon_count_max("max_length", s_len_max);
    }
    if (!linked && s_dropped) {
        mon_note("C09 array: aws_array_list_shrink_to_fit on an empty dynamic list set data=NULL without releasing the buffer in "
                 "%llu calls of this process (DESIGN section 9: a leak, outside the property; counted, not judged)",
                 (unsigned long long)s_dropped);
    }
    return mon_finish();
}
