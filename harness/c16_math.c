/*
 * C16 - overflow-checked arithmetic and time-unit conversion are exact or flagged
 * (DESIGN.md section 5, C16).
 *
 * Oracle: unsigned __int128 arithmetic and bit-by-bit loops written here, compared with every helper of
 * <aws/common/math.h> and with aws_timestamp_convert[_u64], for FOUR implementations side by side
 * (c16_variant_{sel,ovf,asm,fb}.c: what the build selects, __builtin_*_overflow, x86-64 inline assembly,
 * portable C), each in three compilation contexts (thin wrapper / everything inlined into one loop / the
 * add and mul helpers inlined between two register barriers that keep 13 by-stander values in registers),
 * the whole executable being built three times (-O0, -O2, -O3: one stage each).
 *
 * A case is a BLOCK of up to 4096 operand tuples of one kind:
 *   bin64    pairs (a,b) of 64-bit operands: add/mul/sub saturating+checked for u64 and size_t,
 *            min/max u64/i64/size, aws_add_size_checked_varargs (library object code)
 *   bin32    pairs of 32-bit operands: add/mul/sub u32 saturating+checked, min/max u32/i32/int
 *   small    min/max for u8/i8 (ALL 65536 pairs), u16/i16, float, double
 *   unary    is_power_of_two, round_up_to_power_of_two, clz/ctz for u32/i32/u64/i64/size
 *   convunit aws_timestamp_convert over the 16 unit pairs
 *   convu64  aws_timestamp_convert_u64 with frequencies in 1..10^9
 * Case indices [0, E) enumerate the exhaustive sweep (ALL pairs of the boundary set B per width, all unit
 * pairs x boundary ticks, all pairs of the frequency boundary set x boundary ticks) block by block and are
 * independent of the seed; indices >= E are PRNG-derived blocks (magnitude-stratified operands plus
 * operands aimed at the overflow boundary of each operation).
 *
 * Not asserted, because neither the property nor the headers promise it: the value left in *r by a
 * checked helper that reports overflow (builtin/asm variants store the wrapped value, the portable one
 * leaves *r alone - counted, not judged); min/max on NaN; `remainder` is pre-set to 0 by the harness as
 * clock.h asks callers to do.
 */
#include "mon.h"

#include "c16_variant.h"

#include <aws/common/clock.h>
#include <aws/common/common.h>
#include <aws/common/error.h>
#include <aws/common/math.h>

#include <float.h>
#include <math.h>
#include <stdlib.h>

#ifndef C16_OPT
#    error "compile with -DC16_OPT=<optimisation level>"
#endif

typedef unsigned __int128 u128;

#define BLOCK 4096
#define CHUNK 256
#define NVAR 4

static const struct c16_variant *const s_var[NVAR] = {&c16_variant_sel, &c16_variant_ovf, &c16_variant_asm,
                                                      &c16_variant_fb};

enum { K_BIN64, K_BIN32, K_SMALL, K_UNARY, K_CONVUNIT, K_CONVU64, K_N };
static const char *const s_kind_name[K_N] = {"bin64", "bin32", "small", "unary", "convunit", "convu64"};

enum {
    F_ADD_OVF, F_ADD_FIT, F_ADD_EQ_MAX, F_ADD_EQ_2W, F_MUL_OVF, F_MUL_FIT, F_MUL_EQ_MAX, F_MUL_JUST_OVER, F_MUL_ZERO,
    F_SUB_NEG, F_SUB_EQ, F_SUB_FIT, F_SIGNED_ORDER_DIFFERS, F_EQUAL_OPERANDS, F_FLOAT_SPECIAL, F_POW2_TRUE, F_RUP_OVERFLOW,
    F_RUP_EXACT, F_RUP_TOP, F_CLZ_ZERO, F_CLZ_SIGN, F_CONV_SAT_WHOLE, F_CONV_SAT_FINAL_ADD, F_CONV_FIT_HIGH, F_CONV_REM_NONZERO,
    F_CONV_REM_NONDIV, F_CONV_UP, F_CONV_DOWN, F_CONV_SAME, F_VARARGS_OVF, F_CONV_FITS, F_NFLAGS
};
static const char *const s_flag_name[F_NFLAGS] = {
    "add_overflow", "add_fits", "add_sum_eq_max", "add_sum_eq_2_pow_w", "mul_overflow", "mul_fits_both_ge_2",
    "mul_product_eq_max", "mul_just_over_max", "mul_zero_operand", "sub_negative", "sub_equal_operands", "sub_fits",
    "minmax_signed_order_differs", "minmax_equal_operands", "minmax_float_zero_or_inf", "is_pow2_true",
    "round_up_overflow_error", "round_up_already_pow2", "round_up_to_top_bit", "clz_ctz_zero_input", "clz_sign_bit_set",
    "conv_saturated_in_whole_part", "conv_saturated_in_final_add", "conv_fits_above_2_63", "conv_remainder_nonzero",
    "conv_remainder_zero_not_divisible", "conv_to_higher_frequency", "conv_to_lower_frequency", "conv_same_frequency",
    "varargs_overflow", "conv_fits"};

static bool s_flags_seen[F_NFLAGS]; /* mirror of this case's mechanism flags (mon has no getter) */

static void flag(int f) {
    s_flags_seen[f] = true;
    mon_flag(f);
}

/* ------------------------------------------------------------------------------------------ helpers */
static const char *u128_str(u128 v) {
    static char bufs[4][48];
    static int ix;
    char *b = bufs[ix++ & 3];
    if ((uint64_t)(v >> 64)) {
        snprintf(b, 48, "0x%llx%016llx", (unsigned long long)(v >> 64), (unsigned long long)v);
    } else {
        snprintf(b, 48, "0x%llx", (unsigned long long)v);
    }
    return b;
}

static void viol(const struct c16_variant *v, const char *ctx, const char *helper, const char *cls, const char *fmt, ...)
    __attribute__((format(printf, 5, 6), cold, noinline));
static void viol(const struct c16_variant *v, const char *ctx, const char *helper, const char *cls, const char *fmt, ...) {
    char key[160], detail[1024];
    va_list ap;
    va_start(ap, fmt);
    vsnprintf(detail, sizeof(detail), fmt, ap);
    va_end(ap);
    snprintf(key, sizeof(key), "C16:%s:%s:%s", v ? v->name : "lib", helper, cls);
    mon_violation(key, "%s [implementation: %s; built -O%d; %s context]", detail,
                  v ? v->what : "libaws-c-common.a (rel build, -O2)", v ? v->opt_level : 2, ctx);
}

static inline uint64_t wmask(unsigned w) {
    return w >= 64 ? ~(uint64_t)0 : (((uint64_t)1 << w) - 1);
}

/* ------------------------------------------------------------------------------------------ boundary sets */
#define BCAP 2048
static uint64_t s_b64[BCAP], s_b32[BCAP], s_b16[BCAP], s_bfreq[BCAP], s_bun[4 * BCAP];
static size_t s_nb64, s_nb32, s_nb16, s_nbfreq, s_nbun;

static int cmp_u64(const void *a, const void *b) {
    uint64_t x = *(const uint64_t *)a, y = *(const uint64_t *)b;
    return (x > y) - (x < y);
}

static size_t sort_unique(uint64_t *v, size_t n) {
    qsort(v, n, sizeof(*v), cmp_u64);
    size_t m = 0;
    for (size_t i = 0; i < n; ++i) {
        if (m == 0 || v[m - 1] != v[i]) {
            v[m++] = v[i];
        }
    }
    return m;
}

/* the divisors b for which floor(MAX/b) and its neighbours are put into B */
static const uint64_t s_bsmall[] = {1, 2, 3, 4, 5, 6, 7, 8, 9, 10, 11, 12, 13, 14, 15, 16, 17, 24, 31, 33, 60, 100, 255, 257, 641,
                                    1000, 3600, 10000, 65535, 65537, 86400, 100000, 1000000, 6700417, 10000000, 100000000,
                                    1000000000, 10000000000ULL, 1000000000000ULL};

static size_t build_B(unsigned w, uint64_t *out, size_t cap) {
    uint64_t M = wmask(w);
    size_t n = 0;
#define PUT(x)                                                                                                         \
    do {                                                                                                               \
        if (n >= cap) {                                                                                                \
            fprintf(stderr, "mon: c16 boundary set overflow\n");                                                       \
            exit(2);                                                                                                   \
        }                                                                                                              \
        out[n++] = (uint64_t)(x)&M;                                                                                    \
    } while (0)
    for (uint64_t x = 0; x <= 3; ++x) {
        PUT(x);
    }
    for (unsigned k = 1; k < w; ++k) {
        uint64_t p = (uint64_t)1 << k;
        PUT(p - 1);
        PUT(p);
        PUT(p + 1);
    }
    PUT(M - 2);
    PUT(M - 1);
    PUT(M);
    for (size_t i = 0; i < sizeof(s_bsmall) / sizeof(s_bsmall[0]) + w; ++i) {
        uint64_t b = i < sizeof(s_bsmall) / sizeof(s_bsmall[0]) ? s_bsmall[i]
                                                                 : (uint64_t)1 << (i - sizeof(s_bsmall) / sizeof(s_bsmall[0]));
        if (b == 0 || b > M) {
            continue;
        }
        uint64_t q = M / b;
        if (q > 0) {
            PUT(q - 1);
        }
        PUT(q);
        if (q < M) {
            PUT(q + 1);
        }
    }
    /* neighbours of floor(sqrt(MAX)) */
    uint64_t s = (uint64_t)1 << (w / 2);
    while ((u128)s * s > M) {
        --s;
    }
    for (int d = -2; d <= 2; ++d) {
        PUT(s + (uint64_t)(int64_t)d);
    }
#undef PUT
    return sort_unique(out, n);
}

static void build_sets(void) {
    s_nb64 = build_B(64, s_b64, BCAP);
    s_nb32 = build_B(32, s_b32, BCAP);
    s_nb16 = build_B(16, s_b16, BCAP);
    if (s_nb16 > 256) {
        s_nb16 = 256; /* keeps nb16^2 <= 65536 (see small kind); never reached with the set above */
    }
    /* frequencies 1..10^9 */
    size_t n = 0;
    static const uint64_t f0[] = {1, 2, 3, 4, 5, 6, 7, 8, 9, 10, 11, 12, 16, 24, 25, 50, 60, 64, 100, 128, 240, 250, 256, 360,
                                  999, 1000, 1001, 1024, 3600, 4096, 10000, 32768, 44100, 48000, 65535, 65536, 65537, 90000,
                                  100000, 999999, 1000000, 1000001, 1193182, 3579545, 10000000, 14318180, 19200000, 24000000,
                                  25000000, 33333333, 100000000, 123456789, 500000000, 536870912, 999999937, 999999999,
                                  1000000000};
    for (size_t i = 0; i < sizeof(f0) / sizeof(f0[0]); ++i) {
        s_bfreq[n++] = f0[i];
    }
    for (unsigned k = 1; k < 30; k += 2) {
        s_bfreq[n++] = ((uint64_t)1 << k) - 1;
        s_bfreq[n++] = ((uint64_t)1 << k) + 1;
    }
    s_nbfreq = sort_unique(s_bfreq, n);
    /* unary operands: B64, B32, every one- and two-bit pattern and their complements */
    n = 0;
    for (size_t i = 0; i < s_nb64; ++i) {
        s_bun[n++] = s_b64[i];
    }
    for (size_t i = 0; i < s_nb32; ++i) {
        s_bun[n++] = s_b32[i];
        s_bun[n++] = s_b32[i] << 32;
    }
    for (unsigned i = 0; i < 64; ++i) {
        for (unsigned j = i; j < 64; ++j) {
            uint64_t x = ((uint64_t)1 << i) | ((uint64_t)1 << j);
            s_bun[n++] = x;
            if (j < i + 4 || j == 63 || i == 0) {
                s_bun[n++] = ~x;
            }
        }
    }
    if (n > sizeof(s_bun) / sizeof(s_bun[0])) {
        fprintf(stderr, "mon: c16 unary set overflow\n");
        exit(2);
    }
    s_nbun = sort_unique(s_bun, n);
}

/* boundary ticks that depend on the frequency pair */
#define NDERIVED 20
static void derive_ticks(uint64_t of, uint64_t nf, uint64_t *out) {
    size_t n = 0;
    const u128 M = ~(uint64_t)0;
#define CLIP(x) ((uint64_t)((x) > M ? M : (x)))
    /* smallest tick count whose conversion does not fit: ceil(2^64 * old / new) */
    u128 tstar = ((((u128)1 << 64) * of) + nf - 1) / nf;
    if (tstar > M) {
        tstar = M;
    }
    for (int d = -2; d <= 2; ++d) {
        u128 t = tstar + (u128)(int64_t)d; /* tstar >= 1 */
        if (d < 0 && tstar < (u128)(-d)) {
            t = 0;
        }
        out[n++] = CLIP(t);
    }
    /* whole part just fits: q = floor(MAX/new), ticks = q*old + r */
    u128 q = M / nf;
    u128 base = q * of;
    out[n++] = CLIP(base + of - 1);
    out[n++] = CLIP(base + of / 2);
    out[n++] = CLIP(base);
    out[n++] = CLIP(base > 0 ? base - 1 : 0);
    out[n++] = CLIP(base + of);
    out[n++] = of - 1;
    out[n++] = of;
    out[n++] = of + 1;
    out[n++] = 2 * of - 1;
    uint64_t ratio = nf < of ? of / nf : 1;
    out[n++] = ratio - 1;
    out[n++] = ratio;
    out[n++] = ratio + 1;
    out[n++] = (uint64_t)M - (uint64_t)M % ratio;
    out[n++] = (uint64_t)M - (uint64_t)M % ratio - 1;
    out[n++] = (uint64_t)M / ratio;
#undef CLIP
    if (n != NDERIVED) {
        fprintf(stderr, "mon: c16 derive_ticks count %zu\n", n);
        exit(2);
    }
}

static const uint64_t s_ticks_small[] = {0, 1, 2, 999, 1000, 1000000000ULL, 0xFFFFFFFFULL, 0x100000000ULL, 1ULL << 53,
                                         0x7FFFFFFFFFFFFFFFULL, 0x8000000000000000ULL, 0x8000000000000001ULL,
                                         0xFFFFFFFFFFFFFFFFULL / 1000, 0xFFFFFFFFFFFFFFFFULL / 1000000000ULL,
                                         0xFFFFFFFFFFFFFFFEULL, 0xFFFFFFFFFFFFFFFFULL};
#define NTICKS_SMALL (sizeof(s_ticks_small) / sizeof(s_ticks_small[0]))
static const uint64_t s_units[4] = {AWS_TIMESTAMP_SECS, AWS_TIMESTAMP_MILLIS, AWS_TIMESTAMP_MICROS, AWS_TIMESTAMP_NANOS};

static const float s_bfloat[] = {0.0f, -0.0f, 1.0f, -1.0f, 0.5f, -0.5f, 1.0000001f, 0.99999994f, FLT_MIN, -FLT_MIN, 1e-45f, -1e-45f,
                                 FLT_MAX, -FLT_MAX, INFINITY, -INFINITY, 16777216.0f, 16777217.0f, 3.0f, -3.0f};
static const double s_bdouble[] = {0.0, -0.0, 1.0, -1.0, 0.5, -0.5, 1.0000000000000002, 0.9999999999999999, DBL_MIN, -DBL_MIN,
                                   4.9e-324, -4.9e-324, DBL_MAX, -DBL_MAX, INFINITY, -INFINITY, 9007199254740992.0,
                                   9007199254740993.0, 3.0, -3.0};
#define NBFLOAT (sizeof(s_bfloat) / sizeof(s_bfloat[0]))
#define NBDOUBLE (sizeof(s_bdouble) / sizeof(s_bdouble[0]))

/* ------------------------------------------------------------------------------------------ the plan */
static uint64_t s_exh_tuples[K_N], s_exh_blocks[K_N], s_exh_first[K_N], s_exh_total;

static void build_plan(void) {
    s_exh_tuples[K_BIN64] = (uint64_t)s_nb64 * s_nb64;
    s_exh_tuples[K_BIN32] = (uint64_t)s_nb32 * s_nb32;
    s_exh_tuples[K_SMALL] = 65536;
    s_exh_tuples[K_UNARY] = s_nbun;
    s_exh_tuples[K_CONVUNIT] = 16 * (uint64_t)(s_nb64 + NDERIVED);
    s_exh_tuples[K_CONVU64] = (uint64_t)s_nbfreq * s_nbfreq * (NTICKS_SMALL + NDERIVED);
    uint64_t pos = 0;
    for (int k = 0; k < K_N; ++k) {
        s_exh_blocks[k] = (s_exh_tuples[k] + BLOCK - 1) / BLOCK;
        s_exh_first[k] = pos;
        pos += s_exh_blocks[k];
    }
    s_exh_total = pos;
}

/* ------------------------------------------------------------------------------------------ operand generation */
static uint64_t strat(struct mon_rng *r, unsigned w) {
    unsigned bits = (unsigned)mon_below(r, w + 1);
    if (!bits) {
        return 0;
    }
    uint64_t top = (uint64_t)1 << (bits - 1), all = wmask(bits), v;
    switch (mon_below(r, 8)) {
        case 0:
            v = top;
            break;
        case 1:
            v = all;
            break;
        case 2:
            v = top + mon_below(r, 4);
            break;
        case 3:
            v = all - mon_below(r, 4);
            break;
        default:
            v = (mon_rand(r) & all) | top;
            break;
    }
    return v & wmask(w);
}

static void gen_pair(struct mon_rng *r, unsigned w, const uint64_t *B, size_t nB, uint64_t *pa, uint64_t *pb) {
    uint64_t M = wmask(w), a = strat(r, w), b;
    uint64_t delta = (uint64_t)(int64_t)((int)mon_below(r, 5) - 2);
    switch (mon_below(r, 10)) {
        case 0:
        case 1:
        case 2:
            b = strat(r, w);
            break;
        case 3:
        case 4: /* around the multiplication boundary */
            if (a == 0) {
                a = 1 + mon_below(r, 1000);
            }
            b = M / a + delta;
            break;
        case 5:
        case 6: /* around the addition boundary */
            b = M - a + delta;
            break;
        case 7: /* around the subtraction boundary */
            b = a + delta;
            break;
        case 8:
            a = B[mon_below(r, nB)];
            b = strat(r, w);
            break;
        default:
            a = mon_rand(r);
            b = mon_rand(r);
            break;
    }
    a &= M;
    b &= M;
    if (mon_chance(r, 1, 2)) {
        uint64_t t = a;
        a = b;
        b = t;
    }
    *pa = a;
    *pb = b;
}

static uint64_t gen_freq(struct mon_rng *r) {
    uint64_t v;
    switch (mon_below(r, 4)) {
        case 0:
            return s_bfreq[mon_below(r, s_nbfreq)];
        case 1:
            return 1 + mon_below(r, 1000000000);
        default:
            v = strat(r, 30);
            if (v == 0) {
                v = 1;
            }
            if (v > 1000000000) {
                v = 1000000000 - (v & 0xFFFF);
            }
            return v;
    }
}

static void gen_freq_pair(struct mon_rng *r, uint64_t *pof, uint64_t *pnf) {
    uint64_t of = gen_freq(r), nf = gen_freq(r);
    switch (mon_below(r, 6)) {
        case 0: { /* old is a multiple of new (remainder rule applies) */
            uint64_t k = 1 + strat(r, 30);
            if (nf * k > 1000000000) {
                k = 1000000000 / nf;
            }
            of = nf * (k ? k : 1);
            break;
        }
        case 1: { /* new is a multiple of old */
            uint64_t k = 1 + strat(r, 30);
            if (of * k > 1000000000) {
                k = 1000000000 / of;
            }
            nf = of * (k ? k : 1);
            break;
        }
        case 2:
            nf = of;
            break;
        default:
            break;
    }
    *pof = of;
    *pnf = nf;
}

static uint64_t gen_ticks(struct mon_rng *r, uint64_t of, uint64_t nf) {
    uint64_t d[NDERIVED];
    switch (mon_below(r, 8)) {
        case 0:
        case 1:
            return strat(r, 64);
        case 2:
        case 3:
        case 4:
            derive_ticks(of, nf, d);
            return d[mon_below(r, NDERIVED)] + (uint64_t)(int64_t)((int)mon_below(r, 7) - 3);
        case 5:
            return s_b64[mon_below(r, s_nb64)];
        case 6: { /* whole part close to the limit, arbitrary fractional part */
            u128 q = (u128) ~(uint64_t)0 / nf;
            uint64_t back = mon_below(r, 3);
            q = q > back ? q - back : q;
            u128 t = q * of + mon_below(r, of);
            return t > (u128) ~(uint64_t)0 ? ~(uint64_t)0 : (uint64_t)t;
        }
        default:
            return mon_rand(r);
    }
}

/* ------------------------------------------------------------------------------------------ reference + checks */
static const char *const s_n64[S64_N] = {"add_u64", "mul_u64", "sub_u64", "add_size", "mul_size", "sub_size"};
static const char *const s_n32[S32_N] = {"add_u32", "mul_u32", "sub_u32"};
static const char *const s_nmm64[M64_N] = {"min_u64", "max_u64", "min_i64", "max_i64", "min_size", "max_size"};
static const char *const s_nmm32[M32_N] = {"min_u32", "max_u32", "min_i32", "max_i32", "min_int", "max_int"};
static const char *const s_nmms[MS_N] = {"min_u8", "max_u8", "min_i8", "max_i8", "min_u16", "max_u16", "min_i16", "max_i16"};
static const char *const s_nun[U_N] = {"clz_u32", "clz_i32", "clz_u64", "clz_i64", "clz_size",
                                       "ctz_u32", "ctz_i32", "ctz_u64", "ctz_i64", "ctz_size"};

struct refbin {
    uint64_t sat[3]; /* add, mul, sub */
    uint64_t exact[3];
    bool ovf[3];
    u128 wide[3]; /* for the witness text only; sub: a-b as two's complement */
};

static uint64_t s_cnt_ovf_untouched, s_cnt_ovf_written, s_cnt_helper_evals;

static void ref_bin(unsigned w, uint64_t a, uint64_t b, struct refbin *r) {
    const u128 M = wmask(w);
    u128 s = (u128)a + b, p = (u128)a * b;
    r->wide[0] = s;
    r->ovf[0] = s > M;
    r->sat[0] = r->ovf[0] ? (uint64_t)M : (uint64_t)s;
    r->exact[0] = (uint64_t)s;
    r->wide[1] = p;
    r->ovf[1] = p > M;
    r->sat[1] = r->ovf[1] ? (uint64_t)M : (uint64_t)p;
    r->exact[1] = (uint64_t)p;
    r->wide[2] = (u128)a - b;
    r->ovf[2] = a < b;
    r->sat[2] = r->ovf[2] ? 0 : a - b;
    r->exact[2] = a - b;
    /* mechanisms */
    flag(r->ovf[0] ? F_ADD_OVF : F_ADD_FIT);
    if (s == M) {
        flag(F_ADD_EQ_MAX);
    } else if (s == M + 1) {
        flag(F_ADD_EQ_2W);
    }
    if (r->ovf[1]) {
        flag(F_MUL_OVF);
        if (p - M <= (a > b ? a : b)) {
            flag(F_MUL_JUST_OVER);
        }
    } else if (a >= 2 && b >= 2) {
        flag(F_MUL_FIT);
        if (p == M) {
            flag(F_MUL_EQ_MAX);
        }
    } else if ((a == 0 || b == 0) && (a | b) > (M >> 1)) {
        flag(F_MUL_ZERO);
    }
    flag(r->ovf[2] ? F_SUB_NEG : (a == b ? F_SUB_EQ : F_SUB_FIT));
}

static const char *const s_opsym[3] = {"+", "*", "-"};

/* one saturating + one checked result of operation `op` (0 add, 1 mul, 2 sub) against the reference */
static inline void check_binop(
    const struct c16_variant *v,
    const char *ctx,
    const char *name,
    int op,
    unsigned w,
    uint64_t a,
    uint64_t b,
    const struct refbin *r,
    uint64_t sat,
    uint64_t out,
    int rc,
    int err) {
    if (sat != r->sat[op]) {
        char helper[48];
        snprintf(helper, sizeof(helper), "%s_saturating", name);
        viol(v, ctx, helper, r->ovf[op] ? "saturation" : "value",
             "aws_%s(0x%llx, 0x%llx) = 0x%llx, expected 0x%llx (exact a%sb = %s%s)", helper, (unsigned long long)a,
             (unsigned long long)b, (unsigned long long)sat, (unsigned long long)r->sat[op], s_opsym[op],
             op == 2 && r->ovf[2] ? "negative, low bits " : "", u128_str(r->wide[op]));
    }
    if (r->ovf[op]) {
        if (rc == AWS_OP_SUCCESS) {
            char helper[48];
            snprintf(helper, sizeof(helper), "%s_checked", name);
            viol(v, ctx, helper, "overflow-not-reported",
                 "aws_%s(0x%llx, 0x%llx) returned AWS_OP_SUCCESS with *r=0x%llx although a%sb = %s%s does not fit %u bits",
                 helper, (unsigned long long)a, (unsigned long long)b, (unsigned long long)out, s_opsym[op],
                 op == 2 ? "negative, low bits " : "", u128_str(r->wide[op]), w);
        } else if (rc != AWS_OP_ERR || err != AWS_ERROR_OVERFLOW_DETECTED) {
            char helper[48];
            snprintf(helper, sizeof(helper), "%s_checked", name);
            viol(v, ctx, helper, "error-code",
                 "aws_%s(0x%llx, 0x%llx) overflows: returned %d with aws_last_error()=%d, expected AWS_OP_ERR(-1) and "
                 "AWS_ERROR_OVERFLOW_DETECTED(%d)",
                 helper, (unsigned long long)a, (unsigned long long)b, rc, err, (int)AWS_ERROR_OVERFLOW_DETECTED);
        }
        if (out == (C16_SENTINEL64 & wmask(w))) {
            ++s_cnt_ovf_untouched;
        } else {
            ++s_cnt_ovf_written;
        }
    } else if (rc != AWS_OP_SUCCESS) {
        char helper[48];
        snprintf(helper, sizeof(helper), "%s_checked", name);
        viol(v, ctx, helper, "false-overflow",
             "aws_%s(0x%llx, 0x%llx) returned %d (aws_last_error()=%d) although a%sb = %s fits %u bits", helper,
             (unsigned long long)a, (unsigned long long)b, rc, err, s_opsym[op], u128_str(r->wide[op]), w);
    } else if (out != r->exact[op] || err != 0) {
        char helper[48];
        snprintf(helper, sizeof(helper), "%s_checked", name);
        if (out != r->exact[op]) {
            viol(v, ctx, helper, "result", "aws_%s(0x%llx, 0x%llx) succeeded with *r=0x%llx, expected 0x%llx", helper,
                 (unsigned long long)a, (unsigned long long)b, (unsigned long long)out, (unsigned long long)r->exact[op]);
        } else {
            viol(v, ctx, helper, "error-raised-on-success",
                 "aws_%s(0x%llx, 0x%llx) returned AWS_OP_SUCCESS but raised error %d", helper, (unsigned long long)a,
                 (unsigned long long)b, err);
        }
    }
}

static inline void check_mm(
    const struct c16_variant *v,
    const char *ctx,
    const char *name,
    uint64_t a,
    uint64_t b,
    uint64_t got,
    uint64_t want) {
    if (got != want) {
        viol(v, ctx, name, "value", "aws_%s(0x%llx, 0x%llx) = 0x%llx, expected 0x%llx", name, (unsigned long long)a,
             (unsigned long long)b, (unsigned long long)got, (unsigned long long)want);
    }
}

static void check64(const struct c16_variant *v, const char *ctx, uint64_t a, uint64_t b, const struct refbin *r,
                    const struct c16_o64 *o) {
    for (int k = 0; k < S64_N; ++k) {
        check_binop(v, ctx, s_n64[k], k % 3, 64, a, b, r, o->sat[k], o->out[k], o->rc[k], o->err[k]);
    }
    int64_t sa = (int64_t)a, sb = (int64_t)b;
    uint64_t umin = a < b ? a : b, umax = a < b ? b : a;
    uint64_t smin = (uint64_t)(sa < sb ? sa : sb), smax = (uint64_t)(sa < sb ? sb : sa);
    check_mm(v, ctx, s_nmm64[M64_MIN_U64], a, b, o->mm[M64_MIN_U64], umin);
    check_mm(v, ctx, s_nmm64[M64_MAX_U64], a, b, o->mm[M64_MAX_U64], umax);
    check_mm(v, ctx, s_nmm64[M64_MIN_I64], a, b, o->mm[M64_MIN_I64], smin);
    check_mm(v, ctx, s_nmm64[M64_MAX_I64], a, b, o->mm[M64_MAX_I64], smax);
    check_mm(v, ctx, s_nmm64[M64_MIN_SIZE], a, b, o->mm[M64_MIN_SIZE], umin);
    check_mm(v, ctx, s_nmm64[M64_MAX_SIZE], a, b, o->mm[M64_MAX_SIZE], umax);
}

static void check32(const struct c16_variant *v, const char *ctx, uint32_t a, uint32_t b, const struct refbin *r,
                    const struct c16_o32 *o) {
    for (int k = 0; k < S32_N; ++k) {
        check_binop(v, ctx, s_n32[k], k, 32, a, b, r, o->sat[k], o->out[k], o->rc[k], o->err[k]);
    }
    int32_t sa = (int32_t)a, sb = (int32_t)b;
    uint32_t umin = a < b ? a : b, umax = a < b ? b : a;
    uint32_t smin = (uint32_t)(sa < sb ? sa : sb), smax = (uint32_t)(sa < sb ? sb : sa);
    check_mm(v, ctx, s_nmm32[M32_MIN_U32], a, b, o->mm[M32_MIN_U32], umin);
    check_mm(v, ctx, s_nmm32[M32_MAX_U32], a, b, o->mm[M32_MAX_U32], umax);
    check_mm(v, ctx, s_nmm32[M32_MIN_I32], a, b, o->mm[M32_MIN_I32], smin);
    check_mm(v, ctx, s_nmm32[M32_MAX_I32], a, b, o->mm[M32_MAX_I32], smax);
    check_mm(v, ctx, s_nmm32[M32_MIN_INT], a, b, o->mm[M32_MIN_INT], smin);
    check_mm(v, ctx, s_nmm32[M32_MAX_INT], a, b, o->mm[M32_MAX_INT], smax);
}

/* aws_add_size_checked_varargs lives in the library object code (source/math.c) */
static void check_varargs(uint64_t a, uint64_t b, const struct refbin *r) {
    size_t out = (size_t)C16_SENTINEL64;
    aws_reset_error();
    int rc = aws_add_size_checked_varargs(2, &out, (size_t)a, (size_t)b);
    int err = aws_last_error();
    struct refbin r2 = *r;
    check_binop(NULL, "library call, 2 arguments", "add_size_checked_varargs", 0, 64, a, b, &r2, r->sat[0], out, rc, err);
    /* three arguments: a + b + a */
    u128 s3 = (u128)a + b + a;
    out = (size_t)C16_SENTINEL64;
    aws_reset_error();
    rc = aws_add_size_checked_varargs(3, &out, (size_t)a, (size_t)b, (size_t)a);
    err = aws_last_error();
    bool ovf = s3 > (u128) ~(uint64_t)0;
    if (ovf) {
        flag(F_VARARGS_OVF);
    }
    if (ovf ? (rc != AWS_OP_ERR || err != AWS_ERROR_OVERFLOW_DETECTED) : (rc != AWS_OP_SUCCESS || out != (uint64_t)s3)) {
        viol(NULL, "library call, 3 arguments", "add_size_checked_varargs", ovf ? "overflow-not-reported" : "result",
             "aws_add_size_checked_varargs(3, &r, 0x%llx, 0x%llx, 0x%llx): rc=%d err=%d r=0x%llx; exact sum %s", (unsigned long long)a,
             (unsigned long long)b, (unsigned long long)a, rc, err, (unsigned long long)out, u128_str(s3));
    }
    /* zero and one argument */
    out = (size_t)C16_SENTINEL64;
    rc = aws_add_size_checked_varargs(1, &out, (size_t)b);
    size_t out0 = (size_t)C16_SENTINEL64;
    int rc0 = aws_add_size_checked_varargs(0, &out0);
    if (rc != AWS_OP_SUCCESS || out != b || rc0 != AWS_OP_SUCCESS || out0 != 0) {
        viol(NULL, "library call, 0/1 arguments", "add_size_checked_varargs", "result",
             "aws_add_size_checked_varargs(1,&r,0x%llx): rc=%d r=0x%llx; (0,&r): rc=%d r=0x%llx", (unsigned long long)b, rc,
             (unsigned long long)out, rc0, (unsigned long long)out0);
    }
}

/* bit-by-bit references */
static unsigned ref_clz(uint64_t x, unsigned w) {
    unsigned n = 0;
    for (int i = (int)w - 1; i >= 0 && !((x >> i) & 1); --i) {
        ++n;
    }
    return n;
}

static unsigned ref_ctz(uint64_t x, unsigned w) {
    unsigned n = 0;
    for (unsigned i = 0; i < w && !((x >> i) & 1); ++i) {
        ++n;
    }
    return n;
}

static void ref_unary(uint64_t x, struct c16_ounary *r) {
    uint64_t lo = x & 0xFFFFFFFFu;
    r->cnt[U_CLZ_U32] = r->cnt[U_CLZ_I32] = ref_clz(lo, 32);
    r->cnt[U_CLZ_U64] = r->cnt[U_CLZ_I64] = r->cnt[U_CLZ_SIZE] = ref_clz(x, 64);
    r->cnt[U_CTZ_U32] = r->cnt[U_CTZ_I32] = ref_ctz(lo, 32);
    r->cnt[U_CTZ_U64] = r->cnt[U_CTZ_I64] = r->cnt[U_CTZ_SIZE] = ref_ctz(x, 64);
    unsigned pop = 0;
    for (unsigned i = 0; i < 64; ++i) {
        pop += (unsigned)((x >> i) & 1);
    }
    r->is_pow2 = pop == 1;
    /* smallest power of two >= x, if representable in size_t */
    u128 p = 1;
    while (p < x) {
        p <<= 1;
    }
    if (p > (u128) ~(uint64_t)0) {
        r->rup_rc = AWS_OP_ERR;
        r->rup_err = AWS_ERROR_OVERFLOW_DETECTED;
        r->rup_out = 0;
        flag(F_RUP_OVERFLOW);
    } else {
        r->rup_rc = AWS_OP_SUCCESS;
        r->rup_err = 0;
        r->rup_out = (uint64_t)p;
        if (r->is_pow2) {
            flag(F_RUP_EXACT);
        }
        if (p == (u128)1 << 63) {
            flag(F_RUP_TOP);
        }
    }
    if (r->is_pow2) {
        flag(F_POW2_TRUE);
    }
    if (x == 0 || lo == 0) {
        flag(F_CLZ_ZERO);
    }
    if ((x >> 63) || (lo >> 31)) {
        flag(F_CLZ_SIGN);
    }
}

static void check_unary(const struct c16_variant *v, const char *ctx, uint64_t x, const struct c16_ounary *r,
                        const struct c16_ounary *o) {
    for (int k = 0; k < U_N; ++k) {
        if (o->cnt[k] != r->cnt[k]) {
            viol(v, ctx, s_nun[k], "value", "aws_%s(0x%llx) = %llu, expected %llu", s_nun[k],
                 (unsigned long long)((k == U_CLZ_U32 || k == U_CLZ_I32 || k == U_CTZ_U32 || k == U_CTZ_I32) ? (x & 0xFFFFFFFFu) : x),
                 (unsigned long long)o->cnt[k], (unsigned long long)r->cnt[k]);
        }
    }
    if (o->is_pow2 != r->is_pow2) {
        viol(v, ctx, "is_power_of_two", "value", "aws_is_power_of_two(0x%llx) = %d, expected %d", (unsigned long long)x, o->is_pow2,
             r->is_pow2);
    }
    if (r->rup_rc == AWS_OP_SUCCESS) {
        if (o->rup_rc != AWS_OP_SUCCESS) {
            viol(v, ctx, "round_up_to_power_of_two", "false-overflow",
                 "aws_round_up_to_power_of_two(0x%llx) returned %d (error %d), expected success with 0x%llx", (unsigned long long)x,
                 o->rup_rc, o->rup_err, (unsigned long long)r->rup_out);
        } else if (o->rup_out != r->rup_out) {
            viol(v, ctx, "round_up_to_power_of_two", "result", "aws_round_up_to_power_of_two(0x%llx) gave 0x%llx, expected 0x%llx",
                 (unsigned long long)x, (unsigned long long)o->rup_out, (unsigned long long)r->rup_out);
        } else if (o->rup_err != 0) {
            viol(v, ctx, "round_up_to_power_of_two", "error-raised-on-success",
                 "aws_round_up_to_power_of_two(0x%llx) succeeded but raised error %d", (unsigned long long)x, o->rup_err);
        }
    } else if (o->rup_rc == AWS_OP_SUCCESS) {
        viol(v, ctx, "round_up_to_power_of_two", "overflow-not-reported",
             "aws_round_up_to_power_of_two(0x%llx) returned AWS_OP_SUCCESS with 0x%llx; no power of two >= n fits size_t",
             (unsigned long long)x, (unsigned long long)o->rup_out);
    } else if (o->rup_rc != AWS_OP_ERR || o->rup_err != AWS_ERROR_OVERFLOW_DETECTED) {
        viol(v, ctx, "round_up_to_power_of_two", "error-code",
             "aws_round_up_to_power_of_two(0x%llx): returned %d with aws_last_error()=%d, expected AWS_OP_ERR and "
             "AWS_ERROR_OVERFLOW_DETECTED",
             (unsigned long long)x, o->rup_rc, o->rup_err);
    }
}

struct refconv {
    uint64_t res, rem;
    u128 exact;
};

static void ref_conv(uint64_t t, uint64_t of, uint64_t nf, struct refconv *r) {
    const u128 M = ~(uint64_t)0;
    r->exact = (u128)t * nf / of;
    r->res = r->exact > M ? (uint64_t)M : (uint64_t)r->exact;
    r->rem = (nf < of && of % nf == 0) ? t % (of / nf) : 0;
    if (r->exact > M) {
        u128 whole = (u128)(t / of) * nf;
        flag(whole > M ? F_CONV_SAT_WHOLE : F_CONV_SAT_FINAL_ADD);
    } else {
        flag(F_CONV_FITS);
        if (r->exact >> 63) {
            flag(F_CONV_FIT_HIGH);
        }
    }
    if (r->rem) {
        flag(F_CONV_REM_NONZERO);
    }
    if (nf < of) {
        flag(F_CONV_DOWN);
        if (of % nf) {
            flag(F_CONV_REM_NONDIV);
        }
    } else {
        flag(nf > of ? F_CONV_UP : F_CONV_SAME);
    }
}

static void check_conv(const struct c16_variant *v, const char *ctx, int unit, uint64_t t, uint64_t of, uint64_t nf,
                       const struct refconv *r, const struct c16_oconv *o) {
    const char *name = unit ? "timestamp_convert" : "timestamp_convert_u64";
    if (o->res_null != r->res || o->res_rem != r->res) {
        viol(v, ctx, name, r->exact > (u128) ~(uint64_t)0 ? "saturation" : "value",
             "aws_%s(ticks=%llu (0x%llx), old=%llu, new=%llu) = %llu with remainder=NULL, %llu with remainder!=NULL; expected %llu "
             "(floor(ticks*new/old) = %s)",
             name, (unsigned long long)t, (unsigned long long)t, (unsigned long long)of, (unsigned long long)nf,
             (unsigned long long)o->res_null, (unsigned long long)o->res_rem, (unsigned long long)r->res, u128_str(r->exact));
    }
    if (o->rem != r->rem) {
        viol(v, ctx, name, "remainder",
             "aws_%s(ticks=%llu, old=%llu, new=%llu, &rem) with rem pre-set to 0: rem = %llu, documented rule gives %llu", name,
             (unsigned long long)t, (unsigned long long)of, (unsigned long long)nf, (unsigned long long)o->rem,
             (unsigned long long)r->rem);
    }
}

/* pressure context (c16_variant.h): value, overflow flag, and the eleven by-standers must come back unchanged */
static const uint64_t s_kin[C16_NPRESS] = {0x9E3779B97F4A7C15ULL, 0xBF58476D1CE4E5B9ULL, 0x94D049BB133111EBULL, 0xD6E8FEB86659FD93ULL,
                                           0xCA5A826395121157ULL, 0x2545F4914F6CDD1DULL, 0x0123456789ABCDEFULL, 0xFEDCBA9876543210ULL,
                                           0x5555AAAA3333CCCCULL, 0x0F0F0F0FF0F0F0F0ULL, 0x8000000000000001ULL};

static void check_press(const struct c16_variant *v, int pk, const char *helper, uint64_t a, uint64_t b, uint64_t c, bool is_chk,
                        bool ovf, uint64_t want) {
    struct c16_opress o;
    memset(&o, 0x5A, sizeof(o));
    v->press[pk](a, b, c, s_kin, &o);
    for (int i = 0; i < C16_NPRESS; ++i) {
        if (o.kout[i] != s_kin[i]) {
            viol(v, "pressure", helper, "register-clobbered",
                 "aws_%s(0x%llx, 0x%llx%s): by-stander value %d held in a register across the inlined helper changed from 0x%llx to "
                 "0x%llx",
                 helper, (unsigned long long)a, (unsigned long long)b, pk == P_CONV_U64 ? ", ..." : "", i,
                 (unsigned long long)s_kin[i], (unsigned long long)o.kout[i]);
            break;
        }
    }
    if (is_chk) {
        if ((o.rc != AWS_OP_SUCCESS) != ovf || (ovf && o.rc != AWS_OP_ERR)) {
            viol(v, "pressure", helper, ovf ? "overflow-not-reported" : "false-overflow", "aws_%s(0x%llx, 0x%llx) returned %d, %s",
                 helper, (unsigned long long)a, (unsigned long long)b, o.rc, ovf ? "exact result does not fit" : "exact result fits");
        } else if (!ovf && o.val != want) {
            viol(v, "pressure", helper, "result", "aws_%s(0x%llx, 0x%llx) succeeded with *r=0x%llx, expected 0x%llx", helper,
                 (unsigned long long)a, (unsigned long long)b, (unsigned long long)o.val, (unsigned long long)want);
        }
    } else if (o.val != want) {
        viol(v, "pressure", helper, ovf ? "saturation" : "value", "aws_%s(0x%llx, 0x%llx%s) = 0x%llx, expected 0x%llx", helper,
             (unsigned long long)a, (unsigned long long)b, pk == P_CONV_U64 ? ", ..." : "", (unsigned long long)o.val,
             (unsigned long long)want);
    }
}

/* ------------------------------------------------------------------------------------------ block runners */
static uint64_t s_a[BLOCK], s_b[BLOCK], s_c[BLOCK];
static uint32_t s_a32[BLOCK], s_b32v[BLOCK];
static float s_fa[BLOCK], s_fb[BLOCK];
static double s_da[BLOCK], s_db[BLOCK];
static union {
    struct c16_o64 o64[CHUNK];
    struct c16_o32 o32[CHUNK];
    struct c16_osmall os[CHUNK];
    struct c16_ounary ou[CHUNK];
    struct c16_oconv oc[CHUNK];
} s_out;

static uint64_t s_cnt_literal_evals;

static void run_bin64(size_t n) {
    static struct refbin ref[CHUNK];
    for (size_t base = 0; base < n; base += CHUNK) {
        size_t m = n - base < CHUNK ? n - base : CHUNK;
        for (size_t i = 0; i < m; ++i) {
            uint64_t a = s_a[base + i], b = s_b[base + i];
            ref_bin(64, a, b, &ref[i]);
            if (((int64_t)a < (int64_t)b) != (a < b)) {
                flag(F_SIGNED_ORDER_DIFFERS);
            }
            if (a == b) {
                flag(F_EQUAL_OPERANDS);
            }
            check_varargs(a, b, &ref[i]);
        }
        for (int vi = 0; vi < NVAR; ++vi) {
            const struct c16_variant *v = s_var[vi];
            v->blk64(s_a + base, s_b + base, m, s_out.o64);
            for (size_t i = 0; i < m; ++i) {
                check64(v, "block", s_a[base + i], s_b[base + i], &ref[i], &s_out.o64[i]);
            }
            for (size_t i = 0; i < m; ++i) {
                uint64_t a = s_a[base + i], b = s_b[base + i];
                struct c16_o64 o;
                for (int k = 0; k < S64_N; ++k) {
                    o.sat[k] = v->sat64[k](a, b);
                }
                for (int k = 0; k < S64_N; ++k) {
                    uint64_t r = C16_SENTINEL64;
                    aws_reset_error();
                    o.rc[k] = v->chk64[k](a, b, &r);
                    o.err[k] = aws_last_error();
                    o.out[k] = r;
                }
                for (int k = 0; k < M64_N; ++k) {
                    o.mm[k] = v->mm64[k](a, b);
                }
                check64(v, "thin", a, b, &ref[i], &o);
                check_press(v, P_ADD_U64_SAT, "add_u64_saturating", a, b, 0, false, ref[i].ovf[0], ref[i].sat[0]);
                check_press(v, P_ADD_U64_CHK, "add_u64_checked", a, b, 0, true, ref[i].ovf[0], ref[i].exact[0]);
                check_press(v, P_MUL_U64_SAT, "mul_u64_saturating", a, b, 0, false, ref[i].ovf[1], ref[i].sat[1]);
                check_press(v, P_MUL_U64_CHK, "mul_u64_checked", a, b, 0, true, ref[i].ovf[1], ref[i].exact[1]);
            }
        }
    }
    s_cnt_helper_evals += (uint64_t)n * (NVAR * (2 * (2 * S64_N + M64_N) + 4) + 4);
    /* literal context: the first LITN operands of the block against every literal of C16_LITS, in both operand positions */
    {
        enum { LITN = 64 };
        static struct c16_o64 lo[2 * LITN];
        size_t m = n < LITN ? n : LITN;
        for (int vi = 0; vi < NVAR; ++vi) {
            const struct c16_variant *v = s_var[vi];
            for (int k = 0; k < C16_NLIT; ++k) {
                memset(lo, 0x5A, sizeof(lo));
                v->lit64[k](s_a, m, lo);
                for (size_t i = 0; i < m; ++i) {
                    struct refbin r1, r2;
                    ref_bin(64, s_a[i], C16_LIT_VALUES[k], &r1);
                    ref_bin(64, C16_LIT_VALUES[k], s_a[i], &r2);
                    check64(v, "literal-second-operand", s_a[i], C16_LIT_VALUES[k], &r1, &lo[2 * i]);
                    check64(v, "literal-first-operand", C16_LIT_VALUES[k], s_a[i], &r2, &lo[2 * i + 1]);
                }
            }
        }
        s_cnt_literal_evals += (uint64_t)m * NVAR * C16_NLIT * 2 * (2 * S64_N + M64_N);
        s_cnt_helper_evals += (uint64_t)m * NVAR * C16_NLIT * 2 * (2 * S64_N + M64_N);
    }
}

static void run_bin32(size_t n) {
    static struct refbin ref[CHUNK];
    for (size_t base = 0; base < n; base += CHUNK) {
        size_t m = n - base < CHUNK ? n - base : CHUNK;
        for (size_t i = 0; i < m; ++i) {
            uint32_t a = s_a32[base + i], b = s_b32v[base + i];
            ref_bin(32, a, b, &ref[i]);
            if (((int32_t)a < (int32_t)b) != (a < b)) {
                flag(F_SIGNED_ORDER_DIFFERS);
            }
            if (a == b) {
                flag(F_EQUAL_OPERANDS);
            }
        }
        for (int vi = 0; vi < NVAR; ++vi) {
            const struct c16_variant *v = s_var[vi];
            v->blk32(s_a32 + base, s_b32v + base, m, s_out.o32);
            for (size_t i = 0; i < m; ++i) {
                check32(v, "block", s_a32[base + i], s_b32v[base + i], &ref[i], &s_out.o32[i]);
            }
            for (size_t i = 0; i < m; ++i) {
                uint32_t a = s_a32[base + i], b = s_b32v[base + i];
                struct c16_o32 o;
                for (int k = 0; k < S32_N; ++k) {
                    o.sat[k] = v->sat32[k](a, b);
                }
                for (int k = 0; k < S32_N; ++k) {
                    uint32_t r = C16_SENTINEL32;
                    aws_reset_error();
                    o.rc[k] = v->chk32[k](a, b, &r);
                    o.err[k] = aws_last_error();
                    o.out[k] = r;
                }
                for (int k = 0; k < M32_N; ++k) {
                    o.mm[k] = v->mm32[k](a, b);
                }
                check32(v, "thin", a, b, &ref[i], &o);
                check_press(v, P_ADD_U32_SAT, "add_u32_saturating", a, b, 0, false, ref[i].ovf[0], ref[i].sat[0]);
                check_press(v, P_ADD_U32_CHK, "add_u32_checked", a, b, 0, true, ref[i].ovf[0], ref[i].exact[0]);
                check_press(v, P_MUL_U32_SAT, "mul_u32_saturating", a, b, 0, false, ref[i].ovf[1], ref[i].sat[1]);
                check_press(v, P_MUL_U32_CHK, "mul_u32_checked", a, b, 0, true, ref[i].ovf[1], ref[i].exact[1]);
            }
        }
    }
    s_cnt_helper_evals += (uint64_t)n * NVAR * (2 * (2 * S32_N + M32_N) + 4);
}

static void check_fp(const struct c16_variant *v, const char *name, double a, double b, double got, bool is_min) {
    /* definition: the result is one of the operands and bounds both from the proper side (IEEE compare: -0 == +0) */
    bool ok = (got == a || got == b) && (is_min ? (got <= a && got <= b) : (got >= a && got >= b));
    if (!ok) {
        viol(v, "block", name, "value", "aws_%s(%.17g, %.17g) = %.17g", name, a, b, got);
    }
}

static void run_small(size_t n) {
    for (size_t base = 0; base < n; base += CHUNK) {
        size_t m = n - base < CHUNK ? n - base : CHUNK;
        for (int vi = 0; vi < NVAR; ++vi) {
            const struct c16_variant *v = s_var[vi];
            v->blksmall(s_a + base, s_b + base, s_fa + base, s_fb + base, s_da + base, s_db + base, m, s_out.os);
            for (size_t i = 0; i < m; ++i) {
                uint64_t x = s_a[base + i], y = s_b[base + i];
                const struct c16_osmall *o = &s_out.os[i];
                uint8_t x8 = (uint8_t)(x >> 16), y8 = (uint8_t)(y >> 16);
                uint16_t x16 = (uint16_t)x, y16 = (uint16_t)y;
                int8_t sx8 = (int8_t)x8, sy8 = (int8_t)y8;
                int16_t sx16 = (int16_t)x16, sy16 = (int16_t)y16;
                uint16_t want[MS_N];
                want[MS_MIN_U8] = x8 < y8 ? x8 : y8;
                want[MS_MAX_U8] = x8 < y8 ? y8 : x8;
                want[MS_MIN_I8] = (uint16_t)(int16_t)(sx8 < sy8 ? sx8 : sy8);
                want[MS_MAX_I8] = (uint16_t)(int16_t)(sx8 < sy8 ? sy8 : sx8);
                want[MS_MIN_U16] = x16 < y16 ? x16 : y16;
                want[MS_MAX_U16] = x16 < y16 ? y16 : x16;
                want[MS_MIN_I16] = (uint16_t)(sx16 < sy16 ? sx16 : sy16);
                want[MS_MAX_I16] = (uint16_t)(sx16 < sy16 ? sy16 : sx16);
                for (int k = 0; k < MS_N; ++k) {
                    if (o->mm[k] != want[k]) {
                        bool is8 = k < MS_MIN_U16;
                        viol(v, "block", s_nmms[k], "value", "aws_%s(0x%x, 0x%x) = 0x%x, expected 0x%x", s_nmms[k],
                             is8 ? x8 : x16, is8 ? y8 : y16, o->mm[k], want[k]);
                    }
                }
                if (vi == 0) {
                    if ((sx8 < sy8) != (x8 < y8) || (sx16 < sy16) != (x16 < y16)) {
                        flag(F_SIGNED_ORDER_DIFFERS);
                    }
                    if (x8 == y8 || x16 == y16) {
                        flag(F_EQUAL_OPERANDS);
                    }
                    if (s_fa[base + i] == 0 || isinf(s_fa[base + i]) || s_da[base + i] == 0 || isinf(s_da[base + i])) {
                        flag(F_FLOAT_SPECIAL);
                    }
                }
                check_fp(v, "min_float", s_fa[base + i], s_fb[base + i], o->fmin, true);
                check_fp(v, "max_float", s_fa[base + i], s_fb[base + i], o->fmax, false);
                check_fp(v, "min_double", s_da[base + i], s_db[base + i], o->dmin, true);
                check_fp(v, "max_double", s_da[base + i], s_db[base + i], o->dmax, false);
            }
        }
    }
    s_cnt_helper_evals += (uint64_t)n * NVAR * (MS_N + 4);
}

static void run_unary(size_t n) {
    static struct c16_ounary ref[CHUNK];
    for (size_t base = 0; base < n; base += CHUNK) {
        size_t m = n - base < CHUNK ? n - base : CHUNK;
        for (size_t i = 0; i < m; ++i) {
            ref_unary(s_a[base + i], &ref[i]);
        }
        for (int vi = 0; vi < NVAR; ++vi) {
            const struct c16_variant *v = s_var[vi];
            v->blkunary(s_a + base, m, s_out.ou);
            for (size_t i = 0; i < m; ++i) {
                check_unary(v, "block", s_a[base + i], &ref[i], &s_out.ou[i]);
            }
            for (size_t i = 0; i < m; ++i) {
                uint64_t x = s_a[base + i];
                struct c16_ounary o;
                for (int k = 0; k < U_N; ++k) {
                    o.cnt[k] = v->unary[k](x);
                }
                o.is_pow2 = v->is_pow2(x);
                uint64_t r = C16_SENTINEL64;
                aws_reset_error();
                o.rup_rc = v->round_up_pow2(x, &r);
                o.rup_err = aws_last_error();
                o.rup_out = r;
                check_unary(v, "thin", x, &ref[i], &o);
            }
        }
    }
    s_cnt_helper_evals += (uint64_t)n * NVAR * 2 * (U_N + 2);
}

/* s_a ticks, s_b old frequency, s_c new frequency */
static void run_conv(size_t n, int unit) {
    static struct refconv ref[CHUNK];
    for (size_t base = 0; base < n; base += CHUNK) {
        size_t m = n - base < CHUNK ? n - base : CHUNK;
        for (size_t i = 0; i < m; ++i) {
            ref_conv(s_a[base + i], s_b[base + i], s_c[base + i], &ref[i]);
        }
        for (int vi = 0; vi < NVAR; ++vi) {
            const struct c16_variant *v = s_var[vi];
            v->blkconv(s_a + base, s_b + base, s_c + base, m, unit, s_out.oc);
            for (size_t i = 0; i < m; ++i) {
                check_conv(v, "block", unit, s_a[base + i], s_b[base + i], s_c[base + i], &ref[i], &s_out.oc[i]);
            }
            for (size_t i = 0; i < m; ++i) {
                uint64_t t = s_a[base + i], of = s_b[base + i], nf = s_c[base + i];
                struct c16_oconv o;
                uint64_t rem = 0;
                if (unit) {
                    o.res_null = v->conv_unit(t, of, nf, NULL);
                    o.res_rem = v->conv_unit(t, of, nf, &rem);
                } else {
                    o.res_null = v->conv_u64(t, of, nf, NULL);
                    o.res_rem = v->conv_u64(t, of, nf, &rem);
                }
                o.rem = rem;
                check_conv(v, "thin", unit, t, of, nf, &ref[i], &o);
                check_press(v, P_CONV_U64, "timestamp_convert_u64", t, of, nf, false, ref[i].exact > (u128) ~(uint64_t)0, ref[i].res);
            }
        }
    }
    s_cnt_helper_evals += (uint64_t)n * NVAR * (2 * 2 + 1);
}

/* ------------------------------------------------------------------------------------------ one case */
static float rnd_float(struct mon_rng *r) {
    union {
        uint32_t u;
        float f;
    } x;
    if (mon_chance(r, 1, 4)) {
        return s_bfloat[mon_below(r, NBFLOAT)];
    }
    x.u = (uint32_t)mon_rand(r);
    return isnan(x.f) ? 0.0f : x.f;
}

static double rnd_double(struct mon_rng *r) {
    union {
        uint64_t u;
        double f;
    } x;
    if (mon_chance(r, 1, 4)) {
        return s_bdouble[mon_below(r, NBDOUBLE)];
    }
    x.u = mon_rand(r);
    return isnan(x.f) ? 0.0 : x.f;
}

/* non-triviality: the block reached both sides of every boundary its kind is about */
static bool nontrivial(int kind) {
    const bool *f = s_flags_seen;
    switch (kind) {
        case K_BIN64:
        case K_BIN32:
            return f[F_ADD_OVF] && f[F_ADD_FIT] && f[F_MUL_OVF] && f[F_MUL_FIT] && f[F_SUB_NEG] && f[F_SUB_FIT];
        case K_SMALL:
            return f[F_SIGNED_ORDER_DIFFERS] && f[F_EQUAL_OPERANDS];
        case K_UNARY:
            return f[F_POW2_TRUE] && f[F_CLZ_ZERO] && f[F_CLZ_SIGN] && f[F_RUP_OVERFLOW];
        default:
            return (f[F_CONV_SAT_WHOLE] || f[F_CONV_SAT_FINAL_ADD]) && f[F_CONV_FITS];
    }
}

static int run_case(uint64_t case_idx) {
    struct mon_rng *r = &mon_case_rng;
    int kind;
    bool exh = case_idx < s_exh_total;
    uint64_t blk = 0, first = 0;
    size_t n = BLOCK;
    if (exh) {
        for (kind = K_N - 1; kind > 0 && case_idx < s_exh_first[kind]; --kind) {
        }
        blk = case_idx - s_exh_first[kind];
        first = blk * BLOCK;
        uint64_t left = s_exh_tuples[kind] - first;
        n = left < BLOCK ? (size_t)left : BLOCK;
    } else {
        static const int pattern[16] = {K_BIN64, K_BIN32, K_CONVU64, K_BIN64, K_UNARY, K_BIN32, K_CONVUNIT, K_BIN64,
                                        K_SMALL, K_BIN64, K_CONVU64, K_BIN32, K_UNARY, K_BIN64, K_CONVUNIT, K_CONVU64};
        kind = pattern[(case_idx - s_exh_total) % 16];
    }
    mon_fp((uint64_t)kind);
    mon_fp((uint64_t)C16_OPT);
    mon_fp(exh ? blk + 1 : 0);
    /* operands */
    switch (kind) {
        case K_BIN64:
        case K_BIN32: {
            unsigned w = kind == K_BIN64 ? 64 : 32;
            const uint64_t *B = kind == K_BIN64 ? s_b64 : s_b32;
            size_t nB = kind == K_BIN64 ? s_nb64 : s_nb32;
            for (size_t i = 0; i < n; ++i) {
                if (exh) {
                    s_a[i] = B[(first + i) / nB];
                    s_b[i] = B[(first + i) % nB];
                } else {
                    gen_pair(r, w, B, nB, &s_a[i], &s_b[i]);
                }
                s_a32[i] = (uint32_t)s_a[i];
                s_b32v[i] = (uint32_t)s_b[i];
            }
            break;
        }
        case K_SMALL:
            for (size_t i = 0; i < n; ++i) {
                uint64_t ix = first + i;
                if (exh) {
                    /* bits 16..23: ALL pairs of 8-bit operands; bits 0..15: all pairs of B16 (repeating) */
                    s_a[i] = ((ix >> 8) << 16) | s_b16[(ix / s_nb16) % s_nb16];
                    s_b[i] = ((ix & 255) << 16) | s_b16[ix % s_nb16];
                    s_fa[i] = s_bfloat[(ix / NBFLOAT) % NBFLOAT];
                    s_fb[i] = s_bfloat[ix % NBFLOAT];
                    s_da[i] = s_bdouble[(ix / NBDOUBLE) % NBDOUBLE];
                    s_db[i] = s_bdouble[ix % NBDOUBLE];
                } else {
                    gen_pair(r, 16, s_b16, s_nb16, &s_a[i], &s_b[i]);
                    uint64_t p, q;
                    gen_pair(r, 8, s_b16, 12, &p, &q);
                    s_a[i] |= p << 16;
                    s_b[i] |= q << 16;
                    s_fa[i] = rnd_float(r);
                    s_fb[i] = mon_chance(r, 1, 8) ? s_fa[i] : rnd_float(r);
                    s_da[i] = rnd_double(r);
                    s_db[i] = mon_chance(r, 1, 8) ? s_da[i] : rnd_double(r);
                }
            }
            break;
        case K_UNARY:
            for (size_t i = 0; i < n; ++i) {
                if (exh) {
                    s_a[i] = s_bun[first + i];
                } else {
                    switch (mon_below(r, 4)) {
                        case 0:
                            s_a[i] = mon_rand(r);
                            break;
                        case 1: /* random low part under a stratified top bit, then shifted: exercises ctz */
                            s_a[i] = strat(r, 64) << mon_below(r, 64);
                            break;
                        case 2: /* 32-bit view zero or sign bit set */
                            s_a[i] = (strat(r, 32) << 32) | (mon_chance(r, 1, 2) ? 0 : strat(r, 32));
                            break;
                        default:
                            s_a[i] = strat(r, 64);
                            break;
                    }
                }
            }
            break;
        case K_CONVUNIT:
            for (size_t i = 0; i < n; ++i) {
                if (exh) {
                    uint64_t per = s_nb64 + NDERIVED, ix = first + i;
                    unsigned up = (unsigned)(ix / per);
                    uint64_t ti = ix % per;
                    s_b[i] = s_units[up / 4];
                    s_c[i] = s_units[up % 4];
                    if (ti < s_nb64) {
                        s_a[i] = s_b64[ti];
                    } else {
                        uint64_t d[NDERIVED];
                        derive_ticks(s_b[i], s_c[i], d);
                        s_a[i] = d[ti - s_nb64];
                    }
                } else {
                    s_b[i] = s_units[mon_below(r, 4)];
                    s_c[i] = s_units[mon_below(r, 4)];
                    s_a[i] = gen_ticks(r, s_b[i], s_c[i]);
                }
            }
            break;
        default: /* K_CONVU64 */
            for (size_t i = 0; i < n; ++i) {
                if (exh) {
                    uint64_t per = NTICKS_SMALL + NDERIVED, ix = first + i;
                    uint64_t fp = ix / per, ti = ix % per;
                    s_b[i] = s_bfreq[fp / s_nbfreq];
                    s_c[i] = s_bfreq[fp % s_nbfreq];
                    if (ti < NTICKS_SMALL) {
                        s_a[i] = s_ticks_small[ti];
                    } else {
                        uint64_t d[NDERIVED];
                        derive_ticks(s_b[i], s_c[i], d);
                        s_a[i] = d[ti - NTICKS_SMALL];
                    }
                } else {
                    gen_freq_pair(r, &s_b[i], &s_c[i]);
                    s_a[i] = gen_ticks(r, s_b[i], s_c[i]);
                }
            }
            break;
    }
    for (size_t i = 0; i < n; ++i) {
        mon_fp(s_a[i]);
        mon_fp(s_b[i]);
        if (kind >= K_CONVUNIT) {
            mon_fp(s_c[i]);
        }
    }
    if (mon_sampling()) {
        if (exh) {
            mon_sample("%s: exhaustive block %llu (tuples %llu..%llu of %llu);", s_kind_name[kind], (unsigned long long)blk,
                       (unsigned long long)first, (unsigned long long)(first + n - 1), (unsigned long long)s_exh_tuples[kind]);
        } else {
            mon_sample("%s: %zu PRNG-derived tuples;", s_kind_name[kind], n);
        }
        for (size_t i = 0; i < n && i < 6; ++i) {
            if (kind >= K_CONVUNIT) {
                mon_sample(" (ticks=%llu old=%llu new=%llu)", (unsigned long long)s_a[i], (unsigned long long)s_b[i],
                           (unsigned long long)s_c[i]);
            } else if (kind == K_UNARY) {
                mon_sample(" 0x%llx", (unsigned long long)s_a[i]);
            } else {
                mon_sample(" (0x%llx,0x%llx)", (unsigned long long)s_a[i], (unsigned long long)s_b[i]);
            }
        }
        mon_sample(" ...");
    }
    switch (kind) {
        case K_BIN64:
            run_bin64(n);
            mon_count(exh ? "pairs_bin64_exhaustive" : "pairs_bin64_random", n);
            break;
        case K_BIN32:
            run_bin32(n);
            mon_count(exh ? "pairs_bin32_exhaustive" : "pairs_bin32_random", n);
            break;
        case K_SMALL:
            run_small(n);
            mon_count(exh ? "pairs_small_exhaustive" : "pairs_small_random", n);
            break;
        case K_UNARY:
            run_unary(n);
            mon_count(exh ? "operands_unary_exhaustive" : "operands_unary_random", n);
            break;
        case K_CONVUNIT:
            run_conv(n, 1);
            mon_count(exh ? "tuples_convunit_exhaustive" : "tuples_convunit_random", n);
            break;
        default:
            run_conv(n, 0);
            mon_count(exh ? "tuples_convu64_exhaustive" : "tuples_convu64_random", n);
            break;
    }
    if (exh) {
        mon_count("exhaustive_blocks", 1);
    }
    return kind;
}

int main(int argc, char **argv) {
    mon_init(argc, argv, "C16");
    aws_common_library_init(aws_default_allocator());
    for (int i = 0; i < F_NFLAGS; ++i) {
        mon_flag_name(i, s_flag_name[i]);
    }
    /* the stage's mode names the optimisation level; it also gives every level its own random stream */
    if (mon_run.mode && mon_run.mode[0]) {
        char want[8];
        snprintf(want, sizeof(want), "O%d", C16_OPT);
        if (strcmp(mon_run.mode, want)) {
            fprintf(stderr, "mon: c16 built with -DC16_OPT=%d but run with --mode %s\n", C16_OPT, mon_run.mode);
            return 2;
        }
    }
    for (int vi = 0; vi < NVAR; ++vi) {
        if (s_var[vi]->opt_level != C16_OPT) {
            fprintf(stderr, "mon: c16 variant %s built at -O%d, harness at -O%d\n", s_var[vi]->name, s_var[vi]->opt_level, C16_OPT);
            return 2;
        }
    }
    build_sets();
    build_plan();
    if (mon_run.slice == 0) {
        mon_note("-O%d; |B64|=%zu |B32|=%zu |B16|=%zu |Bfreq|=%zu |Bunary|=%zu; exhaustive sweep = cases [0,%llu): bin64 %llu pairs, "
                 "bin32 %llu pairs, small %llu, unary %llu, convunit %llu, convu64 %llu tuples",
                 C16_OPT, s_nb64, s_nb32, s_nb16, s_nbfreq, s_nbun, (unsigned long long)s_exh_total,
                 (unsigned long long)s_exh_tuples[K_BIN64], (unsigned long long)s_exh_tuples[K_BIN32],
                 (unsigned long long)s_exh_tuples[K_SMALL], (unsigned long long)s_exh_tuples[K_UNARY],
                 (unsigned long long)s_exh_tuples[K_CONVUNIT], (unsigned long long)s_exh_tuples[K_CONVU64]);
    }
    uint64_t c;
    while (mon_next_case(&c)) {
        mon_case_begin(c);
        memset(s_flags_seen, 0, sizeof(s_flags_seen));
        int kind = run_case(c);
        mon_case_end(nontrivial(kind));
    }
    mon_count("helper_evaluations", s_cnt_helper_evals);
    mon_count("helper_evaluations_with_a_literal_operand", s_cnt_literal_evals);
    mon_count("checked_overflow_out_left_untouched", s_cnt_ovf_untouched);
    mon_count("checked_overflow_out_written", s_cnt_ovf_written);
    return mon_finish();
}
