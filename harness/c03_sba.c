/*
 * C03 - small-block allocator (DESIGN.md section 5, C03)
 *   --mode seq  single-threaded histories on one allocator (multi_threaded flag random)
 *   --mode thr  2-8 threads on one multi_threaded allocator, blocks handed between threads, exact checks at barriers
 * Oracles: fill patterns over the requested size, interval registry (overlap), alignment, size-class accounting vs
 * bytes_active, bytes_reserved after drain, page accounting (rel build: --wrap=posix_memalign,free), parent balance,
 * ASan / TSan from the build.
 */
#include "mon.h"
#include "perturb.h"

#include <aws/common/allocator.h>
#include <aws/common/common.h>

#include <pthread.h>
#include <sched.h>
#include <stdlib.h>

enum { F_PAGE_RETURNED, F_REALLOC_SMALL_TO_LARGE, F_REALLOC_LARGE_TO_SMALL, F_REALLOC_SHRINK_IN_PLACE, F_REALLOC_WITHIN_BIN, F_CALLOC, F_ALL_BINS,
       F_LARGE_BLOCKS, F_DRAINED_TO_FIVE_PAGES, F_CROSS_THREAD_RELEASE, F_MANY_PAGES, F_CHUNK_REUSED, F_REALLOC_FROM_NULL, F_REALLOC_TO_ZERO, F_SECOND_INSTANCE, F_HUGE_REQUEST, F_MANY_FULL_PAGES };

#define PAGE 4096u

static const size_t SIZES[] = {1, 2, 16, 31, 32, 33, 48, 63, 64, 65, 100, 127, 128, 129, 200, 255, 256, 257, 400, 511, 512, 513, 600, 1024, 4096, 5000};
#define NSIZES (sizeof(SIZES) / sizeof(SIZES[0]))

static size_t pick_size(struct mon_rng *r) {
    if (mon_chance(r, 3, 4)) {
        return SIZES[mon_below(r, NSIZES)];
    }
    return 1 + (size_t)mon_below(r, 700);
}

static size_t class_of(size_t req) {
    if (req > 512) {
        return 0;
    }
    size_t c = 32;
    while (c < req) {
        c <<= 1;
    }
    return c;
}

/* One block in eight carries hostile content: in every 16 bytes the first 8 are the marker the allocator's own page
 * headers start with ("uespemos", AWS_SBA_TAG_VALUE) and the rest is not. Releasing a parent-served block looks at the
 * 4 KiB boundary below it to decide whether the block is one of its chunks; that boundary can lie inside a neighbouring
 * live block, whose bytes then have to fail the test on their own (the header's second marker sits at +24 = a non-marker
 * half of the pattern). A user's data never has BOTH markers in place in these cases: that would misroute by design. */
static inline uint8_t pat(uint64_t id, size_t off) {
    if ((id & 7) == 5 && (off & 15) < 8) {
        return (uint8_t)"uespemos"[off & 7];
    }
    return (uint8_t)(id * 167 + off * 13 + (id >> 7) + 3);
}

struct blk {
    uint8_t *p;
    size_t req;
    size_t cls; /* 0: served by the parent */
    uint64_t id;
};

static void fill(struct blk *b) {
    for (size_t i = 0; i < b->req; ++i) {
        b->p[i] = pat(b->id, i);
    }
}

static bool verify(const struct blk *b, size_t upto, const char *when) {
    for (size_t i = 0; i < upto; ++i) {
        if (b->p[i] != pat(b->id, i)) {
            mon_violation("C03:pattern", "block id %llx (requested %zu, class %zu) damaged at offset %zu %s: got %02x want %02x", (unsigned long long)b->id, b->req, b->cls,
                          i, when, b->p[i], pat(b->id, i));
            return false;
        }
    }
    return true;
}

/* ------------------------------------------------------------------ page accounting (rel build only) */
#ifdef C03_WRAP_PAGES
int __real_posix_memalign(void **memptr, size_t alignment, size_t size);
void __real_free(void *p);
#    define PAGE_TAB 4096
static void *s_pages[PAGE_TAB];
static uint64_t s_pages_live, s_pages_total;
static pthread_spinlock_t s_page_lock;
static int s_page_lock_init;

static void page_lock(void) {
    if (!s_page_lock_init) {
        pthread_spin_init(&s_page_lock, 0);
        s_page_lock_init = 1;
    }
    pthread_spin_lock(&s_page_lock);
}

int __wrap_posix_memalign(void **memptr, size_t alignment, size_t size) {
    int rc = __real_posix_memalign(memptr, alignment, size);
    if (rc == 0 && alignment == PAGE && size == PAGE) {
        page_lock();
        for (size_t i = ((uintptr_t)*memptr >> 12) % PAGE_TAB, k = 0; k < PAGE_TAB; ++k, i = (i + 1) % PAGE_TAB) {
            if (!s_pages[i]) {
                s_pages[i] = *memptr;
                break;
            }
        }
        ++s_pages_live;
        ++s_pages_total;
        pthread_spin_unlock(&s_page_lock);
    }
    return rc;
}

void __wrap_free(void *p) {
    if (p && ((uintptr_t)p & (PAGE - 1)) == 0 && s_page_lock_init) {
        page_lock();
        for (size_t i = ((uintptr_t)p >> 12) % PAGE_TAB, k = 0; k < PAGE_TAB; ++k, i = (i + 1) % PAGE_TAB) {
            if (s_pages[i] == p) {
                s_pages[i] = NULL;
                --s_pages_live;
                break;
            }
        }
        pthread_spin_unlock(&s_page_lock);
    }
    __real_free(p);
}
static uint64_t pages_live(void) {
    return __atomic_load_n(&s_pages_live, __ATOMIC_RELAXED);
}
#else
static uint64_t pages_live(void) {
    return 0;
}
#endif

/* ------------------------------------------------------------------ interval registry */
#if defined(__SANITIZE_THREAD__)
#    define REGISTRY_ON 0
#else
#    define REGISTRY_ON 1
#endif
#define REG_CAP 8192
static struct {
    uintptr_t lo, hi;
} s_reg[REG_CAP];
static size_t s_nreg;
static pthread_mutex_t s_reg_lock = PTHREAD_MUTEX_INITIALIZER;

/* called AFTER the allocator returned the block */
static void reg_insert(const struct blk *b) {
    if (!REGISTRY_ON) {
        return;
    }
    uintptr_t lo = (uintptr_t)b->p, hi = lo + (b->req ? b->req : 1);
    pthread_mutex_lock(&s_reg_lock);
    for (size_t i = 0; i < s_nreg; ++i) {
        if (lo < s_reg[i].hi && s_reg[i].lo < hi) {
            mon_violation("C03:overlap", "new block [%p,+%zu) (class %zu) overlaps a live block [%p,+%zu)", (void *)b->p, b->req, b->cls, (void *)s_reg[i].lo,
                          (size_t)(s_reg[i].hi - s_reg[i].lo));
            break;
        }
    }
    if (s_nreg < REG_CAP) {
        s_reg[s_nreg].lo = lo;
        s_reg[s_nreg].hi = hi;
        ++s_nreg;
    }
    pthread_mutex_unlock(&s_reg_lock);
}

/* called BEFORE the block is handed back to the allocator */
static void reg_remove(const uint8_t *p) {
    if (!REGISTRY_ON) {
        return;
    }
    pthread_mutex_lock(&s_reg_lock);
    for (size_t i = 0; i < s_nreg; ++i) {
        if (s_reg[i].lo == (uintptr_t)p) {
            s_reg[i] = s_reg[--s_nreg];
            break;
        }
    }
    pthread_mutex_unlock(&s_reg_lock);
}

/* ------------------------------------------------------------------ operations shared by both modes */
struct actor {
    struct aws_allocator *sba;
    struct blk *live;
    size_t nlive, cap;
    uint64_t next_id;
    struct mon_rng rng;
    uint64_t bins_seen;
    uint64_t n_realloc_s2l, n_realloc_l2s, n_shrink_inplace, n_within_bin, n_calloc, n_large, n_from_null, n_to_zero, n_reused;
    uintptr_t recent_freed[8];
    bool probe_large;
    unsigned recent_pos;
};

static void check_new_block(struct actor *a, struct blk *b, const char *how) {
    if (!b->p) {
        mon_violation("C03:null-block", "%s(%zu) returned NULL", how, b->req);
        return;
    }
    if ((uintptr_t)b->p % 16 != 0) {
        mon_violation("C03:alignment", "%s(%zu) returned %p, not aligned to alignof(max_align_t)=16", how, b->req, (void *)b->p);
    }
    if (b->cls) {
        a->bins_seen |= b->cls;
    } else {
        a->n_large++;
    }
    for (unsigned i = 0; i < 8; ++i) {
        if (a->recent_freed[i] == (uintptr_t)b->p) {
            a->n_reused++;
        }
    }
}

static void do_acquire(struct actor *a) {
    struct mon_rng *r = &a->rng;
    if (a->nlive >= a->cap) {
        return;
    }
    struct blk b;
    b.req = pick_size(r);
    b.id = a->next_id++;
    bool use_calloc = mon_chance(r, 1, 5);
    if (use_calloc) {
        size_t num = 1 + (size_t)mon_below(r, 4);
        size_t each = (b.req + num - 1) / num;
        if (each == 0) {
            each = 1;
        }
        b.req = num * each;
        b.cls = class_of(b.req);
        b.p = aws_mem_calloc(a->sba, num, each);
        a->n_calloc++;
        if (b.p) {
            for (size_t i = 0; i < b.req; ++i) {
                if (b.p[i] != 0) {
                    mon_violation("C03:calloc-not-zero", "calloc(%zu,%zu): byte %zu is %02x", num, each, i, b.p[i]);
                    break;
                }
            }
        }
        check_new_block(a, &b, "calloc");
    } else {
        b.cls = class_of(b.req);
        b.p = aws_mem_acquire(a->sba, b.req);
        check_new_block(a, &b, "acquire");
    }
    if (!b.p) {
        return;
    }
    reg_insert(&b);
    fill(&b);
    a->live[a->nlive++] = b;
}

static void do_release_at(struct actor *a, size_t i) {
    struct blk b = a->live[i];
    verify(&b, b.req, "before release");
    reg_remove(b.p);
    a->recent_freed[a->recent_pos++ & 7] = (uintptr_t)b.p;
    if (a->probe_large && b.cls == 0) {
        /* single-threaded only: releasing a block served by the parent must not touch the small-block accounting */
        size_t before = aws_small_block_allocator_bytes_active(a->sba);
        struct mon_alloc_stats g0, g1;
        mon_guard_stats(&g0);
        uint64_t hdr[4] = {0, 0, 0, 0};
#if !defined(__SANITIZE_ADDRESS__)
        /* what the allocator's tag probe is about to read (heap memory the block does not own) */
        memcpy(hdr, (void *)((uintptr_t)b.p & ~(uintptr_t)(PAGE - 1)), sizeof(hdr));
#endif
        aws_mem_release(a->sba, b.p);
        size_t after = aws_small_block_allocator_bytes_active(a->sba);
        mon_guard_stats(&g1);
        if (before != after || g1.total_releases == g0.total_releases) {
            mon_violation("C03:large-block-release-taken-for-small-chunk",
                          "release of a %zu-byte block served by the parent (at page offset %zu): bytes_active %zu -> %zu, parent releases +%llu; the 32 bytes at its "
                          "4096-aligned base read %016llx %016llx %016llx %016llx",
                          b.req, (size_t)((uintptr_t)b.p & (PAGE - 1)), before, after, (unsigned long long)(g1.total_releases - g0.total_releases),
                          (unsigned long long)hdr[0], (unsigned long long)hdr[1], (unsigned long long)hdr[2], (unsigned long long)hdr[3]);
        }
    } else {
        aws_mem_release(a->sba, b.p);
    }
    a->live[i] = a->live[--a->nlive];
}

static void do_realloc(struct actor *a) {
    struct mon_rng *r = &a->rng;
    if (a->nlive == 0) {
        /* realloc from NULL */
        if (a->cap == 0) {
            return;
        }
        struct blk b;
        b.req = pick_size(r);
        b.id = a->next_id++;
        b.cls = class_of(b.req);
        void *p = NULL;
        if (aws_mem_realloc(a->sba, &p, 0, b.req) || !p) {
            mon_violation("C03:realloc-failed", "realloc(NULL, 0 -> %zu) failed", b.req);
            return;
        }
        b.p = p;
        a->n_from_null++;
        check_new_block(a, &b, "realloc-from-null");
        reg_insert(&b);
        fill(&b);
        a->live[a->nlive++] = b;
        return;
    }
    size_t i = (size_t)mon_below(r, a->nlive);
    struct blk *b = &a->live[i];
    size_t newsize;
    unsigned pick = (unsigned)mon_below(r, 10);
    if (pick == 0) {
        newsize = 0;
    } else if (pick == 1) {
        newsize = b->req;
    } else if (pick < 4) {
        newsize = b->req > 1 ? 1 + (size_t)mon_below(r, b->req) : 1; /* shrink */
    } else {
        newsize = pick_size(r);
    }
    verify(b, b->req, "before realloc");
    void *p = b->p;
    size_t old = b->req;
    uint8_t *oldp = b->p;
    reg_remove(b->p);
    if (aws_mem_realloc(a->sba, &p, old, newsize)) {
        mon_violation("C03:realloc-failed", "realloc(%zu -> %zu) failed", old, newsize);
        return;
    }
    if (newsize == 0) {
        MON_CHECK(p == NULL, "C03:realloc-to-zero", "realloc to 0 did not null the pointer");
        a->n_to_zero++;
        a->recent_freed[a->recent_pos++ & 7] = (uintptr_t)oldp;
        a->live[i] = a->live[--a->nlive];
        return;
    }
    if (!p) {
        mon_violation("C03:null-block", "realloc(%zu -> %zu) returned NULL", old, newsize);
        a->live[i] = a->live[--a->nlive];
        return;
    }
    size_t keep = old < newsize ? old : newsize;
    struct blk nb = *b;
    nb.p = p;
    nb.req = newsize;
    if (p == oldp) {
        /* same block: it stays with whoever served it */
        if (newsize < old) {
            a->n_shrink_inplace++;
            if (old > 512 && newsize <= 512) {
                a->n_realloc_l2s++; /* a parent block shrunk below the small-block limit stays with the parent */
            }
        }
        if (nb.cls && newsize > nb.cls) {
            mon_violation("C03:realloc-in-place-beyond-class", "realloc(%zu -> %zu) kept the %zu-byte chunk", old, newsize, nb.cls);
        }
    } else {
        size_t oldcls = nb.cls;
        nb.cls = class_of(newsize);
        if (oldcls && !nb.cls) {
            a->n_realloc_s2l++;
        } else if (!oldcls && nb.cls) {
            a->n_realloc_l2s++;
        } else if (oldcls && oldcls == nb.cls) {
            a->n_within_bin++;
        }
        a->recent_freed[a->recent_pos++ & 7] = (uintptr_t)oldp;
    }
    /* prefix preserved up to the smaller of the two sizes */
    struct blk probe = nb;
    probe.req = keep;
    if (!verify(&probe, keep, "after realloc (prefix min(old,new))")) {
        mon_count("realloc_prefix_damaged", 1);
    }
    check_new_block(a, &nb, "realloc");
    reg_insert(&nb);
    /* re-fill over the new requested size with the same id */
    fill(&nb);
    *b = nb;
}

static size_t sum_classes(const struct actor *a) {
    size_t s = 0;
    for (size_t i = 0; i < a->nlive; ++i) {
        s += a->live[i].cls;
    }
    return s;
}

static void verify_all(const struct actor *a, const char *when) {
    for (size_t i = 0; i < a->nlive; ++i) {
        if (!verify(&a->live[i], a->live[i].req, when)) {
            break;
        }
    }
}

static void actor_flags(const struct actor *a) {
    if (a->n_realloc_s2l) {
        mon_flag(F_REALLOC_SMALL_TO_LARGE);
    }
    if (a->n_realloc_l2s) {
        mon_flag(F_REALLOC_LARGE_TO_SMALL);
    }
    if (a->n_shrink_inplace) {
        mon_flag(F_REALLOC_SHRINK_IN_PLACE);
    }
    if (a->n_within_bin) {
        mon_flag(F_REALLOC_WITHIN_BIN);
    }
    if (a->n_calloc) {
        mon_flag(F_CALLOC);
    }
    if ((a->bins_seen & (32 | 64 | 128 | 256 | 512)) == (32 | 64 | 128 | 256 | 512)) {
        mon_flag(F_ALL_BINS);
    }
    if (a->n_large) {
        mon_flag(F_LARGE_BLOCKS);
    }
    if (a->n_reused) {
        mon_flag(F_CHUNK_REUSED);
    }
    if (a->n_from_null) {
        mon_flag(F_REALLOC_FROM_NULL);
    }
    if (a->n_to_zero) {
        mon_flag(F_REALLOC_TO_ZERO);
    }
}

static void end_checks(struct aws_allocator *sba, size_t max_reserved_seen, const struct mon_alloc_stats *st0, uint64_t pages0, uint64_t bins_used) {
    size_t active = aws_small_block_allocator_bytes_active(sba);
    size_t reserved = aws_small_block_allocator_bytes_reserved(sba);
    if (active != 0) {
        mon_violation("C03:bytes-active-after-drain", "everything released but bytes_active = %zu", active);
    }
    /* at most one working page per size class, and only classes that were ever used can hold one */
    size_t classes_used = (size_t)__builtin_popcountll(bins_used & (32 | 64 | 128 | 256 | 512));
    if (reserved > classes_used * PAGE) {
        mon_violation("C03:bytes-reserved-after-drain", "everything released but bytes_reserved = %zu: more than one %u-byte page for each of the %zu size classes used", reserved,
                      PAGE, classes_used);
    } else if (max_reserved_seen > 5 * PAGE) {
        mon_flag(F_DRAINED_TO_FIVE_PAGES);
    }
#ifdef C03_WRAP_PAGES
    if (pages_live() - pages0 != reserved / PAGE) {
        mon_violation("C03:page-accounting", "bytes_reserved reports %zu pages, %llu page allocations are live", reserved / PAGE, (unsigned long long)(pages_live() - pages0));
    }
#endif
    aws_small_block_allocator_destroy(sba);
#ifdef C03_WRAP_PAGES
    if (pages_live() != pages0) {
        mon_violation("C03:page-leak", "after destroy %llu pages are still allocated", (unsigned long long)(pages_live() - pages0));
    }
#endif
    (void)pages0;
    struct mon_alloc_stats st1;
    mon_guard_stats(&st1);
    if (st1.live_blocks != st0->live_blocks) {
        mon_violation("C03:parent-leak", "after destroy the parent allocator still has %lld blocks (%lld bytes) outstanding", (long long)(st1.live_blocks - st0->live_blocks),
                      (long long)(st1.live_bytes - st0->live_bytes));
    }
}

/* ================================================================== sequential */
/* ------------------------------------------------------------------ requests far above the bins (> 2 GiB)
 * parent allocator: small requests from malloc, big ones as address-space-only mappings; records what it was asked for */
#include <sys/mman.h>
#define BIGP_SLOTS 64
static struct {
    void *p;
    size_t size;
    bool mapped;
} s_bigp[BIGP_SLOTS];
static size_t s_bigp_last_size;

static void *bigp_acquire(struct aws_allocator *a, size_t size) {
    (void)a;
    s_bigp_last_size = size;
    for (int i = 0; i < BIGP_SLOTS; ++i) {
        if (!s_bigp[i].p) {
            bool mapped = size >= ((size_t)1 << 20);
            void *p = mapped ? mmap(NULL, size, PROT_READ | PROT_WRITE, MAP_PRIVATE | MAP_ANONYMOUS | MAP_NORESERVE, -1, 0) : malloc(size);
            if (!p || p == MAP_FAILED) {
                return NULL;
            }
            s_bigp[i].p = p;
            s_bigp[i].size = size;
            s_bigp[i].mapped = mapped;
            return p;
        }
    }
    return NULL;
}

static void bigp_release(struct aws_allocator *a, void *p) {
    (void)a;
    for (int i = 0; p && i < BIGP_SLOTS; ++i) {
        if (s_bigp[i].p == p) {
            if (s_bigp[i].mapped) {
                munmap(p, s_bigp[i].size);
            } else {
                free(p);
            }
            s_bigp[i].p = NULL;
            return;
        }
    }
    mon_violation("C03:huge:parent-release-unknown", "the parent allocator was handed %p, which it never returned", p);
}

static size_t bigp_size_of(const void *p) {
    for (int i = 0; i < BIGP_SLOTS; ++i) {
        if (s_bigp[i].p == p) {
            return s_bigp[i].size;
        }
    }
    return 0;
}

static int bigp_live(void) {
    int n = 0;
    for (int i = 0; i < BIGP_SLOTS; ++i) {
        n += s_bigp[i].p != NULL;
    }
    return n;
}

static struct aws_allocator s_bigp_alloc = {.mem_acquire = bigp_acquire, .mem_release = bigp_release, .mem_realloc = NULL, .mem_calloc = NULL, .impl = NULL};

static void huge_case(void) {
    struct mon_rng *r = &mon_case_rng;
    static const size_t SIZES[] = {((size_t)1 << 31) + 1, (size_t)1 << 31, (size_t)3 << 30, ((size_t)1 << 32) + 100, (size_t)1 << 32, ((size_t)1 << 32) - 1, ((size_t)5 << 30) + 7,
                                   ((size_t)1 << 31) - 1, ((size_t)1 << 33) + 513};
    mon_fp(0xB16);
    memset(s_bigp, 0, sizeof(s_bigp));
    void *probe = mmap(NULL, ((size_t)1 << 33) + 4096, PROT_READ | PROT_WRITE, MAP_PRIVATE | MAP_ANONYMOUS | MAP_NORESERVE, -1, 0);
    if (probe == MAP_FAILED) {
        mon_count("huge_request_skipped_no_address_space", 1);
        return;
    }
    munmap(probe, ((size_t)1 << 33) + 4096);
    bool mt = mon_chance(r, 1, 2);
    struct aws_allocator *sba = aws_small_block_allocator_new(&s_bigp_alloc, mt);
    if (!sba) {
        mon_violation("C03:new-failed", "aws_small_block_allocator_new returned NULL");
        return;
    }
    int parent0 = bigp_live();
    uint64_t v0 = mon_violations();
    /* a few small blocks around it, so that a misplaced huge request has neighbours to hurt */
    uint8_t *small[6];
    for (int i = 0; i < 6; ++i) {
        small[i] = aws_mem_acquire(sba, 24);
        memset(small[i], 0x40 + i, 24);
    }
    size_t active0 = aws_small_block_allocator_bytes_active(sba);
    for (int k = 0; k < 4 && mon_violations() == v0; ++k) {
        size_t size = SIZES[mon_below(r, sizeof(SIZES) / sizeof(SIZES[0]))];
        mon_fp(size);
        unsigned how = (unsigned)mon_below(r, 3);
        uint8_t *p = NULL;
        const char *what;
        if (how == 0) {
            what = "acquire";
            p = aws_mem_acquire(sba, size);
        } else if (how == 1) {
            what = "realloc from a 24-byte block";
            void *q = aws_mem_acquire(sba, 24);
            memset(q, 0x77, 24);
            if (aws_mem_realloc(sba, &q, 24, size)) {
                mon_violation("C03:huge:realloc-failed", "realloc(24 -> %zu) failed", size);
                break;
            }
            p = q;
            for (int i = 0; p && i < 24; ++i) {
                if (p[i] != 0x77) {
                    mon_violation("C03:realloc-contents", "realloc(24 -> %zu): byte %d of the old contents is %02x", size, i, p[i]);
                    break;
                }
            }
        } else {
            what = "realloc from NULL";
            void *q = NULL;
            if (aws_mem_realloc(sba, &q, 0, size)) {
                mon_violation("C03:huge:realloc-failed", "realloc(NULL -> %zu) failed", size);
                break;
            }
            p = q;
        }
        if (!p) {
            mon_violation("C03:null-block", "%s(%zu) returned NULL", what, size);
            break;
        }
        size_t got = bigp_size_of(p);
        if (got < size) {
            mon_violation("C03:huge:not-from-parent",
                          "%s of %zu bytes (above the largest bin): the block %p is not a block of at least that size from the parent allocator (parent block size %zu, last "
                          "request it saw %zu); bytes_active went from %zu to %zu",
                          what, size, (void *)p, got, s_bigp_last_size, active0, aws_small_block_allocator_bytes_active(sba));
            break;
        }
        p[0] = 0x11;
        p[size - 1] = 0x22;
        if (aws_small_block_allocator_bytes_active(sba) != active0) {
            mon_violation("C03:bytes-active", "a %zu-byte block from the parent changed bytes_active from %zu to %zu", size, active0, aws_small_block_allocator_bytes_active(sba));
        }
        if (mon_chance(r, 1, 2)) {
            /* shrink back into a bin */
            void *q = p;
            if (aws_mem_realloc(sba, &q, size, 40)) {
                mon_violation("C03:huge:realloc-failed", "realloc(%zu -> 40) failed", size);
                break;
            }
            if (((uint8_t *)q)[0] != 0x11) {
                mon_violation("C03:realloc-contents", "realloc(%zu -> 40) lost the first byte", size);
            }
            aws_mem_release(sba, q);
        } else {
            aws_mem_release(sba, p);
        }
        mon_count("huge_requests_above_2GiB", 1);
    }
    for (int i = 0; i < 6; ++i) {
        for (int b = 0; b < 24; ++b) {
            if (small[i][b] != 0x40 + i) {
                mon_violation("C03:contents", "small block %d was overwritten while huge blocks were requested (byte %d is %02x)", i, b, small[i][b]);
                i = 6;
                break;
            }
        }
    }
    for (int i = 0; i < 6; ++i) {
        aws_mem_release(sba, small[i]);
    }
    if (mon_violations() == v0) {
        if (aws_small_block_allocator_bytes_active(sba) != 0) {
            mon_violation("C03:bytes-active-after-drain", "everything released but bytes_active = %zu", aws_small_block_allocator_bytes_active(sba));
        }
        if (bigp_live() != parent0) {
            mon_violation("C03:parent-balance", "the parent allocator has %d more blocks outstanding than after creating the allocator", bigp_live() - parent0);
        }
        aws_small_block_allocator_destroy(sba);
        if (bigp_live() != 0) {
            mon_violation("C03:parent-balance", "after destroy the parent allocator still has %d blocks outstanding", bigp_live());
        }
    }
    mon_flag(F_HUGE_REQUEST);
}

/* one case per -O2 stage run: more than 65 536 completely full pages in one size class (460 000 live 512-byte blocks,
 * about 260 MiB), then one late page emptied: bookkeeping that is indexed per page must not wrap */
static void many_pages_case(void) {
    struct mon_rng *r = &mon_case_rng;
    mon_fp(0x9A6E5);
    struct aws_allocator *sba = aws_small_block_allocator_new(mon_guard_allocator_full(), mon_chance(r, 1, 2));
    if (!sba) {
        mon_violation("C03:new-failed", "aws_small_block_allocator_new returned NULL");
        return;
    }
    const size_t per_page = (PAGE - 32) / 512; /* 7 */
    const size_t npages = 65600 + (size_t)mon_below(r, 64);
    const size_t n = npages * per_page;
    uint8_t **blk = malloc(n * sizeof(*blk));
    uint64_t v0 = mon_violations();
    for (size_t i = 0; i < n; ++i) {
        blk[i] = aws_mem_acquire(sba, 300 + (i & 127));
        if (!blk[i]) {
            mon_violation("C03:null-block", "acquire number %zu returned NULL", i);
            free(blk);
            return;
        }
        memcpy(blk[i], &i, sizeof(i));
    }
    size_t live = n;
    if (aws_small_block_allocator_bytes_active(sba) != live * 512) {
        mon_violation("C03:bytes-active", "%zu live blocks of class 512: bytes_active = %zu", live, aws_small_block_allocator_bytes_active(sba));
    }
    /* empty a few late pages (blocks are handed out page by page, so 7 consecutive blocks share a page) */
    for (int k = 0; k < 4 && mon_violations() == v0; ++k) {
        size_t page = 65536 + (size_t)mon_below(r, npages - 65536);
        for (size_t j = 0; j < per_page; ++j) {
            size_t i = page * per_page + j;
            if (blk[i]) {
                aws_mem_release(sba, blk[i]);
                blk[i] = NULL;
                --live;
            }
        }
        size_t got = aws_small_block_allocator_bytes_active(sba);
        if (got != live * 512) {
            mon_violation("C03:bytes-active", "after emptying page number %zu of %zu full pages of class 512: bytes_active = %zu, live blocks account for %zu (difference %lld)", page,
                          npages, got, live * 512, (long long)got - (long long)(live * 512));
        }
    }
    /* contents of a sample and of everything around the emptied pages */
    for (size_t i = 0; i < n && mon_violations() == v0; i += (i > 65000 * per_page ? 1 : 997)) {
        size_t tag;
        if (blk[i]) {
            memcpy(&tag, blk[i], sizeof(tag));
            if (tag != i) {
                mon_violation("C03:contents", "block %zu of %zu lost its contents after late pages were emptied", i, n);
            }
        }
    }
    for (size_t i = 0; i < n; ++i) {
        if (blk[i]) {
            aws_mem_release(sba, blk[i]);
        }
    }
    if (mon_violations() == v0) {
        if (aws_small_block_allocator_bytes_active(sba) != 0) {
            mon_violation("C03:bytes-active-after-drain", "everything released but bytes_active = %zu", aws_small_block_allocator_bytes_active(sba));
        }
        if (aws_small_block_allocator_bytes_reserved(sba) > PAGE) {
            mon_violation("C03:bytes-reserved-after-drain", "everything released (one size class used) but bytes_reserved = %zu", aws_small_block_allocator_bytes_reserved(sba));
        }
        aws_small_block_allocator_destroy(sba);
    }
    free(blk);
    mon_flag(F_MANY_FULL_PAGES);
    mon_count("cases_with_more_than_65536_full_pages", 1);
}

static void seq_case(void) {
    struct mon_rng *r = &mon_case_rng;
    struct mon_alloc_stats st0;
    mon_guard_stats(&st0);
    uint64_t pages0 = pages_live();
    bool mt = mon_chance(r, 1, 3);
    bool parent_full = mon_chance(r, 1, 2);
    struct aws_allocator *sba = aws_small_block_allocator_new(parent_full ? mon_guard_allocator_full() : mon_guard_allocator(), mt);
    if (!sba) {
        mon_violation("C03:new-failed", "aws_small_block_allocator_new returned NULL");
        return;
    }
    struct actor a;
    memset(&a, 0, sizeof(a));
    a.sba = sba;
    a.cap = 64 + (size_t)mon_below(r, 1500);
    a.live = malloc(a.cap * sizeof(struct blk));
    a.rng = *r;
    a.next_id = mon_rand(r) << 20;
    a.probe_large = true;
    s_nreg = 0;
    size_t nops = 200 + (size_t)mon_below(r, 4800);
    size_t max_reserved = 0, prev_reserved = 0;
    mon_fp(nops);
    mon_fp(a.cap);
    mon_fp((uint64_t)mt * 2 + parent_full);
    unsigned phase_len = 50 + (unsigned)mon_below(r, 400);
    for (size_t op = 0; op < nops && mon_violations() < 4; ++op) {
        unsigned phase = (unsigned)((op / phase_len) % 4);
        unsigned pick = (unsigned)mon_below(&a.rng, 100);
        unsigned acq_w = phase == 0 ? 70 : phase == 1 ? 45 : phase == 2 ? 20 : 50;
        if (pick < acq_w) {
            do_acquire(&a);
            mon_fp(1);
        } else if (pick < acq_w + 15) {
            do_realloc(&a);
            mon_fp(2);
        } else if (a.nlive) {
            unsigned how = (unsigned)mon_below(&a.rng, 10);
            if (how < 3) {
                do_release_at(&a, a.nlive - 1); /* LIFO */
            } else if (how < 5) {
                do_release_at(&a, 0); /* FIFO-ish */
            } else if (how < 9) {
                do_release_at(&a, (size_t)mon_below(&a.rng, a.nlive));
            } else {
                /* burst: free a page's worth so that pages go back while their chunks sit in the free list */
                size_t n = 8 + (size_t)mon_below(&a.rng, 130);
                while (n-- && a.nlive) {
                    do_release_at(&a, a.nlive - 1);
                }
            }
            mon_fp(3);
        }
        if ((op & 15) == 0 || op + 1 == nops) {
            size_t active = aws_small_block_allocator_bytes_active(sba);
            size_t want = sum_classes(&a);
            if (active != want) {
                mon_violation("C03:bytes-active", "bytes_active = %zu, sum of size classes of the %zu live blocks = %zu", active, a.nlive, want);
            }
            size_t reserved = aws_small_block_allocator_bytes_reserved(sba);
            if (reserved > max_reserved) {
                max_reserved = reserved;
            }
            if (reserved < prev_reserved) {
                mon_flag(F_PAGE_RETURNED);
            }
            if (reserved < want) {
                mon_violation("C03:bytes-reserved", "bytes_reserved = %zu < bytes in use %zu", reserved, want);
            }
            prev_reserved = reserved;
        }
        if ((op & 63) == 0) {
            verify_all(&a, "at periodic check");
        }
    }
    verify_all(&a, "before final drain");
    while (a.nlive) {
        do_release_at(&a, a.nlive - 1);
    }
    if (max_reserved >= 12 * PAGE) {
        mon_flag(F_MANY_PAGES);
    }
    actor_flags(&a);
    mon_count("seq_operations", nops);
    mon_count_max("max_bytes_reserved", max_reserved);
    mon_sample("seq: multi_threaded=%d parent_realloc=%d ops=%zu cap=%zu max_reserved=%zu pages s2l=%llu l2s=%llu shrink=%llu calloc=%llu large=%llu reused=%llu", mt,
               parent_full, nops, a.cap, max_reserved / PAGE, (unsigned long long)a.n_realloc_s2l, (unsigned long long)a.n_realloc_l2s,
               (unsigned long long)a.n_shrink_inplace, (unsigned long long)a.n_calloc, (unsigned long long)a.n_large, (unsigned long long)a.n_reused);
    end_checks(sba, max_reserved, &st0, pages0, a.bins_seen);
    free(a.live);
}

/* ================================================================== threaded */
#define MAX_THREADS 8
#define INBOX_CAP 64

struct worker {
    struct actor a;
    int idx;
    size_t nops, round_len;
    pthread_mutex_t inbox_lock;
    struct blk inbox[INBOX_CAP];
    size_t ninbox;
    uint64_t sent, received;
};

static struct {
    struct worker w[MAX_THREADS];
    int n;
    pthread_barrier_t barrier;
    struct aws_allocator *sba;
    size_t rounds;
    size_t max_reserved;
    int stop;
} W;

static void drain_inbox(struct worker *w) {
    struct blk tmp[INBOX_CAP];
    size_t n;
    pthread_mutex_lock(&w->inbox_lock);
    n = w->ninbox;
    memcpy(tmp, w->inbox, n * sizeof(struct blk));
    w->ninbox = 0;
    pthread_mutex_unlock(&w->inbox_lock);
    for (size_t i = 0; i < n; ++i) {
        verify(&tmp[i], tmp[i].req, "on receipt from another thread");
        w->received++;
        if (w->a.nlive < w->a.cap) {
            w->a.live[w->a.nlive++] = tmp[i];
        } else {
            reg_remove(tmp[i].p);
            aws_mem_release(w->a.sba, tmp[i].p);
        }
    }
}

static void *worker_main(void *arg) {
    struct worker *w = arg;
    perturb_bind((unsigned)(1 + w->idx));
    struct actor *a = &w->a;
    size_t done = 0;
    for (size_t round = 0; round < W.rounds; ++round) {
        for (size_t k = 0; k < w->round_len && done < w->nops; ++k, ++done) {
            unsigned pick = (unsigned)mon_below(&a->rng, 100);
            unsigned phase = (unsigned)(round % 3);
            unsigned acq_w = phase == 0 ? 60 : phase == 1 ? 40 : 25;
            if (pick < acq_w) {
                do_acquire(a);
            } else if (pick < acq_w + 12) {
                do_realloc(a);
            } else if (pick < acq_w + 24 && a->nlive && W.n > 1) {
                /* hand a block to another thread, which will release it */
                int dst = (w->idx + 1 + (int)mon_below(&a->rng, (uint64_t)W.n - 1)) % W.n;
                struct worker *d = &W.w[dst];
                size_t i = (size_t)mon_below(&a->rng, a->nlive);
                pthread_mutex_lock(&d->inbox_lock);
                if (d->ninbox < INBOX_CAP) {
                    d->inbox[d->ninbox++] = a->live[i];
                    a->live[i] = a->live[--a->nlive];
                    w->sent++;
                }
                pthread_mutex_unlock(&d->inbox_lock);
            } else if (a->nlive) {
                unsigned how = (unsigned)mon_below(&a->rng, 10);
                if (how < 9) {
                    do_release_at(a, (size_t)mon_below(&a->rng, a->nlive));
                } else {
                    size_t n = 8 + (size_t)mon_below(&a->rng, 100);
                    while (n-- && a->nlive) {
                        do_release_at(a, a->nlive - 1);
                    }
                }
            }
            if ((k & 7) == 0) {
                drain_inbox(w);
            }
            if ((k & 127) == 0) {
                verify_all(a, "at periodic check (threaded)");
            }
        }
        /* quiescent point: nobody is inside the allocator */
        pthread_barrier_wait(&W.barrier);
        if (w->idx == 0) {
            size_t want = 0;
            for (int t = 0; t < W.n; ++t) {
                want += sum_classes(&W.w[t].a);
                for (size_t i = 0; i < W.w[t].ninbox; ++i) {
                    want += W.w[t].inbox[i].cls;
                }
            }
            size_t active = aws_small_block_allocator_bytes_active(W.sba);
            if (active != want) {
                mon_violation("C03:bytes-active", "at barrier %zu: bytes_active = %zu, sum of size classes of all live blocks = %zu", round, active, want);
            }
            size_t reserved = aws_small_block_allocator_bytes_reserved(W.sba);
            if (reserved > W.max_reserved) {
                W.max_reserved = reserved;
            }
            if (reserved < want) {
                mon_violation("C03:bytes-reserved", "at barrier: bytes_reserved = %zu < bytes in use %zu", reserved, want);
            }
        }
        verify_all(a, "at barrier");
        pthread_barrier_wait(&W.barrier);
    }
    /* final drain: everything in flight is delivered (barrier), then everybody releases what it holds */
    pthread_barrier_wait(&W.barrier);
    drain_inbox(w);
    while (a->nlive) {
        do_release_at(a, a->nlive - 1);
    }
    return NULL;
}

static void thr_case(void) {
    struct mon_rng *r = &mon_case_rng;
    struct mon_alloc_stats st0;
    mon_guard_stats(&st0);
    uint64_t pages0 = pages_live();
    memset(&W, 0, sizeof(W));
    W.n = 2 + (int)mon_below(r, MAX_THREADS - 1);
    W.rounds = 2 + (size_t)mon_below(r, 5);
    bool parent_full = mon_chance(r, 1, 2);
    int prof_idx = (int)mon_below(r, (uint64_t)perturb_nprofiles());
    uint64_t pseed = mon_rand(r);
    size_t ops_per_thread = (size_t)(mon_run.param[0] > 0 ? mon_run.param[0] : 1500);
    ops_per_thread = ops_per_thread / 2 + (size_t)mon_below(r, ops_per_thread / 2 + 1);
    mon_fp((uint64_t)W.n * 16 + W.rounds);
    mon_fp(ops_per_thread);
    mon_fp((uint64_t)prof_idx);
    W.sba = aws_small_block_allocator_new(parent_full ? mon_guard_allocator_full() : mon_guard_allocator(), true);
    if (!W.sba) {
        mon_violation("C03:new-failed", "aws_small_block_allocator_new returned NULL");
        return;
    }
    /* a second, single-threaded instance created while the multi-threaded one is alive and used by this thread only:
     * per-instance configuration (locking mode, bins, counters) must not leak from one instance into the other */
    struct aws_allocator *sib = NULL;
    struct actor sa;
    memset(&sa, 0, sizeof(sa));
    size_t sib_ops = 0;
    if (mon_chance(r, 1, 2)) {
        sib = aws_small_block_allocator_new(mon_chance(r, 1, 2) ? mon_guard_allocator_full() : mon_guard_allocator(), false);
        if (!sib) {
            mon_violation("C03:new-failed", "aws_small_block_allocator_new (second instance) returned NULL");
        } else {
            sa.sba = sib;
            sa.cap = 200;
            sa.live = malloc(sa.cap * sizeof(struct blk));
            mon_rng_seed(&sa.rng, mon_rand(r), 0xC03, 99);
            sa.next_id = ((uint64_t)99 << 40) | (mon_rand(r) & 0xffffff);
            sib_ops = 200 + (size_t)mon_below(r, 1800);
            mon_flag(F_SECOND_INSTANCE);
        }
    }
    mon_fp(sib_ops);
    s_nreg = 0;
    pthread_barrier_init(&W.barrier, NULL, (unsigned)W.n);
    for (int t = 0; t < W.n; ++t) {
        struct worker *w = &W.w[t];
        w->idx = t;
        w->nops = ops_per_thread;
        w->round_len = (ops_per_thread + W.rounds - 1) / W.rounds;
        pthread_mutex_init(&w->inbox_lock, NULL);
        w->a.sba = W.sba;
        w->a.cap = 400;
        w->a.live = malloc(w->a.cap * sizeof(struct blk));
        mon_rng_seed(&w->a.rng, mon_rand(r), 0xC03, (uint64_t)t);
        w->a.next_id = ((uint64_t)(t + 1) << 40) | (mon_rand(r) & 0xffffff);
    }
    struct perturb_profile prof;
    perturb_get_profile(prof_idx, &prof);
    perturb_begin(pseed, &prof);
    perturb_bind(0);
    mon_watchdog_arm(300, "C03:hang", "threaded scenario: an allocator call did not return");
    pthread_t th[MAX_THREADS];
    for (int t = 0; t < W.n; ++t) {
        if (pthread_create(&th[t], NULL, worker_main, &W.w[t])) {
            fprintf(stderr, "mon: pthread_create failed\n");
            exit(2);
        }
    }
    if (sib) {
        for (size_t k = 0; k < sib_ops && mon_violations() < 4; ++k) {
            unsigned pick = (unsigned)mon_below(&sa.rng, 100);
            if (pick < 50) {
                do_acquire(&sa);
            } else if (pick < 62) {
                do_realloc(&sa);
            } else if (sa.nlive) {
                do_release_at(&sa, (size_t)mon_below(&sa.rng, sa.nlive));
            }
        }
    }
    for (int t = 0; t < W.n; ++t) {
        pthread_join(th[t], NULL);
    }
    perturb_end();
    mon_watchdog_disarm();
    if (sib) {
        verify_all(&sa, "second instance, after the threads finished");
        size_t want = sum_classes(&sa);
        size_t got = aws_small_block_allocator_bytes_active(sib);
        if (got != want) {
            mon_violation("C03:bytes-active", "second (single-threaded) instance: bytes_active = %zu, live small blocks account for %zu", got, want);
        }
        while (sa.nlive) {
            do_release_at(&sa, sa.nlive - 1);
        }
        if (aws_small_block_allocator_bytes_active(sib) != 0) {
            mon_violation("C03:bytes-active-after-drain", "second instance: everything released but bytes_active = %zu", aws_small_block_allocator_bytes_active(sib));
        }
        aws_small_block_allocator_destroy(sib);
        free(sa.live);
        mon_count("thr_second_instance_operations", sib_ops);
    }
    uint64_t sent = 0, total_ops = 0, bins_used = 0;
    for (int t = 0; t < W.n; ++t) {
        bins_used |= W.w[t].a.bins_seen;
        actor_flags(&W.w[t].a);
        sent += W.w[t].received;
        total_ops += W.w[t].nops;
        free(W.w[t].a.live);
        pthread_mutex_destroy(&W.w[t].inbox_lock);
    }
    pthread_barrier_destroy(&W.barrier);
    if (sent) {
        mon_flag(F_CROSS_THREAD_RELEASE);
    }
    if (W.max_reserved >= 12 * PAGE) {
        mon_flag(F_MANY_PAGES);
    }
    mon_fp(perturb_signature());
    mon_distinct("interleaving_signatures", perturb_signature());

    mon_count("thr_scenarios", 1);
    mon_count("thr_operations", total_ops);
    mon_count("thr_blocks_released_by_another_thread", sent);
    mon_count("sched_points", perturb_points());
    mon_count("sched_points_lock", perturb_points_kind(PK_LOCK));
    mon_count("sched_delays_injected", perturb_delays());
    mon_count("thread_switches_in_trace_prefix", perturb_switches());
    mon_count_max("max_bytes_reserved", W.max_reserved);
    mon_sample("thr: threads=%d rounds=%zu ops/thread=%zu profile=%s handed_over=%llu max_reserved=%zu pages sig=%016llx", W.n, W.rounds, ops_per_thread,
               perturb_profile_name(prof_idx), (unsigned long long)sent, W.max_reserved / PAGE, (unsigned long long)perturb_signature());
    end_checks(W.sba, W.max_reserved, &st0, pages0, bins_used);
}

int main(int argc, char **argv) {
    mon_init(argc, argv, "C03");
    aws_common_library_init(aws_default_allocator());
    static const char *names[] = {"page_returned_to_os", "realloc_small_to_large", "realloc_large_to_small", "realloc_shrink_in_place", "realloc_within_bin", "calloc",
                                  "all_five_bins_used", "blocks_above_512_from_parent", "drained_to_at_most_five_pages", "block_released_by_another_thread",
                                  "twelve_or_more_pages_reserved", "freed_chunk_reused", "realloc_from_null", "realloc_to_zero",
                                  "second_single_threaded_instance_alive_during_threaded_phase", "request_above_2GiB_forwarded_to_parent", "more_than_65536_full_pages_in_one_class"};
    for (int i = 0; i < (int)(sizeof(names) / sizeof(names[0])); ++i) {
        mon_flag_name(i, names[i]);
    }
    bool thr = !strcmp(mon_run.mode, "thr");
    if (thr) {
        mon_watchdog_arm(3600, "C03:hang", "startup");
        mon_watchdog_disarm();
    }
    uint64_t c;
    while (mon_next_case(&c)) {
        mon_case_begin(c);
        if (thr) {
            thr_case();
        } else {
#ifndef DEBUG_BUILD
            if (c == 1000) { /* once per -O2 stage run */
                many_pages_case();
                mon_case_end(true);
                continue;
            }
#endif
            if (c % 64 == 63) {
                huge_case();
            } else {
                seq_case();
            }
        }
        mon_case_end(mon_flag_count() >= 4);
    }
    return mon_finish();
}
