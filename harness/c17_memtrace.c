/*
 * C17 - memory tracer accounting (DESIGN.md section 5, C17)
 *   --mode seq  single-threaded histories through the public aws_mem_* API; bytes and count compared with the live
 *               set after every operation; contents kept across realloc, calloc zeroes, dump changes nothing
 *   --mode thr  2-8 threads on one tracer, blocks handed between threads; exact comparison at barriers; between
 *               barriers every reading of bytes / count is checked against the interval bound derived from the
 *               event log (sound for counters updated once inside each call)
 */
#include "mon.h"
#include "perturb.h"

#include <aws/common/allocator.h>
#include <aws/common/common.h>
#include <aws/common/logging.h>

#include <pthread.h>
#include <sched.h>
#include <stdlib.h>

enum { F_LEVEL_NONE, F_LEVEL_BYTES, F_LEVEL_STACKS, F_REALLOC_MOVED, F_REALLOC_SAME_PTR, F_REALLOC_TO_ZERO, F_REALLOC_FROM_NULL, F_CALLOC, F_DUMP_WITH_LIVE,
       F_CROSS_THREAD_RELEASE, F_READING_DURING_ACTIVITY, F_WRAPPED_HAS_REALLOC, F_WRAPPED_NO_REALLOC, F_ADDRESS_REUSE, F_FOREIGN_RELEASE, F_FOREIGN_REALLOC, F_MANY_STACKS, F_BIG_CALLOC };

static inline uint8_t pat(uint64_t id, size_t off) {
    return (uint8_t)(id * 131 + off * 11 + (id >> 9) + 5);
}

struct blk {
    uint8_t *p;
    size_t size;
    uint64_t id;
};

static void fill(struct blk *b) {
    for (size_t i = 0; i < b->size; ++i) {
        b->p[i] = pat(b->id, i);
    }
}

static bool verify(const struct blk *b, size_t upto, const char *when) {
    for (size_t i = 0; i < upto; ++i) {
        if (b->p[i] != pat(b->id, i)) {
            mon_violation("C17:contents", "block %llx (%zu bytes) damaged at offset %zu %s", (unsigned long long)b->id, b->size, i, when);
            return false;
        }
    }
    return true;
}

static size_t pick_size(struct mon_rng *r) {
    switch (mon_below(r, 8)) {
        case 0:
            return 1;
        case 1:
            return 1 + (size_t)mon_below(r, 16);
        case 2:
            return 4096;
        case 3:
            return 1 + (size_t)mon_below(r, 20000);
        default:
            return 1 + (size_t)mon_below(r, 600);
    }
}

/* ------------------------------------------------------------------ capturing logger for aws_mem_tracer_dump */
static uint64_t s_dump_lines;
static int cap_log(struct aws_logger *logger, enum aws_log_level level, aws_log_subject_t subject, const char *format, ...) {
    (void)logger;
    (void)level;
    (void)subject;
    char buf[512];
    va_list ap;
    va_start(ap, format);
    vsnprintf(buf, sizeof(buf), format, ap);
    va_end(ap);
    __atomic_fetch_add(&s_dump_lines, 1, __ATOMIC_RELAXED);
    return AWS_OP_SUCCESS;
}
static enum aws_log_level cap_level(struct aws_logger *logger, aws_log_subject_t subject) {
    (void)logger;
    (void)subject;
    return AWS_LL_TRACE;
}
static void cap_clean(struct aws_logger *logger) {
    (void)logger;
}
static struct aws_logger_vtable s_cap_vtable = {.log = cap_log, .get_log_level = cap_level, .clean_up = cap_clean, .set_log_level = NULL};
static struct aws_logger s_cap_logger = {.vtable = &s_cap_vtable, .allocator = NULL, .p_impl = NULL};

static const int LEVELS[] = {AWS_MEMTRACE_NONE, AWS_MEMTRACE_BYTES, AWS_MEMTRACE_STACKS};
static const size_t FRAMES[] = {0, 1, 8, 128, 500};

/* ================================================================== sequential */
/* ------------------------------------------------------------------ thousands of distinct call stacks (level STACKS)
 * allocations reached through 2^13 different call chains: two mutually recursive functions, the path is chosen by the
 * bits of the chain number, so every chain is a different sequence of return addresses */
struct chain_req {
    struct aws_allocator *tr;
    size_t size;
    void *out;
};
static void chain_b(unsigned bits, int depth, struct chain_req *q) __attribute__((noinline));
static void chain_a(unsigned bits, int depth, struct chain_req *q) __attribute__((noinline));
static void chain_a(unsigned bits, int depth, struct chain_req *q) {
    if (depth == 0) {
        q->out = aws_mem_acquire(q->tr, q->size);
    } else if (bits & 1) {
        chain_b(bits >> 1, depth - 1, q);
        __asm__ volatile("" ::: "memory"); /* keep this frame: no tail call */
    } else {
        chain_a(bits >> 1, depth - 1, q);
        __asm__ volatile("" ::: "memory");
    }
    __asm__ volatile("" ::: "memory");
}
static void chain_b(unsigned bits, int depth, struct chain_req *q) {
    if (depth == 0) {
        q->out = aws_mem_calloc(q->tr, 1, q->size);
    } else if (bits & 1) {
        chain_a(bits >> 1, depth - 1, q);
        __asm__ volatile("" ::: "memory");
    } else {
        chain_b(bits >> 1, depth - 1, q);
        __asm__ volatile("" ::: "memory");
    }
    __asm__ volatile("" ::: "memory");
}

static void many_stacks_case(void) {
    struct mon_rng *r = &mon_case_rng;
    struct aws_allocator *wrapped = mon_guard_allocator();
    struct mon_alloc_stats st0, st1;
    mon_guard_stats(&st0);
    struct aws_allocator *tr = aws_mem_tracer_new(wrapped, NULL, AWS_MEMTRACE_STACKS, 24);
    mon_fp(0x57AC);
    unsigned nchains = 4000 + (unsigned)mon_below(r, 4192); /* up to 2^13 */
    unsigned start = (unsigned)mon_below(r, 8192);
    void **blocks = malloc(sizeof(void *) * nchains);
    size_t *sizes = malloc(sizeof(size_t) * nchains);
    size_t want_bytes = 0;
    uint64_t v0 = mon_violations();
    for (unsigned i = 0; i < nchains && mon_violations() == v0; ++i) {
        struct chain_req q = {.tr = tr, .size = 1 + (size_t)mon_below(r, 64), .out = NULL};
        chain_a((start + i) & 8191, 13, &q);
        blocks[i] = q.out;
        sizes[i] = q.size;
        want_bytes += q.size;
        if (!q.out) {
            mon_violation("C17:null-block", "acquire through call chain %u returned NULL", i);
            break;
        }
        if ((i & 255) == 255 || i + 1 == nchains) {
            size_t bytes = aws_mem_tracer_bytes(tr), count = aws_mem_tracer_count(tr);
            if (bytes != want_bytes) {
                mon_violation("C17:bytes", "after %u allocations from %u distinct call stacks (level 2): aws_mem_tracer_bytes = %zu, sum of live requested sizes = %zu", i + 1, i + 1,
                              bytes, want_bytes);
            }
            if (count != i + 1) {
                mon_violation("C17:count", "after %u allocations from %u distinct call stacks (level 2): aws_mem_tracer_count = %zu", i + 1, i + 1, count);
            }
        }
    }
    if (mon_violations() == v0) {
        if (mon_chance(r, 1, 2)) {
            aws_mem_tracer_dump(tr);
        }
        for (unsigned i = 0; i < nchains; ++i) {
            aws_mem_release(tr, blocks[i]);
        }
        size_t bytes = aws_mem_tracer_bytes(tr), count = aws_mem_tracer_count(tr);
        if (bytes != 0 || count != 0) {
            mon_violation(bytes ? "C17:bytes" : "C17:count", "everything released after %u allocations from distinct call stacks: tracer reports %zu bytes in %zu allocations", nchains,
                          bytes, count);
        }
        aws_mem_tracer_destroy(tr);
        mon_guard_stats(&st1);
        if (st1.live_blocks != st0.live_blocks) {
            mon_violation("C17:wrapped-imbalance", "after the many-stacks case the wrapped allocator has %lld blocks outstanding", (long long)(st1.live_blocks - st0.live_blocks));
        }
    }
    free(blocks);
    free(sizes);
    mon_flag(F_LEVEL_STACKS);
    mon_flag(F_MANY_STACKS);
    mon_count("allocations_from_distinct_call_stacks", nchains);
}

static void seq_case(void) {
    struct mon_rng *r = &mon_case_rng;
    int level = LEVELS[mon_below(r, 3)];
    size_t frames = FRAMES[mon_below(r, 5)];
    bool full = mon_chance(r, 1, 2);
    struct aws_allocator *wrapped = full ? mon_guard_allocator_full() : mon_guard_allocator();
    struct mon_alloc_stats st0;
    mon_guard_stats(&st0);
    /* blocks the tracer has never seen: obtained from the wrapped allocator directly, some before the tracer exists
     * ("can be installed at any time"). Released through the tracer they change nothing; resized through the tracer the
     * result is an allocation made through the tracer and is counted from then on. */
    struct blk foreign[8];
    size_t nforeign = 0;
    uint64_t foreign_id = 0xF0E1600000000000ULL | (mon_rand(r) & 0xffffff);
    if (mon_chance(r, 1, 2)) {
        size_t nf = 1 + (size_t)mon_below(r, 4);
        for (size_t i = 0; i < nf; ++i) {
            struct blk b = {.id = foreign_id++, .size = pick_size(r)};
            b.p = aws_mem_acquire(wrapped, b.size);
            fill(&b);
            foreign[nforeign++] = b;
        }
    }
    struct aws_allocator *tr = aws_mem_tracer_new(wrapped, NULL, (enum aws_mem_trace_level)level, frames);
    mon_flag(level == AWS_MEMTRACE_NONE ? F_LEVEL_NONE : level == AWS_MEMTRACE_BYTES ? F_LEVEL_BYTES : F_LEVEL_STACKS);
    mon_flag(full ? F_WRAPPED_HAS_REALLOC : F_WRAPPED_NO_REALLOC);
    mon_fp((uint64_t)level * 1000 + frames * 2 + full);
    size_t cap = 32 + (size_t)mon_below(r, 400);
    struct blk *live = malloc(cap * sizeof(*live));
    size_t nlive = 0;
    size_t want_bytes = 0;
    uint64_t next_id = mon_rand(r) << 16;
    size_t nops = 100 + (size_t)mon_below(r, level == AWS_MEMTRACE_STACKS ? 900 : 2900);
    mon_fp(nops);
    const char *opname = "init";
    for (size_t op = 0; op <= nops && mon_violations() < 4; ++op) {
        unsigned pick = (unsigned)mon_below(r, 100);
        unsigned phase = (unsigned)((op * 4 / (nops + 1)) % 4);
        unsigned acq_w = phase == 0 ? 60 : phase == 1 ? 35 : phase == 2 ? 55 : 15;
        if (op == nops) {
            /* final drain */
            while (nlive) {
                struct blk b = live[--nlive];
                verify(&b, b.size, "before final release");
                want_bytes -= b.size;
                aws_mem_release(tr, b.p);
            }
            opname = "final drain";
        } else if (pick < acq_w && nlive < cap) {
            struct blk b;
            b.id = next_id++;
            b.size = pick_size(r);
            if (mon_chance(r, 1, 4)) {
                size_t num = 1 + (size_t)mon_below(r, 5);
                size_t each = (b.size + num - 1) / num;
                b.size = num * each;
                b.p = aws_mem_calloc(tr, num, each);
                opname = "calloc";
                mon_flag(F_CALLOC);
                for (size_t i = 0; b.p && i < b.size; ++i) {
                    if (b.p[i]) {
                        mon_violation("C17:calloc-not-zero", "calloc(%zu,%zu) through the tracer (level %d): byte %zu is %02x", num, each, level, i, b.p[i]);
                        break;
                    }
                }
            } else {
                b.p = aws_mem_acquire(tr, b.size);
                opname = "acquire";
            }
            if (!b.p) {
                mon_violation("C17:null-block", "%s(%zu) returned NULL", opname, b.size);
                break;
            }
            fill(&b);
            live[nlive++] = b;
            want_bytes += b.size;
            mon_fp(1);
        } else if (pick < acq_w + 20) {
            opname = "realloc";
            mon_fp(2);
            if (nlive == 0 || mon_chance(r, 1, 12)) {
                if (nlive < cap) {
                    struct blk b;
                    b.id = next_id++;
                    b.size = pick_size(r);
                    void *p = NULL;
                    if (aws_mem_realloc(tr, &p, 0, b.size) || !p) {
                        mon_violation("C17:realloc-failed", "realloc(NULL, 0 -> %zu) failed", b.size);
                        break;
                    }
                    b.p = p;
                    fill(&b);
                    live[nlive++] = b;
                    want_bytes += b.size;
                    mon_flag(F_REALLOC_FROM_NULL);
                }
            } else {
                size_t i = (size_t)mon_below(r, nlive);
                struct blk *b = &live[i];
                unsigned how = (unsigned)mon_below(r, 10);
                size_t newsize = how == 0 ? 0 : how == 1 ? b->size : how < 5 ? 1 + (size_t)mon_below(r, b->size) : pick_size(r);
                verify(b, b->size, "before realloc");
                void *p = b->p;
                uint8_t *oldp = b->p;
                size_t old = b->size;
                if (aws_mem_realloc(tr, &p, old, newsize)) {
                    mon_violation("C17:realloc-failed", "realloc(%zu -> %zu) failed", old, newsize);
                    break;
                }
                want_bytes -= old;
                if (newsize == 0) {
                    MON_CHECK(p == NULL, "C17:realloc-to-zero", "realloc to 0 left a non-NULL pointer");
                    live[i] = live[--nlive];
                    mon_flag(F_REALLOC_TO_ZERO);
                } else {
                    if (!p) {
                        mon_violation("C17:null-block", "realloc(%zu -> %zu) returned NULL", old, newsize);
                        break;
                    }
                    struct blk nb = {.p = p, .size = newsize, .id = b->id};
                    size_t keep = old < newsize ? old : newsize;
                    struct blk probe = nb;
                    probe.size = keep;
                    verify(&probe, keep, "after realloc through the tracer (prefix min(old,new))");
                    mon_flag(p == oldp ? F_REALLOC_SAME_PTR : F_REALLOC_MOVED);
                    fill(&nb);
                    *b = nb;
                    want_bytes += newsize;
                }
            }
        } else if (pick >= 96) {
            mon_fp(5);
            if (nforeign < 8 && (nforeign == 0 || mon_chance(r, 1, 3))) {
                opname = "acquire directly from the wrapped allocator";
                struct blk b = {.id = foreign_id++, .size = pick_size(r)};
                b.p = aws_mem_acquire(wrapped, b.size);
                fill(&b);
                foreign[nforeign++] = b;
            } else {
                size_t i = (size_t)mon_below(r, nforeign);
                struct blk b = foreign[i];
                foreign[i] = foreign[--nforeign];
                verify(&b, b.size, "foreign block before it is handed to the tracer");
                unsigned how = (unsigned)mon_below(r, 4);
                if (how == 0) {
                    opname = "release through the tracer of a block it never tracked";
                    aws_mem_release(tr, b.p);
                    mon_flag(F_FOREIGN_RELEASE);
                } else if (how == 1 || nlive >= cap) {
                    opname = "realloc to zero through the tracer of a block it never tracked";
                    void *p = b.p;
                    if (aws_mem_realloc(tr, &p, b.size, 0) || p) {
                        mon_violation("C17:realloc-to-zero", "realloc to 0 of an untracked block failed or left a pointer");
                    }
                } else {
                    opname = "realloc through the tracer of a block it never tracked";
                    size_t newsize = how == 2 ? 1 + (size_t)mon_below(r, b.size) : pick_size(r);
                    void *p = b.p;
                    if (aws_mem_realloc(tr, &p, b.size, newsize) || !p) {
                        mon_violation("C17:realloc-failed", "realloc(%zu -> %zu) of an untracked block failed", b.size, newsize);
                        break;
                    }
                    struct blk nb = {.p = p, .size = newsize, .id = b.id};
                    struct blk probe = nb;
                    probe.size = b.size < newsize ? b.size : newsize;
                    verify(&probe, probe.size, "after realloc through the tracer of an untracked block (prefix min(old,new))");
                    fill(&nb);
                    live[nlive++] = nb;
                    want_bytes += newsize;
                    mon_flag(F_FOREIGN_REALLOC);
                }
            }
        } else if (pick < acq_w + 24 && level != AWS_MEMTRACE_NONE) {
            opname = "dump";
            mon_fp(4);
            size_t b0 = aws_mem_tracer_bytes(tr), c0 = aws_mem_tracer_count(tr);
            aws_mem_tracer_dump(tr);
            size_t b1 = aws_mem_tracer_bytes(tr), c1 = aws_mem_tracer_count(tr);
            if (b0 != b1 || c0 != c1) {
                mon_violation("C17:dump-changed-accounting", "aws_mem_tracer_dump changed bytes %zu -> %zu / count %zu -> %zu", b0, b1, c0, c1);
            }
            if (nlive) {
                mon_flag(F_DUMP_WITH_LIVE);
            }
            mon_count("dumps", 1);
        } else if (nlive) {
            opname = "release";
            mon_fp(3);
            size_t i = (size_t)mon_below(r, nlive);
            struct blk b = live[i];
            verify(&b, b.size, "before release");
            want_bytes -= b.size;
            aws_mem_release(tr, b.p);
            live[i] = live[--nlive];
        }
        size_t bytes = aws_mem_tracer_bytes(tr);
        size_t count = aws_mem_tracer_count(tr);
        size_t wb = level == AWS_MEMTRACE_NONE ? 0 : want_bytes;
        size_t wc = level == AWS_MEMTRACE_NONE ? 0 : nlive;
        if (bytes != wb) {
            mon_violation(level == AWS_MEMTRACE_NONE ? "C17:level-none-reports-nonzero" : "C17:bytes", "after %s (level %d): aws_mem_tracer_bytes = %zu, sum of live requested sizes = %zu (%zu blocks)",
                          opname, level, bytes, wb, nlive);
        }
        if (count != wc) {
            mon_violation(level == AWS_MEMTRACE_NONE ? "C17:level-none-reports-nonzero" : "C17:count", "after %s (level %d): aws_mem_tracer_count = %zu, live allocations = %zu", opname, level,
                          count, wc);
        }
        if ((op & 31) == 0) {
            for (size_t i = 0; i < nlive; ++i) {
                if (!verify(&live[i], live[i].size, "at periodic check")) {
                    break;
                }
            }
        }
    }
    while (nforeign) {
        struct blk b = foreign[--nforeign];
        verify(&b, b.size, "foreign block at the end");
        aws_mem_release(wrapped, b.p);
    }
    struct aws_allocator *back = aws_mem_tracer_destroy(tr);
    MON_CHECK(back == wrapped, "C17:destroy-return", "aws_mem_tracer_destroy did not return the wrapped allocator");
    struct mon_alloc_stats st1;
    mon_guard_stats(&st1);
    if (st1.live_blocks != st0.live_blocks) {
        mon_violation("C17:wrapped-imbalance", "after releasing everything and destroying the tracer the wrapped allocator has %lld blocks outstanding",
                      (long long)(st1.live_blocks - st0.live_blocks));
    }
    mon_count("seq_operations", nops);
    mon_sample("seq: level=%d frames=%zu wrapped_realloc=%d ops=%zu", level, frames, full, nops);
    free(live);
}

/* ================================================================== threaded */
enum { EV_ADD_CALL = 1, EV_ADD_RET, EV_SUB_CALL, EV_SUB_RET, EV_READ_CALL, EV_READ_RET, EV_COUNT_CALL, EV_COUNT_RET };

#define MAX_THREADS 8
#define INBOX_CAP 48
#define LIVE_CAP 200

struct worker {
    int idx;
    struct mon_rng rng;
    struct blk live[LIVE_CAP];
    size_t nlive;
    pthread_mutex_t inbox_lock;
    struct blk inbox[INBOX_CAP];
    size_t ninbox;
    size_t nops, round_len;
    uint64_t next_id;
    uint64_t handed;
};

static struct {
    struct worker w[MAX_THREADS];
    int n;
    size_t rounds;
    int level;
    struct aws_allocator *tr;
    pthread_barrier_t barrier;
} W;

static void w_release(struct worker *w, struct blk b) {
    (void)w;
    verify(&b, b.size, "before release (threaded)");
    mon_ev(EV_SUB_CALL, b.id, b.size, 0);
    aws_mem_release(W.tr, b.p);
    mon_ev(EV_SUB_RET, b.id, b.size, 0);
}

static void w_drain(struct worker *w) {
    struct blk tmp[INBOX_CAP];
    pthread_mutex_lock(&w->inbox_lock);
    size_t n = w->ninbox;
    memcpy(tmp, w->inbox, n * sizeof(struct blk));
    w->ninbox = 0;
    pthread_mutex_unlock(&w->inbox_lock);
    for (size_t i = 0; i < n; ++i) {
        if (w->nlive < LIVE_CAP) {
            w->live[w->nlive++] = tmp[i];
        } else {
            w_release(w, tmp[i]);
        }
    }
}

static void *worker_main(void *arg) {
    struct worker *w = arg;
    perturb_bind((unsigned)(1 + w->idx));
    mon_ev_bind((unsigned)(1 + w->idx));
    struct mon_rng *r = &w->rng;
    size_t done = 0;
    for (size_t round = 0; round < W.rounds; ++round) {
        for (size_t k = 0; k < w->round_len && done < w->nops; ++k, ++done) {
            unsigned pick = (unsigned)mon_below(r, 100);
            if (pick < 40 && w->nlive < LIVE_CAP) {
                struct blk b;
                b.id = w->next_id++;
                b.size = mon_chance(r, 1, 2) ? (size_t)(16 << mon_below(r, 3)) : pick_size(r);
                mon_ev(EV_ADD_CALL, b.id, b.size, 0);
                b.p = aws_mem_acquire(W.tr, b.size);
                mon_ev(EV_ADD_RET, b.id, b.size, 0);
                fill(&b);
                w->live[w->nlive++] = b;
            } else if (pick < 52 && w->nlive) {
                size_t i = (size_t)mon_below(r, w->nlive);
                struct blk *b = &w->live[i];
                size_t newsize = mon_chance(r, 1, 2) ? (size_t)(16 << mon_below(r, 3)) : pick_size(r);
                void *p = b->p;
                size_t old = b->size;
                uint64_t newid = w->next_id++;
                verify(b, old, "before realloc (threaded)");
                /* realloc = release(old) + acquire(new), both somewhere inside this call */
                mon_ev(EV_SUB_CALL, b->id, old, 0);
                mon_ev(EV_ADD_CALL, newid, newsize, 0);
                aws_mem_realloc(W.tr, &p, old, newsize);
                mon_ev(EV_SUB_RET, b->id, old, 0);
                mon_ev(EV_ADD_RET, newid, newsize, 0);
                struct blk probe = {.p = p, .size = old < newsize ? old : newsize, .id = b->id};
                verify(&probe, probe.size, "after realloc (threaded)");
                b->p = p;
                b->size = newsize;
                b->id = newid;
                fill(b);
            } else if (pick < 62 && w->nlive && W.n > 1) {
                int dst = (w->idx + 1 + (int)mon_below(r, (uint64_t)W.n - 1)) % W.n;
                struct worker *d = &W.w[dst];
                size_t i = (size_t)mon_below(r, w->nlive);
                pthread_mutex_lock(&d->inbox_lock);
                if (d->ninbox < INBOX_CAP) {
                    d->inbox[d->ninbox++] = w->live[i];
                    w->live[i] = w->live[--w->nlive];
                    w->handed++;
                }
                pthread_mutex_unlock(&d->inbox_lock);
            } else if (pick < 72) {
                mon_ev(EV_READ_CALL, 0, 0, 0);
                size_t v = aws_mem_tracer_bytes(W.tr);
                mon_ev(EV_READ_RET, v, 0, 0);
            } else if (pick < 76) {
                mon_ev(EV_COUNT_CALL, 0, 0, 0);
                size_t v = aws_mem_tracer_count(W.tr);
                mon_ev(EV_COUNT_RET, v, 0, 0);
            } else if (w->nlive) {
                size_t i = (size_t)mon_below(r, w->nlive);
                struct blk b = w->live[i];
                w->live[i] = w->live[--w->nlive];
                w_release(w, b);
            }
            if ((k & 7) == 0) {
                w_drain(w);
            }
        }
        pthread_barrier_wait(&W.barrier);
        if (w->idx == 0) {
            size_t wb = 0, wc = 0;
            for (int t = 0; t < W.n; ++t) {
                for (size_t i = 0; i < W.w[t].nlive; ++i) {
                    wb += W.w[t].live[i].size;
                }
                for (size_t i = 0; i < W.w[t].ninbox; ++i) {
                    wb += W.w[t].inbox[i].size;
                }
                wc += W.w[t].nlive + W.w[t].ninbox;
            }
            if (W.level == AWS_MEMTRACE_NONE) {
                wb = wc = 0;
            }
            size_t bytes = aws_mem_tracer_bytes(W.tr), count = aws_mem_tracer_count(W.tr);
            if (bytes != wb) {
                mon_violation("C17:bytes", "at barrier %zu (level %d, %d threads): aws_mem_tracer_bytes = %zu, sum of live requested sizes = %zu", round, W.level, W.n, bytes, wb);
            }
            if (count != wc) {
                mon_violation("C17:count", "at barrier %zu (level %d, %d threads): aws_mem_tracer_count = %zu, live allocations = %zu", round, W.level, W.n, count, wc);
            }
            if (mon_chance(r, 1, 3) && W.level != AWS_MEMTRACE_NONE) {
                aws_mem_tracer_dump(W.tr);
                if (aws_mem_tracer_bytes(W.tr) != bytes || aws_mem_tracer_count(W.tr) != count) {
                    mon_violation("C17:dump-changed-accounting", "aws_mem_tracer_dump at a barrier changed bytes or count");
                }
            }
        }
        pthread_barrier_wait(&W.barrier);
    }
    pthread_barrier_wait(&W.barrier);
    w_drain(w);
    while (w->nlive) {
        w_release(w, w->live[--w->nlive]);
    }
    return NULL;
}

/* interval bound: for a reading [rc, rr], lower counts allocations certainly live during the whole reading, upper those
 * possibly live at some point of it */
static void check_readings(struct mon_event *ev, size_t n) {
    /* collect add/sub intervals per id */
    struct iv {
        uint64_t id, size, add_call, add_ret, sub_call, sub_ret;
    };
    size_t cap = n / 2 + 8, niv = 0;
    struct iv *ivs = calloc(cap, sizeof(*ivs));
    /* ids are unique; linear probing map by id */
    size_t tabn = 1;
    while (tabn < cap * 2) {
        tabn <<= 1;
    }
    int64_t *tab = malloc(tabn * sizeof(int64_t));
    for (size_t i = 0; i < tabn; ++i) {
        tab[i] = -1;
    }
#define SLOT(id_, out_)                                                                                                                                \
    do {                                                                                                                                               \
        size_t h_ = (size_t)((id_) * 0x9E3779B97F4A7C15ULL) & (tabn - 1);                                                                             \
        while (tab[h_] >= 0 && ivs[tab[h_]].id != (id_)) {                                                                                            \
            h_ = (h_ + 1) & (tabn - 1);                                                                                                                \
        }                                                                                                                                              \
        if (tab[h_] < 0) {                                                                                                                             \
            tab[h_] = (int64_t)niv;                                                                                                                    \
            ivs[niv].id = (id_);                                                                                                                       \
            ivs[niv].add_call = ivs[niv].add_ret = ivs[niv].sub_call = ivs[niv].sub_ret = UINT64_MAX;                                                 \
            ++niv;                                                                                                                                     \
        }                                                                                                                                              \
        (out_) = &ivs[tab[h_]];                                                                                                                        \
    } while (0)
    for (size_t i = 0; i < n; ++i) {
        struct iv *v;
        switch (ev[i].kind) {
            case EV_ADD_CALL:
                SLOT(ev[i].a, v);
                v->size = ev[i].b;
                v->add_call = ev[i].t;
                break;
            case EV_ADD_RET:
                SLOT(ev[i].a, v);
                v->add_ret = ev[i].t;
                break;
            case EV_SUB_CALL:
                SLOT(ev[i].a, v);
                v->sub_call = ev[i].t;
                break;
            case EV_SUB_RET:
                SLOT(ev[i].a, v);
                v->sub_ret = ev[i].t;
                break;
            default:
                break;
        }
    }
    uint64_t open_call[64];
    uint64_t readings = 0, active_readings = 0;
    for (size_t i = 0; i < n; ++i) {
        if (ev[i].kind == EV_READ_CALL || ev[i].kind == EV_COUNT_CALL) {
            open_call[ev[i].tix & 63] = ev[i].t;
        } else if (ev[i].kind == EV_READ_RET || ev[i].kind == EV_COUNT_RET) {
            bool is_bytes = ev[i].kind == EV_READ_RET;
            uint64_t rc = open_call[ev[i].tix & 63], rr = ev[i].t;
            uint64_t lower = 0, upper = 0;
            for (size_t k = 0; k < niv; ++k) {
                struct iv *v = &ivs[k];
                uint64_t w = is_bytes ? v->size : 1;
                if (v->add_ret < rc && v->sub_call > rr) {
                    lower += w;
                }
                if (v->add_call < rr && v->sub_ret > rc) {
                    upper += w;
                }
            }
            if (W.level == AWS_MEMTRACE_NONE) {
                lower = upper = 0;
            }
            ++readings;
            if (lower != upper) {
                ++active_readings;
            }
            uint64_t got = ev[i].a;
            if (got < lower || got > upper) {
                mon_violation(is_bytes ? "C17:bytes-outside-interval-bound" : "C17:count-outside-interval-bound",
                              "concurrent reading of %s = %llu lies outside [%llu, %llu] (allocations certainly live during the whole reading .. possibly live at some point of it)",
                              is_bytes ? "aws_mem_tracer_bytes" : "aws_mem_tracer_count", (unsigned long long)got, (unsigned long long)lower, (unsigned long long)upper);
                break;
            }
        }
    }
#undef SLOT
    mon_count("thr_concurrent_readings_checked", readings);
    mon_count("thr_readings_with_activity_in_flight", active_readings);
    if (active_readings) {
        mon_flag(F_READING_DURING_ACTIVITY);
    }
    free(tab);
    free(ivs);
}

static void thr_case(void) {
    struct mon_rng *r = &mon_case_rng;
    memset(&W, 0, sizeof(W));
    W.n = 2 + (int)mon_below(r, MAX_THREADS - 1);
    W.rounds = 2 + (size_t)mon_below(r, 4);
    W.level = LEVELS[mon_below(r, 3)];
    size_t frames = FRAMES[mon_below(r, 5)];
    bool full = mon_chance(r, 1, 2);
    int prof_idx = (int)mon_below(r, (uint64_t)perturb_nprofiles());
    uint64_t pseed = mon_rand(r);
    size_t ops = (size_t)(mon_run.param[0] > 0 ? mon_run.param[0] : 600);
    if (W.level == AWS_MEMTRACE_STACKS) {
        ops /= 2;
    }
    ops = ops / 2 + (size_t)mon_below(r, ops / 2 + 1);
    struct aws_allocator *wrapped = full ? mon_guard_allocator_full() : mon_guard_allocator();
    struct mon_alloc_stats st0;
    mon_guard_stats(&st0);
    mon_fp((uint64_t)W.n * 100 + W.rounds * 10 + (uint64_t)W.level);
    mon_fp(ops);
    mon_fp((uint64_t)prof_idx);
    /* half of the scenarios: the wrapped allocator hands a just-released address to the very next acquire of the
     * same size from any thread, so that the realloc window (old block gone, bookkeeping not yet updated) is hostile */
    bool reuse = mon_chance(r, 1, 2);
    mon_guard_set_reuse(reuse);
    W.tr = aws_mem_tracer_new(wrapped, NULL, (enum aws_mem_trace_level)W.level, frames);
    mon_flag(W.level == AWS_MEMTRACE_NONE ? F_LEVEL_NONE : W.level == AWS_MEMTRACE_BYTES ? F_LEVEL_BYTES : F_LEVEL_STACKS);
    mon_flag(full ? F_WRAPPED_HAS_REALLOC : F_WRAPPED_NO_REALLOC);
    pthread_barrier_init(&W.barrier, NULL, (unsigned)W.n);
    mon_ev_reset((unsigned)W.n + 1, ops * 5 + 64);
    mon_ev_bind(0);
    for (int t = 0; t < W.n; ++t) {
        struct worker *w = &W.w[t];
        w->idx = t;
        w->nops = ops;
        w->round_len = (ops + W.rounds - 1) / W.rounds;
        w->next_id = ((uint64_t)(t + 1) << 40) + 1;
        mon_rng_seed(&w->rng, mon_rand(r), 0xC17, (uint64_t)t);
        pthread_mutex_init(&w->inbox_lock, NULL);
    }
    struct perturb_profile prof;
    perturb_get_profile(prof_idx, &prof);
    perturb_begin(pseed, &prof);
    perturb_bind(0);
    mon_watchdog_arm(300, "C17:hang", "threaded scenario: a call through the tracer did not return");
    pthread_t th[MAX_THREADS];
    for (int t = 0; t < W.n; ++t) {
        if (pthread_create(&th[t], NULL, worker_main, &W.w[t])) {
            fprintf(stderr, "mon: pthread_create failed\n");
            exit(2);
        }
    }
    for (int t = 0; t < W.n; ++t) {
        pthread_join(th[t], NULL);
    }
    perturb_end();
    mon_watchdog_disarm();
    size_t bytes = aws_mem_tracer_bytes(W.tr), count = aws_mem_tracer_count(W.tr);
    if (bytes || count) {
        mon_violation("C17:not-zero-after-release", "everything released but bytes = %zu, count = %zu", bytes, count);
    }
    aws_mem_tracer_destroy(W.tr);
    mon_guard_set_reuse(false);
    struct mon_alloc_stats st1;
    mon_guard_stats(&st1);
    if (st1.live_blocks != st0.live_blocks) {
        mon_violation("C17:wrapped-imbalance", "after releasing everything and destroying the tracer the wrapped allocator has %lld blocks outstanding",
                      (long long)(st1.live_blocks - st0.live_blocks));
    }
    if (reuse) {
        mon_flag(F_ADDRESS_REUSE);
    }
    size_t nev = 0;
    struct mon_event *ev = mon_ev_merge(&nev);
    if (mon_ev_overflowed()) {
        fprintf(stderr, "mon: event log overflow\n");
        exit(2);
    }
    check_readings(ev, nev);
    free(ev);
    uint64_t handed = 0;
    for (int t = 0; t < W.n; ++t) {
        handed += W.w[t].handed;
        pthread_mutex_destroy(&W.w[t].inbox_lock);
    }
    pthread_barrier_destroy(&W.barrier);
    if (handed) {
        mon_flag(F_CROSS_THREAD_RELEASE);
    }
    mon_fp(perturb_signature());
    mon_distinct("interleaving_signatures", perturb_signature());

    mon_count("thr_scenarios", 1);
    mon_count("thr_operations", (uint64_t)W.n * ops);
    mon_count("thr_blocks_released_by_another_thread", handed);
    mon_count("sched_points", perturb_points());
    mon_count("sched_delays_injected", perturb_delays());
    mon_count("thread_switches_in_trace_prefix", perturb_switches());
    mon_sample("thr: level=%d frames=%zu threads=%d rounds=%zu ops/thread=%zu profile=%s handed=%llu events=%zu", W.level, frames, W.n, W.rounds, ops,
               perturb_profile_name(prof_idx), (unsigned long long)handed, nev);
}

/* ------------------------------------------------------------------ zero-initialised tables of 4 GiB and more through the tracer
 * The wrapped allocator hands out address space (mmap, untouched = zero) and has its own calloc entry point, so nothing is
 * written. The tracer's totals must be the full products num*size while the blocks are live; count, dump and release as ever. */
#include <sys/mman.h>
#define VA_SLOTS 8
static struct {
    void *p;
    size_t len;
} s_va[VA_SLOTS];
static void *va_acquire(struct aws_allocator *a, size_t size) {
    (void)a;
    for (int i = 0; i < VA_SLOTS; ++i) {
        if (!s_va[i].p) {
            void *p = mmap(NULL, size, PROT_READ | PROT_WRITE, MAP_PRIVATE | MAP_ANONYMOUS | MAP_NORESERVE, -1, 0);
            if (p == MAP_FAILED) {
                return NULL;
            }
            s_va[i].p = p;
            s_va[i].len = size;
            return p;
        }
    }
    return NULL;
}
static void va_release(struct aws_allocator *a, void *p) {
    (void)a;
    for (int i = 0; p && i < VA_SLOTS; ++i) {
        if (s_va[i].p == p) {
            munmap(p, s_va[i].len);
            s_va[i].p = NULL;
            return;
        }
    }
}
static void *va_calloc(struct aws_allocator *a, size_t num, size_t size) {
    return va_acquire(a, num * size);
}
static struct aws_allocator s_va_alloc = {.mem_acquire = va_acquire, .mem_release = va_release, .mem_realloc = NULL, .mem_calloc = va_calloc, .impl = NULL};

static void big_calloc_case(void) {
    struct mon_rng *r = &mon_case_rng;
    /* can this machine reserve the address space at all? (otherwise the library's allocation check would abort) */
    void *probe = mmap(NULL, (size_t)6 << 30, PROT_READ | PROT_WRITE, MAP_PRIVATE | MAP_ANONYMOUS | MAP_NORESERVE, -1, 0);
    if (probe == MAP_FAILED) {
        mon_count("big_calloc_case_skipped_no_address_space", 1);
        return;
    }
    munmap(probe, (size_t)6 << 30);
    int level = mon_chance(r, 1, 2) ? AWS_MEMTRACE_BYTES : AWS_MEMTRACE_STACKS;
    mon_fp(0xCA110C + (uint64_t)level);
    struct aws_allocator *tr = aws_mem_tracer_new(&s_va_alloc, NULL, (enum aws_mem_trace_level)level, 8);
    static const size_t NUM[4] = {1, 65537, ((size_t)1 << 32) + 3, 48};
    static const size_t SZ[4] = {((size_t)1 << 32) + 4096, 65536, 1, (size_t)100 << 20};
    uint8_t *blk[4];
    size_t want = 0;
    uint64_t v0 = mon_violations();
    for (int i = 0; i < 4 && mon_violations() == v0; ++i) {
        blk[i] = aws_mem_calloc(tr, NUM[i], SZ[i]);
        want += NUM[i] * SZ[i];
        if (blk[i][0] || blk[i][NUM[i] * SZ[i] - 1]) {
            mon_violation("C17:calloc-not-zero", "calloc(%zu, %zu) through the tracer returned memory that is not zero", NUM[i], SZ[i]);
        }
        size_t bytes = aws_mem_tracer_bytes(tr), count = aws_mem_tracer_count(tr);
        if (bytes != want || count != (size_t)i + 1) {
            mon_violation("C17:bytes", "level %d, after calloc(%zu, %zu) through the tracer: aws_mem_tracer_bytes = %zu, sum of live requested sizes = %zu; count %zu, live %d", level,
                          NUM[i], SZ[i], bytes, want, count, i + 1);
        }
    }
    if (mon_violations() == v0) {
        aws_mem_tracer_dump(tr);
        if (aws_mem_tracer_bytes(tr) != want) {
            mon_violation("C17:dump-changed-accounting", "dump with %zu bytes live changed the total to %zu", want, aws_mem_tracer_bytes(tr));
        }
        for (int i = 0; i < 4; ++i) {
            aws_mem_release(tr, blk[i]);
            want -= NUM[i] * SZ[i];
            if (aws_mem_tracer_bytes(tr) != want || aws_mem_tracer_count(tr) != (size_t)(3 - i)) {
                mon_violation("C17:bytes", "level %d, after releasing the calloc(%zu, %zu) block: aws_mem_tracer_bytes = %zu, expected %zu; count %zu, expected %d", level, NUM[i],
                              SZ[i], aws_mem_tracer_bytes(tr), want, aws_mem_tracer_count(tr), 3 - i);
                break;
            }
        }
    }
    aws_mem_tracer_destroy(tr);
    for (int i = 0; i < VA_SLOTS; ++i) {
        if (s_va[i].p) {
            munmap(s_va[i].p, s_va[i].len);
            s_va[i].p = NULL;
        }
    }
    mon_flag(F_BIG_CALLOC);
    mon_flag(level == AWS_MEMTRACE_BYTES ? F_LEVEL_BYTES : F_LEVEL_STACKS);
    mon_flag(F_CALLOC);
    mon_flag(F_DUMP_WITH_LIVE);
    mon_count("callocs_of_4GiB_or_more_through_the_tracer", 4);
}

int main(int argc, char **argv) {
    mon_init(argc, argv, "C17");
    aws_common_library_init(aws_default_allocator());
    aws_logger_set(&s_cap_logger);
    static const char *names[] = {"level_none", "level_bytes", "level_stacks", "realloc_moved", "realloc_same_pointer", "realloc_to_zero", "realloc_from_null", "calloc",
                                  "dump_with_live_allocations", "block_released_by_another_thread", "reading_with_activity_in_flight", "wrapped_allocator_has_realloc",
                                  "wrapped_allocator_without_realloc", "wrapped_allocator_reuses_addresses_immediately",
                                  "untracked_block_released_through_tracer", "untracked_block_resized_through_tracer",
                                  "more_than_4000_distinct_call_stacks", "calloc_of_4GiB_or_more_through_the_tracer"};
    for (int i = 0; i < (int)(sizeof(names) / sizeof(names[0])); ++i) {
        mon_flag_name(i, names[i]);
    }
    bool thr = !strcmp(mon_run.mode, "thr");
    if (thr) {
        mon_watchdog_arm(3600, "C17:hang", "startup");
        mon_watchdog_disarm();
    }
    uint64_t c;
    while (mon_next_case(&c)) {
        mon_case_begin(c);
        if (thr) {
            thr_case();
            mon_case_end(mon_flag_count() >= 3);
        } else {
            if (c % 64 == 63) {
                many_stacks_case();
            } else if (c % 512 == 100) {
                big_calloc_case();
            } else {
                seq_case();
            }
            mon_case_end(mon_flag_count() >= 4);
        }
    }
    mon_count("dump_log_lines_captured", __atomic_load_n(&s_dump_lines, __ATOMIC_RELAXED));
    return mon_finish();
}
