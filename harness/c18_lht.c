/*
 * C18 - linked hash table keeps insertion order; FIFO / LIFO / LRU caches evict by their stated policy
 * (DESIGN.md section 5, C18).
 *
 * Reference = array-backed ordered map (class -> key object, value object), deliberately naive. Keys are
 * equal-by-content (class number) but distinct objects from a per-case pool; every key / value object has its
 * own destructor counter. After EVERY operation:
 *   - the iteration list is walked forward (begin/next/end) and backward (rbegin/prev/rend) and compared, node by
 *     node, with the reference order: key pointer, value pointer, node->table;
 *   - the underlying hash table's entry count equals the list length, and every hash element maps to exactly one
 *     list node whose key pointer equals the element's key (the "table (key -> node) plus list of nodes" state);
 *   - the destructor calls made during the operation equal the set the model predicts (value of a displaced entry
 *     once; displaced key once iff its pointer differs from the new key; both once on remove / clear / clean_up /
 *     eviction), no object is ever destroyed twice, and no hash / equality callback sees a destroyed key;
 *   - caches: never more than max_items, the entry just inserted is retrievable, the evicted entry is exactly the
 *     policy's victim (own violation keys per policy), use_lru_element / get_mru_element return the model's value.
 * At the end of a case clean_up / aws_cache_destroy must destroy every remaining key and value exactly once and the
 * guard allocator must be balanced.
 *
 * Documented behaviour encoded in the model (no alarm beyond property + headers):
 *   - re-put of an existing key replaces the value and moves the entry to the back (property statement); in a FIFO
 *     cache "oldest inserted" therefore means oldest by last put; find does not reorder FIFO / LIFO caches.
 *   - a re-put never evicts (the element count does not grow).
 *   - LRU: find, put and use_lru_element count as use; get_mru_element does not change the order.
 *   - find of an absent key: AWS_OP_SUCCESS and *p_value == NULL (header). remove of an absent key: AWS_OP_SUCCESS
 *     and nothing changes ("hash table semantics are preserved"; aws_hash_table_remove always succeeds).
 *   - after an overwriting put the table holds the NEW key pointer (source comment in put; the property's destructor
 *     rule presupposes it: the displaced key is the old one).
 *   - values are never NULL (NULL is the "not found" answer) and a value object is never put twice.
 *   - use_lru_element / get_mru_element are only called on LRU caches (impl is NULL otherwise: precondition).
 */
#include "mon.h"

#include <aws/common/cache.h>
#include <aws/common/common.h>
#include <aws/common/error.h>
#include <aws/common/fifo_cache.h>
#include <aws/common/lifo_cache.h>
#include <aws/common/linked_hash_table.h>
#include <aws/common/lru_cache.h>
#include <aws/common/private/hash_table_impl.h>

#include <stdlib.h>

#define MAX_CLS 12
#define MAX_OPS 300
#define MAX_KOBJ (MAX_OPS + 2 * MAX_CLS + 8)
#define MAX_VOBJ (MAX_OPS + 8)
#define MAX_WALK (MAX_CLS + 6)
#define MAX_LOG 64
#define KMAGIC 0x4B455931u
#define VMAGIC 0x56414C31u

enum { KIND_TABLE, KIND_FIFO, KIND_LIFO, KIND_LRU, KIND__N };
static const char *const s_kind_names[] = {"table", "fifo", "lifo", "lru"};

enum { O_FREE, O_PROBE, O_HELD, O_GONE };

enum {
    F_OVERWRITE_DISTINCT_KEY,
    F_OVERWRITE_SAME_KEY,
    F_EVICT_FIFO,
    F_EVICT_LIFO,
    F_EVICT_LRU,
    F_OVERWRITE_VICTIM,
    F_CAP1_EVICT,
    F_REMOVE_REFILL,
    F_LRU_FIND_REORDER,
    F_USE_LRU,
    F_GET_MRU,
    F_CLEAR_NONEMPTY,
    F_REMOVE_PRESENT,
    F_REMOVE_ABSENT,
    F_FIND_ABSENT,
    F_MOVE_TO_BACK,
    F_RESIZED,
    F_NO_KEY_DTOR,
    F_NO_VALUE_DTOR,
    F_ALL_COLLIDE,
    F_CLEANUP_NONEMPTY,
    F_LRU_EMPTY_ACCESS,
    F_REMOVE_BY_STORED_PTR,
    F_FULL_REPUT_NO_EVICT,
    F__N
};
static const char *const s_flag_names[F__N] = {
    "overwrite_distinct_key_pointer", "overwrite_same_key_pointer", "evict_fifo", "evict_lifo", "evict_lru",
    "overwrite_of_would_be_victim", "capacity1_eviction", "remove_then_refill", "lru_find_reorders",
    "use_lru_element", "get_mru_element", "clear_nonempty", "remove_present", "remove_absent", "find_absent",
    "table_find_and_move_or_move_node", "hash_table_resized", "no_key_destructor", "no_value_destructor",
    "all_keys_collide", "clean_up_nonempty", "lru_access_on_empty", "remove_by_stored_key_pointer",
    "reput_on_full_cache_no_eviction"};

struct kobj {
    uint32_t magic;
    uint32_t cls;
    uint32_t id;
    uint32_t state;
    uint32_t destroyed;
};
struct vobj {
    uint32_t magic;
    uint32_t id;
    uint32_t state;
    uint32_t destroyed;
};
struct ment {
    uint32_t cls;
    struct kobj *k;
    struct vobj *v;
};

static struct kobj s_k[MAX_KOBJ];
static struct vobj s_v[MAX_VOBJ];
static size_t s_nk, s_nv;
static struct kobj *s_probe[MAX_CLS];
static struct ment s_m[MAX_CLS + 2];
static size_t s_n;
static bool s_removed_once[MAX_CLS];

static int s_kind;
static bool s_has_kd, s_has_vd;
static size_t s_ncls, s_max;
static unsigned s_hmode;
static struct aws_linked_hash_table s_tbl;
static struct aws_cache *s_cache;
static struct aws_linked_hash_table *s_t;
static char s_op[96];

/* destructor bookkeeping of the current operation */
static uint32_t s_exp_k[MAX_LOG], s_exp_v[MAX_LOG], s_act_k[MAX_LOG], s_act_v[MAX_LOG];
static size_t s_nek, s_nev, s_nak, s_nav;
static bool s_dead_key_reported;

/* mon_violation() counts a repeated key only once per process, so "did this case fail" needs its own counter:
 * a history whose model is out of step must be stopped, otherwise follow-up alarms with misleading keys appear. */
static unsigned s_case_viol;
#define VIOL(key, ...)                                                                                               \
    do {                                                                                                             \
        ++s_case_viol;                                                                                               \
        mon_violation((key), __VA_ARGS__);                                                                           \
    } while (0)
#define CHECK(cond, key, ...)                                                                                        \
    do {                                                                                                             \
        if (!(cond)) {                                                                                               \
            VIOL((key), __VA_ARGS__);                                                                                \
        }                                                                                                            \
    } while (0)

static char s_kkey_buf[64];
static const char *kindkey(const char *suffix) {
    snprintf(s_kkey_buf, sizeof(s_kkey_buf), "C18:%s:%s", s_kind_names[s_kind], suffix);
    return s_kkey_buf;
}

/* ------------------------------------------------------------------ objects and callbacks */
static struct kobj *kobj_of(const void *p) {
    uintptr_t a = (uintptr_t)p, lo = (uintptr_t)s_k, hi = (uintptr_t)(s_k + s_nk);
    if (a < lo || a >= hi || (a - lo) % sizeof(struct kobj) || ((const struct kobj *)p)->magic != KMAGIC) {
        return NULL;
    }
    return (struct kobj *)p;
}
static struct vobj *vobj_of(const void *p) {
    uintptr_t a = (uintptr_t)p, lo = (uintptr_t)s_v, hi = (uintptr_t)(s_v + s_nv);
    if (a < lo || a >= hi || (a - lo) % sizeof(struct vobj) || ((const struct vobj *)p)->magic != VMAGIC) {
        return NULL;
    }
    return (struct vobj *)p;
}

static struct kobj *cb_key(const void *p, const char *who) {
    struct kobj *k = kobj_of(p);
    if (!k) {
        VIOL("C18:callback-bad-pointer", "during %s: %s callback received a pointer that is not a key object", s_op, who);
        return NULL;
    }
    if (k->destroyed && !s_dead_key_reported) {
        s_dead_key_reported = true;
        VIOL("C18:destroyed-key-used", "during %s: %s callback received key object #%u (class %u) whose destructor already ran",
                      s_op, who, k->id, k->cls);
    }
    return k;
}

static uint64_t s_hash(const void *p) {
    struct kobj *k = cb_key(p, "hash");
    if (!k) {
        return 1;
    }
    switch (s_hmode) {
        case 0:
            return 7; /* every key collides */
        case 1:
            return k->cls % 3;
        case 2:
            return (uint64_t)(k->cls + 1) * 0x9E3779B97F4A7C15ULL;
        default:
            return k->cls; /* includes hash code 0 */
    }
}

static bool s_eq(const void *a, const void *b) {
    struct kobj *ka = cb_key(a, "equals"), *kb = cb_key(b, "equals");
    if (!ka || !kb) {
        return false;
    }
    return ka->cls == kb->cls;
}

static void s_key_dtor(void *p) {
    struct kobj *k = kobj_of(p);
    if (!k) {
        VIOL("C18:destructor-bad-pointer", "during %s: key destructor called with a pointer that is not a key object", s_op);
        return;
    }
    ++k->destroyed;
    if (k->destroyed > 1) {
        VIOL("C18:key-destroyed-twice", "during %s: key object #%u (class %u) destroyed %u times", s_op, k->id, k->cls,
                      k->destroyed);
    }
    if (s_nak < MAX_LOG) {
        s_act_k[s_nak++] = k->id;
    }
}

static void s_val_dtor(void *p) {
    struct vobj *v = vobj_of(p);
    if (!v) {
        VIOL("C18:destructor-bad-pointer", "during %s: value destructor called with a pointer that is not a value object (%s)",
                      s_op, p ? "non-NULL" : "NULL");
        return;
    }
    ++v->destroyed;
    if (v->destroyed > 1) {
        VIOL("C18:value-destroyed-twice", "during %s: value object #%u destroyed %u times", s_op, v->id, v->destroyed);
    }
    if (s_nav < MAX_LOG) {
        s_act_v[s_nav++] = v->id;
    }
}

static struct kobj *new_kobj(uint32_t cls, uint32_t state) {
    if (s_nk >= MAX_KOBJ) {
        fprintf(stderr, "c18: key pool exhausted\n");
        exit(2);
    }
    struct kobj *k = &s_k[s_nk];
    k->magic = KMAGIC;
    k->cls = cls;
    k->id = (uint32_t)s_nk++;
    k->state = state;
    k->destroyed = 0;
    return k;
}
static struct vobj *new_vobj(void) {
    if (s_nv >= MAX_VOBJ) {
        fprintf(stderr, "c18: value pool exhausted\n");
        exit(2);
    }
    struct vobj *v = &s_v[s_nv];
    v->magic = VMAGIC;
    v->id = (uint32_t)s_nv++;
    v->state = O_HELD;
    v->destroyed = 0;
    return v;
}

/* ------------------------------------------------------------------ reference model */
static int model_find(uint32_t cls) {
    for (size_t i = 0; i < s_n; ++i) {
        if (s_m[i].cls == cls) {
            return (int)i;
        }
    }
    return -1;
}
static void model_erase(size_t i) {
    for (size_t j = i; j + 1 < s_n; ++j) {
        s_m[j] = s_m[j + 1];
    }
    --s_n;
}
static void model_to_back(size_t i) {
    struct ment e = s_m[i];
    model_erase(i);
    s_m[s_n++] = e;
}
static void expect_key_destroyed(struct kobj *k) {
    k->state = O_GONE;
    if (s_nek < MAX_LOG) {
        s_exp_k[s_nek++] = k->id;
    }
}
static void expect_val_destroyed(struct vobj *v) {
    v->state = O_GONE;
    if (s_nev < MAX_LOG) {
        s_exp_v[s_nev++] = v->id;
    }
}
/* entry i leaves the map entirely (remove / clear / clean_up / eviction) */
static void model_drop(size_t i) {
    expect_key_destroyed(s_m[i].k);
    expect_val_destroyed(s_m[i].v);
    model_erase(i);
}

static void op_begin(void) {
    s_nek = s_nev = s_nak = s_nav = 0;
    s_dead_key_reported = false;
}

static bool in_list(const uint32_t *l, size_t n, uint32_t id) {
    for (size_t i = 0; i < n; ++i) {
        if (l[i] == id) {
            return true;
        }
    }
    return false;
}

static void verify_destructors(void) {
    if (s_has_kd) {
        for (size_t i = 0; i < s_nek; ++i) {
            if (!in_list(s_act_k, s_nak, s_exp_k[i])) {
                VIOL("C18:key-not-destroyed", "after %s: key object #%u (class %u) was displaced but its destructor did not run",
                              s_op, s_exp_k[i], s_k[s_exp_k[i]].cls);
                break;
            }
        }
        for (size_t i = 0; i < s_nak; ++i) {
            if (!in_list(s_exp_k, s_nek, s_act_k[i])) {
                struct kobj *k = &s_k[s_act_k[i]];
                VIOL("C18:key-destroyed-unexpectedly",
                              "after %s: key destructor ran for object #%u (class %u, %s) which the operation does not displace", s_op,
                              k->id, k->cls, k->state == O_HELD ? "still stored" : k->state == O_PROBE ? "lookup probe" : "not stored");
                break;
            }
        }
    } else if (s_nak) {
        VIOL("C18:key-destroyed-unexpectedly", "after %s: key destructor ran although none was configured", s_op);
    }
    if (s_has_vd) {
        for (size_t i = 0; i < s_nev; ++i) {
            if (!in_list(s_act_v, s_nav, s_exp_v[i])) {
                VIOL("C18:value-not-destroyed", "after %s: value object #%u was displaced but its destructor did not run", s_op,
                              s_exp_v[i]);
                break;
            }
        }
        for (size_t i = 0; i < s_nav; ++i) {
            if (!in_list(s_exp_v, s_nev, s_act_v[i])) {
                VIOL("C18:value-destroyed-unexpectedly",
                              "after %s: value destructor ran for object #%u which the operation does not displace", s_op, s_act_v[i]);
                break;
            }
        }
    } else if (s_nav) {
        VIOL("C18:value-destroyed-unexpectedly", "after %s: value destructor ran although none was configured", s_op);
    }
}

/* ------------------------------------------------------------------ observation of the real structure */
static size_t walk_forward(struct aws_linked_hash_table_node **out, size_t max) {
    const struct aws_linked_list *l = aws_linked_hash_table_get_iteration_list(s_t);
    size_t n = 0;
    for (struct aws_linked_list_node *it = aws_linked_list_begin(l); it != aws_linked_list_end(l); it = aws_linked_list_next(it)) {
        if (n >= max) {
            return max + 1;
        }
        out[n++] = AWS_CONTAINER_OF(it, struct aws_linked_hash_table_node, node);
    }
    return n;
}
static size_t walk_backward(struct aws_linked_hash_table_node **out, size_t max) {
    const struct aws_linked_list *l = aws_linked_hash_table_get_iteration_list(s_t);
    size_t n = 0;
    for (struct aws_linked_list_node *it = aws_linked_list_rbegin(l); it != aws_linked_list_rend(l); it = aws_linked_list_prev(it)) {
        if (n >= max) {
            return max + 1;
        }
        out[n++] = AWS_CONTAINER_OF(it, struct aws_linked_hash_table_node, node);
    }
    return n;
}

static const char *describe_real(struct aws_linked_hash_table_node **nodes, size_t n) {
    static char buf[400];
    size_t o = 0;
    buf[0] = 0;
    for (size_t i = 0; i < n && i < MAX_WALK && o + 40 < sizeof(buf); ++i) {
        struct kobj *k = kobj_of(nodes[i]->key);
        struct vobj *v = vobj_of(nodes[i]->value);
        o += (size_t)snprintf(buf + o, sizeof(buf) - o, "%s", i ? " " : "");
        if (k) {
            o += (size_t)snprintf(buf + o, sizeof(buf) - o, "c%u/k%u", k->cls, k->id);
        } else {
            o += (size_t)snprintf(buf + o, sizeof(buf) - o, "?/k?");
        }
        if (v) {
            o += (size_t)snprintf(buf + o, sizeof(buf) - o, "/v%u", v->id);
        } else {
            o += (size_t)snprintf(buf + o, sizeof(buf) - o, "/v?");
        }
    }
    return buf;
}
static const char *describe_model(void) {
    static char buf[400];
    size_t o = 0;
    buf[0] = 0;
    for (size_t i = 0; i < s_n && o + 40 < sizeof(buf); ++i) {
        o += (size_t)snprintf(buf + o, sizeof(buf) - o, "%sc%u/k%u/v%u", i ? " " : "", s_m[i].cls, s_m[i].k->id, s_m[i].v->id);
    }
    return buf;
}

static void check_all(void) {
    struct aws_linked_hash_table_node *fw[MAX_WALK + 1], *bw[MAX_WALK + 1];
    size_t nf = walk_forward(fw, MAX_WALK);
    size_t nb = walk_backward(bw, MAX_WALK);
    size_t cnt = s_kind == KIND_TABLE ? aws_linked_hash_table_get_element_count(s_t) : aws_cache_get_element_count(s_cache);
    size_t hcnt = aws_hash_table_get_entry_count(&s_t->table);

    if (s_kind != KIND_TABLE) {
        CHECK(cnt <= s_max && nf <= s_max, kindkey("over-capacity"), "after %s: cache holds %zu entries (list length %zu), max_items %zu",
                  s_op, cnt, nf, s_max);
        CHECK(s_cache->max_items == s_max, "C18:max-items-changed", "after %s: max_items %zu, configured %zu", s_op,
                  s_cache->max_items, s_max);
    }
    CHECK(cnt == s_n, "C18:element-count", "after %s: element count %zu, reference %zu", s_op, cnt, s_n);
    if (nf > MAX_WALK || nb > MAX_WALK) {
        VIOL("C18:list-walk", "after %s: iteration list does not terminate within %d nodes", s_op, MAX_WALK);
        return;
    }
    CHECK(hcnt == nf, "C18:table-list-count", "after %s: hash table has %zu entries, iteration list has %zu nodes", s_op, hcnt, nf);
    CHECK(nf == nb, "C18:list-walk", "after %s: forward walk sees %zu nodes, backward walk %zu", s_op, nf, nb);
    if (nf != s_n) {
        VIOL("C18:list-length", "after %s: iteration list has %zu nodes [%s], reference has %zu [%s]", s_op, nf,
                      describe_real(fw, nf), s_n, describe_model());
        return;
    }
    for (size_t i = 0; i < nf; ++i) {
        struct aws_linked_hash_table_node *nd = fw[i];
        if (nf == nb && bw[nf - 1 - i] != nd) {
            VIOL("C18:list-backward", "after %s: backward walk position %zu is not the node at forward position %zu", s_op,
                          nf - 1 - i, i);
            break;
        }
        if (nd->key != s_m[i].k || nd->value != s_m[i].v) {
            struct kobj *k = kobj_of(nd->key);
            const char *key = "C18:list-order";
            if (k && k->cls == s_m[i].cls) {
                key = nd->key != s_m[i].k ? "C18:list-key-pointer" : "C18:list-value";
            }
            VIOL(key, "after %s: iteration list [%s] differs from reference [%s] at position %zu", s_op, describe_real(fw, nf),
                          describe_model(), i);
            break;
        }
        CHECK(nd->table == s_t, "C18:node-table", "after %s: node %zu does not point back at its table", s_op, i);
    }
    /* table (key -> node) agrees with the list of nodes */
    bool seen[MAX_WALK + 1];
    memset(seen, 0, sizeof(seen));
    size_t hn = 0;
    for (struct aws_hash_iter it = aws_hash_iter_begin(&s_t->table); !aws_hash_iter_done(&it); aws_hash_iter_next(&it)) {
        if (++hn > MAX_WALK) {
            break;
        }
        size_t j;
        for (j = 0; j < nf; ++j) {
            if ((void *)fw[j] == it.element.value) {
                break;
            }
        }
        if (j == nf) {
            VIOL("C18:table-node-not-in-list", "after %s: a hash table element's node is not in the iteration list", s_op);
            break;
        }
        if (seen[j]) {
            VIOL("C18:table-node-twice", "after %s: list node %zu is the value of two hash table elements", s_op, j);
            break;
        }
        seen[j] = true;
        if (it.element.key != fw[j]->key) {
            struct kobj *ek = kobj_of(it.element.key);
            VIOL("C18:table-key-pointer",
                          "after %s: hash element for list node %zu (class %u) holds key object #%d%s, the node holds #%u", s_op, j,
                          s_m[j].cls, ek ? (int)ek->id : -1, ek && ek->destroyed ? " (already destroyed)" : "", s_m[j].k->id);
            break;
        }
    }
    CHECK(hn == nf, "C18:table-list-count", "after %s: hash table iteration yields %zu elements, list has %zu nodes", s_op, hn, nf);
}

/* ------------------------------------------------------------------ operations */
static struct kobj *pick_probe(struct mon_rng *r, uint32_t cls, bool *stored_ptr) {
    int mi = model_find(cls);
    *stored_ptr = false;
    if (mi >= 0 && mon_chance(r, 1, 2)) {
        *stored_ptr = true;
        return s_m[mi].k;
    }
    return s_probe[cls];
}

static int real_put(const void *k, void *v) {
    return s_kind == KIND_TABLE ? aws_linked_hash_table_put(s_t, k, v) : aws_cache_put(s_cache, k, v);
}
static int real_find(const void *k, void **out) {
    return s_kind == KIND_TABLE ? aws_linked_hash_table_find(s_t, k, out) : aws_cache_find(s_cache, k, out);
}
static int real_remove(const void *k) {
    return s_kind == KIND_TABLE ? aws_linked_hash_table_remove(s_t, k) : aws_cache_remove(s_cache, k);
}

static void op_put(struct mon_rng *r, uint32_t cls) {
    int mi = model_find(cls);
    bool same_ptr = mi >= 0 && mon_chance(r, 1, 3);
    struct kobj *k = same_ptr ? s_m[mi].k : new_kobj(cls, O_HELD);
    struct vobj *v = new_vobj();
    mon_fp(1 + (same_ptr ? 1u : 0u));
    mon_fp(cls);
    snprintf(s_op, sizeof(s_op), "put(c%u,%s k%u,v%u)", cls, same_ptr ? "stored" : "new", k->id, v->id);
    mon_sample(" %s", s_op);

    bool full = s_kind != KIND_TABLE && s_n == s_max;
    bool overflow = full && mi < 0;
    size_t victim_pos = 0;
    if (full) {
        victim_pos = s_kind == KIND_LIFO ? s_n - 1 : 0;
        if (mi >= 0) {
            mon_flag(F_FULL_REPUT_NO_EVICT);
            if ((size_t)mi == victim_pos) {
                mon_flag(F_OVERWRITE_VICTIM);
            }
        }
    }
    uint32_t victim_cls = overflow ? s_m[victim_pos].cls : 0;

    mon_poison_last_error(&mon_case_rng);
    int rc = real_put(k, v);
    if (rc != AWS_OP_SUCCESS) {
        VIOL("C18:put-failed", "%s returned %d (error %d)", s_op, rc, aws_last_error());
    }

    /* model */
    if (mi >= 0) {
        expect_val_destroyed(s_m[mi].v);
        if (s_m[mi].k != k) {
            expect_key_destroyed(s_m[mi].k);
            mon_flag(F_OVERWRITE_DISTINCT_KEY);
        } else {
            mon_flag(F_OVERWRITE_SAME_KEY);
        }
        model_erase((size_t)mi);
    } else if (s_removed_once[cls]) {
        mon_flag(F_REMOVE_REFILL);
    }
    s_m[s_n].cls = cls;
    s_m[s_n].k = k;
    s_m[s_n].v = v;
    ++s_n;

    if (overflow) {
        /* policy oracle first (own violation keys), then the model follows the policy */
        struct aws_linked_hash_table_node *fw[MAX_WALK + 1];
        size_t nf = walk_forward(fw, MAX_WALK);
        if (nf <= MAX_WALK) {
            bool victim_present = false, new_present = false;
            int other_missing = -1;
            for (size_t i = 0; i < nf; ++i) {
                struct kobj *rk = kobj_of(fw[i]->key);
                if (rk && rk->cls == victim_cls) {
                    victim_present = true;
                }
                if (rk && rk->cls == cls) {
                    new_present = true;
                }
            }
            for (size_t j = 0; j + 1 < s_n; ++j) {
                if (j == victim_pos) {
                    continue;
                }
                bool present = false;
                for (size_t i = 0; i < nf; ++i) {
                    struct kobj *rk = kobj_of(fw[i]->key);
                    present |= rk && rk->cls == s_m[j].cls;
                }
                if (!present) {
                    other_missing = (int)s_m[j].cls;
                }
            }
            if (nf > s_max) {
                VIOL(kindkey("over-capacity"), "after %s: cache holds %zu entries [%s], max_items %zu", s_op, nf,
                              describe_real(fw, nf), s_max);
            }
            if (!new_present) {
                VIOL(kindkey("just-inserted-evicted"), "after %s on a full cache (max_items %zu): the new entry is not in the cache [%s]",
                              s_op, s_max, describe_real(fw, nf));
            } else if (other_missing >= 0) {
                VIOL(kindkey("wrong-victim"),
                              "after %s on a full cache (max_items %zu): policy victim is class %u, but class %d disappeared; cache now [%s]",
                              s_op, s_max, victim_cls, other_missing, describe_real(fw, nf));
            } else if (victim_present && nf <= s_max) {
                VIOL(kindkey("wrong-victim"), "after %s on a full cache: policy victim class %u is still present; cache now [%s]",
                              s_op, victim_cls, describe_real(fw, nf));
            }
        }
        model_drop(victim_pos);
        mon_flag(s_kind == KIND_FIFO ? F_EVICT_FIFO : s_kind == KIND_LIFO ? F_EVICT_LIFO : F_EVICT_LRU);
        if (s_max == 1) {
            mon_flag(F_CAP1_EVICT);
        }
        mon_count("evictions", 1);
    } else if (s_kind != KIND_TABLE) {
        /* no overflow: the policy must not evict anything */
        struct aws_linked_hash_table_node *fw[MAX_WALK + 1];
        size_t nf = walk_forward(fw, MAX_WALK);
        if (nf < s_n) {
            VIOL(kindkey("evicted-without-overflow"),
                 "after %s: cache holds %zu entries [%s] although only %zu of max_items %zu were due [%s]", s_op, nf,
                 describe_real(fw, nf), s_n, s_max, describe_model());
        }
    }
    mon_count("puts", 1);
}

/* the entry just inserted must be retrievable (runs as its own step so that its destructor accounting is separate) */
static void op_find_just_inserted(void) {
    if (!s_n) {
        return;
    }
    struct ment *e = &s_m[s_n - 1];
    snprintf(s_op, sizeof(s_op), "find-after-put(c%u)", e->cls);
    void *out = (void *)&s_op;
    int rc = real_find(s_probe[e->cls], &out);
    if (rc != AWS_OP_SUCCESS || out != (void *)e->v) {
        struct vobj *gv = vobj_of(out);
        VIOL(s_kind == KIND_TABLE ? "C18:just-inserted-not-found" : kindkey("just-inserted-not-found"),
                      "%s: rc %d, returned %s value #%d, expected value #%u", s_op, rc, out ? (gv ? "known" : "unknown") : "NULL",
                      gv ? (int)gv->id : -1, e->v->id);
    }
    /* LRU: the entry is already the most recently used one, the lookup does not change the order */
}

static void op_find(struct mon_rng *r, uint32_t cls, bool move_to_back) {
    bool stored;
    struct kobj *probe = pick_probe(r, cls, &stored);
    int mi = model_find(cls);
    mon_fp(10 + (move_to_back ? 1u : 0u) + (stored ? 2u : 0u));
    mon_fp(cls);
    snprintf(s_op, sizeof(s_op), "%s(c%u,%s)", move_to_back ? "find_and_move_to_back" : "find", cls, stored ? "stored-ptr" : "probe");
    mon_sample(" %s", s_op);
    void *out = (void *)&s_op; /* neither NULL nor a value */
    mon_poison_last_error(&mon_case_rng);
    int rc = move_to_back ? aws_linked_hash_table_find_and_move_to_back(s_t, probe, &out) : real_find(probe, &out);
    void *expect = mi >= 0 ? (void *)s_m[mi].v : NULL;
    if (rc != AWS_OP_SUCCESS) {
        VIOL("C18:find-failed", "%s returned %d (error %d)", s_op, rc, aws_last_error());
    } else if (out != expect) {
        struct vobj *gv = vobj_of(out);
        VIOL(mi >= 0 ? "C18:find-wrong-value" : "C18:find-absent-not-null", "%s: returned %s value #%d, reference %s #%d", s_op,
                      out ? (gv ? "known" : "unknown pointer") : "NULL", gv ? (int)gv->id : -1, mi >= 0 ? "value" : "absent",
                      mi >= 0 ? (int)s_m[mi].v->id : -1);
    }
    if (mi < 0) {
        mon_flag(F_FIND_ABSENT);
    } else if (move_to_back || s_kind == KIND_LRU) {
        if ((size_t)mi != s_n - 1) {
            mon_flag(s_kind == KIND_LRU ? F_LRU_FIND_REORDER : F_MOVE_TO_BACK);
        }
        model_to_back((size_t)mi);
    }
    mon_count("finds", 1);
}

static void op_remove(struct mon_rng *r, uint32_t cls) {
    bool stored;
    struct kobj *probe = pick_probe(r, cls, &stored);
    int mi = model_find(cls);
    mon_fp(20 + (stored ? 1u : 0u));
    mon_fp(cls);
    snprintf(s_op, sizeof(s_op), "remove(c%u,%s)%s", cls, stored ? "stored-ptr" : "probe", mi >= 0 ? "" : "[absent]");
    mon_sample(" %s", s_op);
    mon_poison_last_error(&mon_case_rng);
    int rc = real_remove(probe);
    CHECK(rc == AWS_OP_SUCCESS, "C18:remove-failed", "%s returned %d (error %d)", s_op, rc, aws_last_error());
    if (mi >= 0) {
        model_drop((size_t)mi);
        s_removed_once[cls] = true;
        mon_flag(F_REMOVE_PRESENT);
        if (stored) {
            mon_flag(F_REMOVE_BY_STORED_PTR);
        }
    } else {
        mon_flag(F_REMOVE_ABSENT);
    }
    mon_count("removes", 1);
}

static void op_clear(void) {
    mon_fp(30);
    snprintf(s_op, sizeof(s_op), "clear[%zu entries]", s_n);
    mon_sample(" %s", s_op);
    if (s_n) {
        mon_flag(F_CLEAR_NONEMPTY);
    }
    if (s_kind == KIND_TABLE) {
        aws_linked_hash_table_clear(s_t);
    } else {
        aws_cache_clear(s_cache);
    }
    for (size_t i = 0; i < s_n; ++i) {
        s_removed_once[s_m[i].cls] = true;
    }
    while (s_n) {
        model_drop(s_n - 1);
    }
}

static void op_move_node(struct mon_rng *r) {
    mon_fp(40);
    if (!s_n) {
        snprintf(s_op, sizeof(s_op), "count");
        return;
    }
    size_t pos = (size_t)mon_below(r, s_n);
    mon_fp(pos);
    snprintf(s_op, sizeof(s_op), "move_node_to_end_of_list(pos %zu of %zu)", pos, s_n);
    mon_sample(" %s", s_op);
    struct aws_linked_hash_table_node *fw[MAX_WALK + 1];
    size_t nf = walk_forward(fw, MAX_WALK);
    if (nf != s_n) {
        return; /* check_all reports */
    }
    aws_linked_hash_table_move_node_to_end_of_list(s_t, fw[pos]);
    if (pos != s_n - 1) {
        mon_flag(F_MOVE_TO_BACK);
    }
    model_to_back(pos);
}

static void op_use_lru(void) {
    mon_fp(50);
    snprintf(s_op, sizeof(s_op), "use_lru_element[%zu entries]", s_n);
    mon_sample(" %s", s_op);
    void *out = aws_lru_cache_use_lru_element(s_cache);
    void *expect = s_n ? (void *)s_m[0].v : NULL;
    if (out != expect) {
        struct vobj *gv = vobj_of(out);
        VIOL("C18:lru:use-lru-element-value", "%s returned %s value #%d, reference: %s #%d", s_op,
                      out ? (gv ? "known" : "unknown pointer") : "NULL", gv ? (int)gv->id : -1, s_n ? "least recently used value" : "empty",
                      s_n ? (int)s_m[0].v->id : -1);
    }
    if (s_n) {
        if (s_n > 1) {
            mon_flag(F_USE_LRU);
        }
        model_to_back(0);
    } else {
        mon_flag(F_LRU_EMPTY_ACCESS);
    }
}

static void op_get_mru(void) {
    mon_fp(51);
    snprintf(s_op, sizeof(s_op), "get_mru_element[%zu entries]", s_n);
    mon_sample(" %s", s_op);
    void *out = aws_lru_cache_get_mru_element(s_cache);
    void *expect = s_n ? (void *)s_m[s_n - 1].v : NULL;
    if (out != expect) {
        struct vobj *gv = vobj_of(out);
        VIOL("C18:lru:get-mru-element-value", "%s returned %s value #%d, reference: %s #%d", s_op,
                      out ? (gv ? "known" : "unknown pointer") : "NULL", gv ? (int)gv->id : -1, s_n ? "most recently used value" : "empty",
                      s_n ? (int)s_m[s_n - 1].v->id : -1);
    }
    if (s_n > 1) {
        mon_flag(F_GET_MRU);
    } else if (!s_n) {
        mon_flag(F_LRU_EMPTY_ACCESS);
    }
}

/* ------------------------------------------------------------------ one case */
static int parse_kind(struct mon_rng *r) {
    const char *m = mon_run.mode ? mon_run.mode : "";
    for (int i = 0; i < KIND__N; ++i) {
        if (!strcmp(m, s_kind_names[i])) {
            (void)mon_below(r, KIND__N);
            return i;
        }
    }
    return (int)mon_below(r, KIND__N);
}

static void run_case(void) {
    struct mon_rng *r = &mon_case_rng;
    s_kind = parse_kind(r);
    s_has_kd = mon_chance(r, 3, 4);
    s_has_vd = mon_chance(r, 3, 4);
    s_ncls = 1 + (size_t)mon_below(r, MAX_CLS);
    s_max = 1 + (size_t)mon_below(r, 8);
    s_hmode = (unsigned)mon_below(r, 4);
    size_t init_items = (size_t)mon_below(r, 17);
    bool full_alloc = mon_chance(r, 1, 2);
    struct aws_allocator *alloc = full_alloc ? mon_guard_allocator_full() : mon_guard_allocator();
    size_t nops = 10 + (size_t)mon_below(r, MAX_OPS - 10 + 1);
    mon_fp((uint64_t)s_kind);
    mon_fp((uint64_t)s_has_kd * 2 + s_has_vd);
    mon_fp(s_ncls);
    mon_fp(s_max);
    mon_fp(s_hmode);
    mon_fp(init_items);

    s_nk = s_nv = 0;
    s_n = 0;
    s_case_viol = 0;
    memset(s_removed_once, 0, sizeof(s_removed_once));
    for (uint32_t c = 0; c < s_ncls; ++c) {
        s_probe[c] = new_kobj(c, O_PROBE);
    }
    op_begin();
    snprintf(s_op, sizeof(s_op), "init");

    struct mon_alloc_stats st0;
    mon_guard_stats(&st0);
    aws_hash_callback_destroy_fn *kd = s_has_kd ? s_key_dtor : NULL, *vd = s_has_vd ? s_val_dtor : NULL;
    s_cache = NULL;
    switch (s_kind) {
        case KIND_TABLE:
            if (aws_linked_hash_table_init(&s_tbl, alloc, s_hash, s_eq, kd, vd, init_items)) {
                VIOL("C18:init-failed", "aws_linked_hash_table_init(initial_item_count=%zu) failed: error %d", init_items,
                              aws_last_error());
                return;
            }
            s_t = &s_tbl;
            break;
        case KIND_FIFO:
            s_cache = aws_cache_new_fifo(alloc, s_hash, s_eq, kd, vd, s_max);
            break;
        case KIND_LIFO:
            s_cache = aws_cache_new_lifo(alloc, s_hash, s_eq, kd, vd, s_max);
            break;
        default:
            s_cache = aws_cache_new_lru(alloc, s_hash, s_eq, kd, vd, s_max);
            break;
    }
    if (s_kind != KIND_TABLE) {
        if (!s_cache) {
            VIOL("C18:init-failed", "aws_cache_new_%s(max_items=%zu) returned NULL", s_kind_names[s_kind], s_max);
            return;
        }
        s_t = &s_cache->table;
    }
    if (!s_has_kd) {
        mon_flag(F_NO_KEY_DTOR);
    }
    if (!s_has_vd) {
        mon_flag(F_NO_VALUE_DTOR);
    }
    mon_sample("%s key_dtor=%d value_dtor=%d classes=%zu max_items=%zu hash_mode=%u init_items=%zu alloc=%s:", s_kind_names[s_kind],
               s_has_kd, s_has_vd, s_ncls, s_max, s_hmode, init_items, full_alloc ? "full" : "basic");
    check_all();

    bool broken = false;
    size_t max_entries = 0;
    for (size_t op = 0; op < nops; ++op) {
        if (mon_chance(r, 1, 3)) {
            mon_poison_last_error(r);
        }
        unsigned phase = (unsigned)((op * 4) / nops);
        unsigned put_w = (phase == 0 || phase == 2) ? 55 : 35;
        unsigned pick = (unsigned)mon_below(r, 100);
        uint32_t cls = (uint32_t)mon_below(r, s_ncls);
        size_t size_before = s_t->table.p_impl ? s_t->table.p_impl->size : 0;
        bool was_put = false;
        op_begin();
        if (pick < put_w) {
            op_put(r, cls);
            was_put = true;
        } else if (pick < put_w + 17) {
            op_find(r, cls, s_kind == KIND_TABLE && mon_chance(r, 1, 2));
        } else if (pick < put_w + 29) {
            op_remove(r, cls);
        } else if (pick < put_w + 31) {
            op_clear();
        } else if (pick < put_w + 41) {
            if (s_kind == KIND_LRU) {
                if (mon_chance(r, 1, 2)) {
                    op_use_lru();
                } else {
                    op_get_mru();
                }
            } else if (s_kind == KIND_TABLE) {
                op_move_node(r);
            } else {
                op_find(r, cls, false);
            }
        } else {
            mon_fp(60);
            snprintf(s_op, sizeof(s_op), "get_element_count");
        }
        if (s_t->table.p_impl && s_t->table.p_impl->size != size_before) {
            mon_flag(F_RESIZED);
        }
        if (s_hmode == 0 && s_n >= 3) {
            mon_flag(F_ALL_COLLIDE);
        }
        /* a policy alarm already names the failure; the generic comparisons would only repeat it under other keys */
        if (!s_case_viol) {
            verify_destructors();
            check_all();
        }
        if (was_put && !s_case_viol) {
            op_begin();
            op_find_just_inserted();
            verify_destructors();
            check_all();
        }
        if (s_n > max_entries) {
            max_entries = s_n;
        }
        if (s_case_viol) {
            broken = true; /* the model may be out of step now: stop this history */
            break;
        }
    }
    mon_count("ops", nops);
    mon_count_max("max_entries", max_entries);

    /* clean_up / destroy: everything still stored is destroyed exactly once */
    op_begin();
    snprintf(s_op, sizeof(s_op), "%s[%zu entries]", s_kind == KIND_TABLE ? "clean_up" : "cache_destroy", s_n);
    mon_sample(" %s", s_op);
    if (s_n) {
        mon_flag(F_CLEANUP_NONEMPTY);
    }
    if (s_kind == KIND_TABLE) {
        aws_linked_hash_table_clean_up(s_t);
    } else {
        aws_cache_destroy(s_cache);
        s_cache = NULL;
    }
    while (s_n) {
        model_drop(s_n - 1);
    }
    if (broken) {
        return;
    }
    verify_destructors();
    /* whole-history accounting per object */
    for (size_t i = 0; i < s_nk; ++i) {
        unsigned want = (s_has_kd && s_k[i].state == O_GONE) ? 1u : 0u;
        if (s_k[i].destroyed != want) {
            VIOL("C18:final-key-destructor-count", "end of case: key object #%u (class %u, %s) destroyed %u times, expected %u",
                          s_k[i].id, s_k[i].cls, s_k[i].state == O_PROBE ? "probe" : "stored", s_k[i].destroyed, want);
            break;
        }
    }
    for (size_t i = 0; i < s_nv; ++i) {
        unsigned want = s_has_vd ? 1u : 0u;
        if (s_v[i].destroyed != want) {
            VIOL("C18:final-value-destructor-count", "end of case: value object #%u destroyed %u times, expected %u", s_v[i].id,
                          s_v[i].destroyed, want);
            break;
        }
    }
    struct mon_alloc_stats st1;
    mon_guard_stats(&st1);
    CHECK(st1.live_blocks == st0.live_blocks, "C18:leak", "allocator imbalance after %s: %lld live blocks (%lld bytes)", s_op,
              (long long)(st1.live_blocks - st0.live_blocks), (long long)(st1.live_bytes - st0.live_bytes));
    CHECK(st1.redzone_errors == st0.redzone_errors, "C18:redzone", "red zone of a library allocation damaged during the case");
}

int main(int argc, char **argv) {
    mon_init(argc, argv, "C18");
    aws_common_library_init(aws_default_allocator());
    for (int i = 0; i < F__N; ++i) {
        mon_flag_name(i, s_flag_names[i]);
    }
    uint64_t c;
    while (mon_next_case(&c)) {
        mon_case_begin(c);
        run_case();
        mon_case_end(mon_flag_count() >= 4);
    }
    return mon_finish();
}
