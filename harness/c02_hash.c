/*
 * C02 - hash table behaves as a map under any operation history (DESIGN.md section 5, C02).
 *
 * Reference map (class -> key object, value object) for two tables, exact destructor accounting
 * (per key/value object), slot-level invariants read through private/hash_table_impl.h, all checked
 * after EVERY operation (also after every single delete inside an iterator walk / foreach).
 * Hash functions are table-driven and hostile (family CUSTOM) or the library's own hash/equality
 * pairs with equal-but-distinct key objects (families STRING .. U64).
 *
 * Notes on documented behaviour encoded in the model (no alarm beyond the header):
 *  - put over an existing key destroys the old value, and the old key only if its POINTER differs from the new one.
 *  - remove with an out-parameter, remove_element, foreach+DELETE, iter_delete(false), swap, move: no destructor.
 *  - destructors are invoked for NULL keys / NULL values as well (the callbacks see NULL); this is counted, not judged.
 *  - aws_hash_table_move: the header's second sentence has from/to mixed up; the model follows the first sentence
 *    ("moves the table in 'from' to 'to'", 'from' ends up as after clean_up).
 *  - the exact resize policy (0.95) is not documented: the model only demands size = power of two >= 2, size changes
 *    only inside an inserting put/create and only upwards, entry_count <= max_load < size.
 *  - Robin-Hood order is checked as D(i+1) <= D(i)+1 with D = displacement of an occupied slot and -1 for an empty
 *    one (going forward the displacement never RISES by more than one; this also yields "reachable from the home
 *    slot without crossing an empty slot"). DESIGN's wording ("never drops") has the direction reversed.
 */
#include "mon.h"

#include <aws/common/byte_buf.h>
#include <aws/common/common.h>
#include <aws/common/error.h>
#include <aws/common/hash_table.h>
#include <aws/common/private/hash_table_impl.h>
#include <aws/common/string.h>

#include <stdlib.h>

#define MAX_CLS 64
#define MAX_KOBJ 2048
#define MAX_VOBJ 4096
#define MAX_SLOTS 1024
#define KEYMAX 28
#define OBJ_PER_CLS 8

enum { FAM_CUSTOM, FAM_STRING, FAM_CSTR, FAM_CURSOR, FAM_CURSOR_IC, FAM_PTR, FAM_U64, FAM__N };
static const char *const s_fam_names[] = {"custom", "aws_string", "c_string", "byte_cursor", "byte_cursor_ignore_case",
                                          "ptr", "uint64_by_identity"};
enum { K_FREE, K_IN, K_DEAD };

enum {
    F_RESIZE,
    F_WRAP_SHIFT,
    F_ITER_LIMIT_DEC,
    F_ITER_SLOT0,
    F_DISP4,
    F_HASH0,
    F_NULLKEY,
    F_WRAP_PROBE,
    F_DISPLACED,
    F_OVERWRITE_DIFFKEY,
    F_OVERWRITE_SAMEKEY,
    F_EARLY_TERM,
    F_ITER_DELETE,
    F_FOREACH_DELETE,
    F_FOREACH_STOP,
    F_FOREACH_ERROR,
    F_EQ_TRUE,
    F_SWAP,
    F_MOVE,
    F_REINIT,
    F_CLEAR_NONEMPTY,
    F_KEY_DESTROYED,
    F_LIB_PAIR,
    F_SHIFT_LONG,
    F_HASH_COLLISION_64,
    F__N
};
/* the flags DESIGN names for the non-triviality rule */
#define STRUCT_FLAGS                                                                                                   \
    ((1u << F_RESIZE) | (1u << F_WRAP_SHIFT) | (1u << F_ITER_LIMIT_DEC) | (1u << F_ITER_SLOT0) | (1u << F_DISP4) |     \
     (1u << F_HASH0) | (1u << F_NULLKEY))

struct kobj {
    union {
        uint64_t u64;
        struct aws_byte_cursor cur;
        char cstr[KEYMAX + 4];
        struct {
            struct aws_allocator *allocator;
            size_t len;
            uint8_t bytes[KEYMAX + 4];
        } str; /* same layout trick as AWS_STATIC_STRING_FROM_LITERAL */
    } p;       /* offset 0: the key pointer handed to the library is the kobj itself (except PTR family / NULL) */
    uint8_t bytes[KEYMAX + 4];
    uint64_t ptrval;
    uint16_t cls;
    uint8_t state;
    int8_t table;
    bool immortal; /* NULL key and integer-encoded PTR keys are not "freed" by a destructor */
    uint8_t koff;  /* 0..3: where the key bytes start inside bytes[] / p.cstr, so that equal keys live at every
                    * address alignment (lookup3 has separate code paths for 4-, 2- and 1-byte aligned keys) */
    uint32_t dcount, exp;
};

struct vobj {
    uint32_t dcount, exp;
    uint32_t tag;
};

struct cls {
    unsigned nobj;
    uint16_t obj[OBJ_PER_CLS];
    size_t len;
    uint8_t base[KEYMAX + 4];
    uint64_t u64;
};

struct tmodel {
    bool inited;
    bool kd, vd;
    int hsel;
    aws_hash_fn *hash_fn;
    struct aws_allocator *alloc;
    size_t n;
    struct {
        bool present;
        struct kobj *key;
        void *value;
    } ent[MAX_CLS];
};

struct snap {
    struct hash_table_state *p;
    uint8_t hdr[sizeof(struct hash_table_state)];
    size_t size;
    struct hash_table_entry slots[MAX_SLOTS];
};

static struct kobj s_k[MAX_KOBJ];
static size_t s_nk;
static struct kobj s_nullk;
static struct vobj s_v[MAX_VOBJ];
static size_t s_nv;
static struct cls s_cls[MAX_CLS];
static unsigned s_ncls;
static int s_nullcls;
static int s_fam;
static int s_hkind[2];
static uint64_t s_htab[2][MAX_CLS];
static struct tmodel s_m[2];
static struct aws_hash_table s_t[2];
static struct snap s_snap[2];
static struct mon_rng s_chk_rng;
static bool s_bad; /* a violation was reported in this case: stop the case, abandon the tables */
static uint32_t s_flags;
static uint64_t s_knull_d, s_knull_exp, s_vnull_d, s_vnull_exp;

/* destructor log of the running operation */
#define DLOG 512
static struct kobj *s_dlog_k[DLOG];
static struct vobj *s_dlog_v[DLOG];
static size_t s_ndk, s_ndv, s_dlog_over;
static struct kobj *s_touch_k[DLOG];
static struct vobj *s_touch_v[DLOG];
static size_t s_ntk, s_ntv;

/* textual history of the case (tail is attached to every violation) */
#define HIST_CAP 6000
static char s_hist[HIST_CAP];
static size_t s_hist_len;
static char s_cfg[600];
static char s_op[160];

static void hist_add(const char *s) {
    size_t n = strlen(s);
    if (s_hist_len + n + 2 >= HIST_CAP) {
        size_t drop = HIST_CAP / 2;
        memmove(s_hist, s_hist + drop, s_hist_len - drop);
        s_hist_len -= drop;
    }
    memcpy(s_hist + s_hist_len, s, n);
    s_hist_len += n;
    s_hist[s_hist_len++] = ';';
    s_hist[s_hist_len] = 0;
}

static void viol(const char *key, const char *fmt, ...) __attribute__((format(printf, 2, 3)));
static void viol(const char *key, const char *fmt, ...) {
    char msg[900];
    va_list ap;
    va_start(ap, fmt);
    vsnprintf(msg, sizeof(msg), fmt, ap);
    va_end(ap);
    const char *tail = s_hist_len > 1800 ? s_hist + (s_hist_len - 1800) : s_hist;
    mon_violation(key, "%s | during/after: %s | config: %s | history tail: %s", msg, s_op, s_cfg, tail);
    s_bad = true;
}

static void flag(int f) {
    mon_flag(f);
    s_flags |= 1u << f;
}

#define OP(...)                                                                                                        \
    do {                                                                                                               \
        snprintf(s_op, sizeof(s_op), __VA_ARGS__);                                                                     \
        hist_add(s_op);                                                                                                \
        mon_sample(" %s", s_op);                                                                                       \
    } while (0)

/* ------------------------------------------------------------------ key / value objects */
static const void *key_ptr(const struct kobj *k) {
    if (k == &s_nullk) {
        return NULL;
    }
    if (s_fam == FAM_PTR) {
        return (const void *)(uintptr_t)k->ptrval;
    }
    if (s_fam == FAM_CSTR) {
        return (const char *)k + k->koff; /* p.cstr is at offset 0 */
    }
    return k;
}

/* maps a pointer handed out by the library back to the key object; NULL if it is not one of ours */
static struct kobj *kobj_from_key(const void *key) {
    if (key == NULL) {
        return &s_nullk;
    }
    if (s_fam == FAM_PTR) {
        uint64_t v = (uint64_t)(uintptr_t)key;
        size_t idx = (size_t)(v & 0xFFF);
        if (idx == 0 || idx > s_nk || s_k[idx - 1].ptrval != v) {
            return NULL;
        }
        return &s_k[idx - 1];
    }
    uintptr_t a = (uintptr_t)key, lo = (uintptr_t)&s_k[0];
    if (a < lo || a >= lo + s_nk * sizeof(struct kobj) ||
        (a - lo) % sizeof(struct kobj) != (s_fam == FAM_CSTR ? s_k[(a - lo) / sizeof(struct kobj)].koff : 0)) {
        return NULL;
    }
    return &s_k[(a - lo) / sizeof(struct kobj)];
}

static struct vobj *vobj_from_ptr(const void *p) {
    uintptr_t a = (uintptr_t)p, lo = (uintptr_t)&s_v[0];
    if (a < lo || a >= lo + s_nv * sizeof(struct vobj) || (a - lo) % sizeof(struct vobj)) {
        return NULL;
    }
    return (struct vobj *)p;
}

static uint64_t hash_custom(int sel, const void *key) {
    struct kobj *k = kobj_from_key(key);
    if (!k || k == &s_nullk) {
        viol("C02:callback-foreign-pointer", "hash_fn called with %s", key ? "a pointer that is no key object" : "NULL");
        return 7;
    }
    return s_htab[sel][k->cls];
}
static uint64_t hash_a(const void *key) {
    return hash_custom(0, key);
}
static uint64_t hash_b(const void *key) {
    return hash_custom(1, key);
}
static bool eq_custom(const void *a, const void *b) {
    struct kobj *ka = kobj_from_key(a), *kb = kobj_from_key(b);
    if (!ka || !kb || ka == &s_nullk || kb == &s_nullk) {
        viol("C02:callback-foreign-pointer", "equals_fn called with NULL or a pointer that is no key object");
        return false;
    }
    return ka->cls == kb->cls;
}
static bool eq_cursor(const void *a, const void *b) {
    return aws_byte_cursor_eq(a, b);
}
static bool eq_cursor_ic(const void *a, const void *b) {
    return aws_byte_cursor_eq_ignore_case(a, b);
}
static bool val_eq(const void *a, const void *b) {
    const struct vobj *va = vobj_from_ptr(a), *vb = vobj_from_ptr(b);
    if (!va || !vb) {
        viol("C02:callback-foreign-pointer", "value_eq called with NULL or a pointer that is no value object");
        return false;
    }
    return va->tag == vb->tag;
}

static aws_hash_fn *fam_hash(int sel) {
    switch (s_fam) {
        case FAM_STRING:
            return aws_hash_string;
        case FAM_CSTR:
            return aws_hash_c_string;
        case FAM_CURSOR:
            return aws_hash_byte_cursor_ptr;
        case FAM_CURSOR_IC:
            return aws_hash_byte_cursor_ptr_ignore_case;
        case FAM_PTR:
            return aws_hash_ptr;
        case FAM_U64:
            return aws_hash_uint64_t_by_identity;
        default:
            return sel ? hash_b : hash_a;
    }
}
static aws_hash_callback_eq_fn *fam_eq(void) {
    switch (s_fam) {
        case FAM_STRING:
            return aws_hash_callback_string_eq;
        case FAM_CSTR:
            return aws_hash_callback_c_str_eq;
        case FAM_CURSOR:
            return eq_cursor;
        case FAM_CURSOR_IC:
            return eq_cursor_ic;
        case FAM_PTR:
            return aws_ptr_eq;
        case FAM_U64:
            return aws_hash_compare_uint64_t_eq;
        default:
            return eq_custom;
    }
}

static void on_destroy_key(void *p) {
    if (p == NULL) {
        ++s_knull_d;
        ++s_nullk.dcount;
        if (s_ndk < DLOG) {
            s_dlog_k[s_ndk++] = &s_nullk;
        } else {
            ++s_dlog_over;
        }
        return;
    }
    struct kobj *k = kobj_from_key(p);
    if (!k) {
        viol("C02:destructor-foreign-pointer", "key destructor called with a pointer that was never a key");
        return;
    }
    ++k->dcount;
    if (s_ndk < DLOG) {
        s_dlog_k[s_ndk++] = k;
    } else {
        ++s_dlog_over;
    }
}
static void on_destroy_val(void *p) {
    if (p == NULL) {
        ++s_vnull_d;
        return;
    }
    struct vobj *v = vobj_from_ptr(p);
    if (!v) {
        viol("C02:destructor-foreign-pointer", "value destructor called with a pointer that was never a value");
        return;
    }
    ++v->dcount;
    if (s_ndv < DLOG) {
        s_dlog_v[s_ndv++] = v;
    } else {
        ++s_dlog_over;
    }
}

static void expect_kill_key(struct kobj *k) {
    ++k->exp;
    if (k == &s_nullk) {
        ++s_knull_exp;
    }
    k->state = k->immortal ? K_FREE : K_DEAD;
    k->table = -1;
    if (s_ntk < DLOG) {
        s_touch_k[s_ntk++] = k;
    }
    if (!k->immortal) {
        struct cls *c = &s_cls[k->cls];
        for (unsigned i = 0; i < c->nobj; ++i) {
            if (&s_k[c->obj[i]] == k) {
                c->obj[i] = c->obj[--c->nobj];
                break;
            }
        }
    }
    flag(F_KEY_DESTROYED);
}
static void expect_kill_val(void *value) {
    if (value == NULL) {
        ++s_vnull_exp;
        return;
    }
    struct vobj *v = value;
    ++v->exp;
    if (s_ntv < DLOG) {
        s_touch_v[s_ntv++] = v;
    }
}
/* key leaves a table; destroyed iff destroy && the table has a key destructor */
static void release_key(struct tmodel *m, struct kobj *k, bool destroy) {
    if (destroy && m->kd) {
        expect_kill_key(k);
    } else {
        k->state = K_FREE;
        k->table = -1;
    }
}
static void release_val(struct tmodel *m, void *v, bool destroy) {
    if (destroy && m->vd) {
        expect_kill_val(v);
    }
}

/* exact comparison of what was destroyed in this operation with what the model expects */
static void check_destr(void) {
    if (s_dlog_over) {
        viol("C02:destructor-unexpected", "more than %d destructor calls in one operation", DLOG);
    }
    for (int pass = 0; pass < 2; ++pass) {
        size_t n = pass ? s_ntk : s_ndk;
        struct kobj **arr = pass ? s_touch_k : s_dlog_k;
        for (size_t i = 0; i < n && !s_bad; ++i) {
            struct kobj *k = arr[i];
            if (k->dcount > k->exp) {
                viol("C02:destructor-unexpected",
                     "key destructor ran %u time(s) for key object #%d of class %u, expected %u (retained, returned to the "
                     "caller, or destroyed twice)",
                     k->dcount, k == &s_nullk ? -1 : (int)(k - s_k), k->cls, k->exp);
            } else if (k->dcount < k->exp) {
                viol("C02:destructor-missing", "key destructor ran %u time(s) for key object #%d of class %u, expected %u",
                     k->dcount, k == &s_nullk ? -1 : (int)(k - s_k), k->cls, k->exp);
            }
        }
        n = pass ? s_ntv : s_ndv;
        struct vobj **varr = pass ? s_touch_v : s_dlog_v;
        for (size_t i = 0; i < n && !s_bad; ++i) {
            struct vobj *v = varr[i];
            if (v->dcount > v->exp) {
                viol("C02:destructor-unexpected", "value destructor ran %u time(s) for value object #%d, expected %u",
                     v->dcount, (int)(v - s_v), v->exp);
            } else if (v->dcount < v->exp) {
                viol("C02:destructor-missing", "value destructor ran %u time(s) for value object #%d, expected %u",
                     v->dcount, (int)(v - s_v), v->exp);
            }
        }
    }
    if (!s_bad && s_vnull_d != s_vnull_exp) {
        viol(s_vnull_d > s_vnull_exp ? "C02:destructor-unexpected" : "C02:destructor-missing",
             "value destructor ran %llu time(s) on NULL values, expected %llu", (unsigned long long)s_vnull_d,
             (unsigned long long)s_vnull_exp);
    }
    if (!s_bad && s_knull_d != s_knull_exp) {
        viol(s_knull_d > s_knull_exp ? "C02:destructor-unexpected" : "C02:destructor-missing",
             "key destructor ran %llu time(s) on the NULL key, expected %llu", (unsigned long long)s_knull_d,
             (unsigned long long)s_knull_exp);
    }
    s_ndk = s_ndv = s_ntk = s_ntv = s_dlog_over = 0;
}

static struct vobj *new_vobj(struct mon_rng *r) {
    if (s_nv >= MAX_VOBJ) {
        return NULL;
    }
    struct vobj *v = &s_v[s_nv++];
    v->dcount = v->exp = 0;
    v->tag = (uint32_t)mon_below(r, 3);
    return v;
}

static uint64_t expected_hash_code(const struct tmodel *m, const struct kobj *k) {
    if (k == &s_nullk) {
        return 42; /* documented in the source as the NULL key's hash; only used for consistency of the slot */
    }
    uint64_t h = m->hash_fn(key_ptr(k));
    return h ? h : 1;
}

/* builds a new key object of class c (equal to, but distinct from, the other objects of the class) */
static struct kobj *new_kobj(unsigned c, struct mon_rng *r) {
    struct cls *cl = &s_cls[c];
    if ((int)c == s_nullcls) {
        return &s_nullk;
    }
    if (s_nk >= MAX_KOBJ || cl->nobj >= OBJ_PER_CLS || (s_fam == FAM_PTR && cl->nobj >= 1)) {
        return NULL;
    }
    struct kobj *k = &s_k[s_nk++];
    memset(k, 0, sizeof(*k));
    k->cls = (uint16_t)c;
    k->state = K_FREE;
    k->table = -1;
    memcpy(k->bytes, cl->base, cl->len);
    switch (s_fam) {
        case FAM_CURSOR_IC:
            for (size_t i = 0; i < cl->len; ++i) {
                uint8_t b = k->bytes[i];
                if (((b >= 'a' && b <= 'z') || (b >= 'A' && b <= 'Z')) && mon_chance(r, 1, 2)) {
                    k->bytes[i] = b ^ 0x20;
                }
            }
            /* fall through */
        case FAM_CURSOR:
            k->koff = (uint8_t)mon_below(r, 4);
            memmove(k->bytes + k->koff, k->bytes, cl->len);
            /* a cursor key is a view: what is stored right behind (and in front of) it is arbitrary and must not matter */
            for (size_t g = 0; g < 8 && k->koff + cl->len + g < sizeof(k->bytes); ++g) {
                k->bytes[k->koff + cl->len + g] = (uint8_t)mon_rand(r);
            }
            for (size_t g = 0; g < k->koff; ++g) {
                k->bytes[g] = (uint8_t)mon_rand(r);
            }
            k->p.cur.len = cl->len;
            k->p.cur.ptr = (cl->len == 0 && mon_chance(r, 1, 2)) ? NULL : k->bytes + k->koff;
            break;
        case FAM_STRING:
            k->p.str.allocator = NULL;
            k->p.str.len = cl->len;
            memcpy(k->p.str.bytes, cl->base, cl->len);
            k->p.str.bytes[cl->len] = 0;
            break;
        case FAM_CSTR:
            k->koff = (uint8_t)mon_below(r, 4);
            memcpy(k->p.cstr + k->koff, cl->base, cl->len);
            k->p.cstr[k->koff + cl->len] = 0;
            break;
        case FAM_U64:
            k->p.u64 = cl->u64;
            break;
        case FAM_PTR:
            k->ptrval = (cl->u64 << 12) | (uint64_t)(s_nk); /* index+1 in the low bits: reverse mapping */
            k->immortal = true;
            break;
        default:
            k->p.u64 = 0xC0DEC0DEu;
            break;
    }
    /* equal keys must be equal and hash equally; keys of different classes must differ (library pairs only) */
    if (s_fam != FAM_CUSTOM && s_fam != FAM_PTR) {
        aws_hash_fn *hf = fam_hash(0);
        aws_hash_callback_eq_fn *ef = fam_eq();
        if (cl->nobj > 0) {
            struct kobj *o = &s_k[cl->obj[mon_below(r, cl->nobj)]];
            if (!ef(key_ptr(k), key_ptr(o)) || !ef(key_ptr(o), key_ptr(k)) || !ef(key_ptr(k), key_ptr(k))) {
                viol("C02:lib-equal-keys-not-equal", "family %s: two objects of one class compare unequal: %s / %s",
                     s_fam_names[s_fam], mon_hex(k->bytes + (s_fam == FAM_CSTR ? 0 : k->koff), cl->len, 32), mon_hex(o->bytes + (s_fam == FAM_CSTR ? 0 : o->koff), cl->len, 32));
            }
            if (hf(key_ptr(k)) != hf(key_ptr(o))) {
                viol("C02:lib-equal-keys-hash-differently", "family %s: equal keys %s / %s hash to %016llx / %016llx",
                     s_fam_names[s_fam], mon_hex(k->bytes + (s_fam == FAM_CSTR ? 0 : k->koff), cl->len, 32), mon_hex(o->bytes + (s_fam == FAM_CSTR ? 0 : o->koff), cl->len, 32),
                     (unsigned long long)hf(key_ptr(k)), (unsigned long long)hf(key_ptr(o)));
            }
        }
        unsigned oc = (c + 1) % s_ncls;
        if (oc != c && (int)oc != s_nullcls && s_cls[oc].nobj > 0) {
            struct kobj *o = &s_k[s_cls[oc].obj[0]];
            if (ef(key_ptr(k), key_ptr(o)) || ef(key_ptr(o), key_ptr(k))) {
                viol("C02:lib-distinct-keys-equal", "family %s: keys of different classes compare equal",
                     s_fam_names[s_fam]);
            }
        }
        if (hf(key_ptr(k)) == 0) {
            flag(F_HASH0);
        }
    }
    cl->obj[cl->nobj++] = (uint16_t)(k - s_k);
    return k;
}

/* an object of class c that may be handed to put/create on table t */
static struct kobj *pick_insert_obj(int t, unsigned c, struct mon_rng *r, bool allow_same) {
    struct tmodel *m = &s_m[t];
    if ((int)c == s_nullcls) {
        if (s_nullk.state == K_FREE || (s_nullk.state == K_IN && s_nullk.table == t && allow_same)) {
            return &s_nullk;
        }
        return NULL;
    }
    struct cls *cl = &s_cls[c];
    if (allow_same && m->ent[c].present && mon_chance(r, 1, 3)) {
        return m->ent[c].key;
    }
    struct kobj *freeobj = NULL;
    unsigned nfree = 0;
    for (unsigned i = 0; i < cl->nobj; ++i) {
        struct kobj *k = &s_k[cl->obj[i]];
        if (k->state == K_FREE && mon_below(r, ++nfree) == 0) {
            freeobj = k;
        }
    }
    if (freeobj && !(cl->nobj < 4 && mon_chance(r, 1, 6))) {
        return freeobj;
    }
    struct kobj *k = new_kobj(c, r);
    if (k) {
        return k;
    }
    if (freeobj) {
        return freeobj;
    }
    if (allow_same && m->ent[c].present) {
        return m->ent[c].key;
    }
    return NULL;
}

/* any live (not destroyed) object of class c: good enough for look-ups */
static struct kobj *pick_lookup_obj(unsigned c, struct mon_rng *r) {
    if ((int)c == s_nullcls) {
        return &s_nullk;
    }
    struct cls *cl = &s_cls[c];
    if (cl->nobj == 0) {
        return new_kobj(c, r);
    }
    return &s_k[cl->obj[mon_below(r, cl->nobj)]];
}

/* ------------------------------------------------------------------ snapshots */
static void take_snap(int t) {
    struct snap *s = &s_snap[t];
    s->p = s_t[t].p_impl;
    s->size = 0;
    if (!s->p) {
        return;
    }
    memcpy(s->hdr, s->p, sizeof(s->hdr));
    s->size = s->p->size <= MAX_SLOTS ? s->p->size : MAX_SLOTS;
    memcpy(s->slots, s->p->slots, s->size * sizeof(struct hash_table_entry));
}

static bool same_as_snap(int t) {
    struct snap *s = &s_snap[t];
    if (s->p != s_t[t].p_impl) {
        return false;
    }
    if (!s->p) {
        return true;
    }
    return !memcmp(s->hdr, s->p, sizeof(s->hdr)) && !memcmp(s->slots, s->p->slots, s->size * sizeof(struct hash_table_entry));
}

static uint64_t s_max_entries, s_sum_entries, s_table_checks, s_max_disp, s_finds;

/* ------------------------------------------------------------------ the oracle proper */
static void check_table(int t) {
    struct tmodel *m = &s_m[t];
    struct aws_hash_table *map = &s_t[t];
    if (!m->inited) {
        if (map->p_impl != NULL) {
            viol("C02:not-cleaned", "table %d should be in the cleaned-up state but p_impl is not NULL", t);
        }
        return;
    }
    struct hash_table_state *st = map->p_impl;
    if (!st) {
        viol("C02:state-lost", "table %d lost its state (p_impl == NULL)", t);
        return;
    }
    if (!aws_hash_table_is_valid(map)) {
        viol("C02:is-valid", "aws_hash_table_is_valid false for table %d (size %zu count %zu max_load %zu mask %zu)", t,
             st->size, st->entry_count, st->max_load, st->mask);
        return;
    }
    size_t cnt = aws_hash_table_get_entry_count(map);
    if (cnt != m->n) {
        viol("C02:count", "table %d reports %zu entries, reference map has %zu", t, cnt, m->n);
        return;
    }
    size_t size = st->size;
    if (size < 2 || (size & (size - 1)) || size > MAX_SLOTS || st->mask != size - 1 || st->max_load >= size ||
        st->entry_count > st->max_load) {
        viol("C02:geometry", "table %d: size %zu mask %zu max_load %zu entry_count %zu", t, size, st->mask, st->max_load,
             st->entry_count);
        return;
    }
    if (st->hash_fn != m->hash_fn || st->equals_fn != fam_eq() || st->alloc != m->alloc ||
        (st->destroy_key_fn != NULL) != m->kd || (st->destroy_value_fn != NULL) != m->vd) {
        viol("C02:callbacks-changed", "table %d: callbacks/allocator stored in the state differ from those given to init", t);
        return;
    }
    bool seen[MAX_CLS];
    memset(seen, 0, sizeof(seen));
    size_t occupied = 0;
    const struct hash_table_entry *last = &st->slots[size - 1];
    long prevD = last->hash_code ? (long)((size - 1 - last->hash_code) & st->mask) : -1;
    for (size_t i = 0; i < size; ++i) {
        const struct hash_table_entry *e = &st->slots[i];
        if (!e->hash_code) {
            prevD = -1;
            continue;
        }
        ++occupied;
        struct kobj *k = kobj_from_key(e->element.key);
        if (!k) {
            viol("C02:slot-contents", "table %d slot %zu holds a key pointer that is no key object", t, i);
            return;
        }
        unsigned c = k->cls;
        if (k == &s_nullk && s_nullcls < 0) {
            viol("C02:slot-contents", "table %d slot %zu holds the NULL key which was never inserted", t, i);
            return;
        }
        if (seen[c]) {
            viol("C02:duplicate-key", "table %d: two slots hold keys of class %u (second at slot %zu)", t, c, i);
            return;
        }
        seen[c] = true;
        if (!m->ent[c].present || m->ent[c].key != k || m->ent[c].value != e->element.value) {
            viol("C02:slot-contents",
                 "table %d slot %zu holds class %u key object #%d value #%d; reference map: %s key object #%d value #%d", t, i,
                 c, k == &s_nullk ? -1 : (int)(k - s_k), e->element.value ? (int)((struct vobj *)e->element.value - s_v) : -1,
                 m->ent[c].present ? "present" : "ABSENT",
                 m->ent[c].present && m->ent[c].key != &s_nullk ? (int)(m->ent[c].key - s_k) : -1,
                 m->ent[c].present && m->ent[c].value ? (int)((struct vobj *)m->ent[c].value - s_v) : -1);
            return;
        }
        uint64_t eh = expected_hash_code(m, k);
        if (eh != e->hash_code) {
            viol("C02:slot-hash-code", "table %d slot %zu: stored hash code %016llx, key of class %u hashes to %016llx", t, i,
                 (unsigned long long)e->hash_code, c, (unsigned long long)eh);
            return;
        }
        long d = (long)((i - e->hash_code) & st->mask);
        if (d > prevD + 1) {
            if (prevD < 0) {
                viol("C02:unreachable-slot",
                     "table %d (size %zu): slot %zu has displacement %ld but slot before it is empty: a probe from its home "
                     "slot stops early",
                     t, size, i, d);
            } else {
                viol("C02:robin-hood-order", "table %d (size %zu): slot %zu has displacement %ld, previous slot has %ld", t,
                     size, i, d, prevD);
            }
            return;
        }
        if (d >= 4) {
            flag(F_DISP4);
        }
        if ((uint64_t)d > s_max_disp) {
            s_max_disp = (uint64_t)d;
        }
        if ((size_t)(e->hash_code & st->mask) > i) {
            flag(F_WRAP_PROBE);
        }
        prevD = d;
    }
    if (occupied > s_max_entries) {
        s_max_entries = occupied;
    }
    s_sum_entries += occupied;
    ++s_table_checks;
    if (occupied != st->entry_count) {
        viol("C02:entry-count-drift", "table %d: %zu occupied slots, entry_count %zu", t, occupied, st->entry_count);
        return;
    }
    if (occupied >= size) {
        viol("C02:geometry", "table %d: no empty slot left (size %zu)", t, size);
        return;
    }
    /* look-up of every class of the universe through an arbitrary live object of the class */
    for (unsigned c = 0; c < s_ncls && !s_bad; ++c) {
        struct kobj *probe = pick_lookup_obj(c, &s_chk_rng);
        if (!probe) {
            continue; /* all objects of a class without replacement (PTR family) are gone */
        }
        struct aws_hash_element *el = (struct aws_hash_element *)(uintptr_t)0x5a5a;
        int rc = aws_hash_table_find(map, key_ptr(probe), &el);
        ++s_finds;
        if (rc != AWS_OP_SUCCESS) {
            viol("C02:find-result", "find returned %d", rc);
            return;
        }
        if (m->ent[c].present) {
            if (el == NULL) {
                viol("C02:find-missed", "table %d (size %zu, %zu entries): find of stored class %u (hash %016llx) returned NULL",
                     t, size, m->n, c, (unsigned long long)expected_hash_code(m, probe));
                return;
            }
            if ((uintptr_t)el < (uintptr_t)&st->slots[0] || (uintptr_t)el >= (uintptr_t)&st->slots[size]) {
                viol("C02:find-result", "find returned an element outside the slot array");
                return;
            }
            if (el->key != key_ptr(m->ent[c].key) || el->value != m->ent[c].value) {
                viol("C02:find-wrong-element", "table %d: find of class %u returned key/value pointers other than the stored pair", t,
                     c);
                return;
            }
        } else {
            if (el != NULL) {
                viol("C02:find-phantom", "table %d: find of absent class %u returned an element", t, c);
                return;
            }
            /* evidence only: was the early-termination rule needed to say "absent"? */
            uint64_t h = expected_hash_code(m, probe);
            for (size_t pi = 0; pi < size; ++pi) {
                const struct hash_table_entry *e = &st->slots[(h + pi) & st->mask];
                if (!e->hash_code) {
                    break;
                }
                if ((((h + pi) - e->hash_code) & st->mask) < pi) {
                    flag(F_EARLY_TERM);
                    break;
                }
                if (e->hash_code == h) {
                    flag(F_HASH_COLLISION_64);
                }
            }
        }
    }
}

/* mechanism flags from the difference between the slot snapshot and the present slots of table t */
static void diff_flags(int t, bool was_removal, bool was_insert) {
    struct snap *s = &s_snap[t];
    struct hash_table_state *st = s_t[t].p_impl;
    if (!s->p || !st) {
        return;
    }
    if (st->size != s->size) {
        if (s->p != st || st->size > s->size) {
            flag(F_RESIZE);
        }
        return;
    }
    size_t size = st->size;
    if (was_removal) {
        const struct hash_table_entry *b0 = &s->slots[0], *al = &st->slots[size - 1], *bl = &s->slots[size - 1];
        if (b0->hash_code && al->hash_code && al->element.key == b0->element.key && al->hash_code == b0->hash_code &&
            (bl->hash_code != al->hash_code || bl->element.key != al->element.key)) {
            flag(F_WRAP_SHIFT);
        }
        size_t moved = 0;
        for (size_t i = 0; i < size; ++i) {
            if (st->slots[i].hash_code && (s->slots[i].hash_code != st->slots[i].hash_code ||
                                           s->slots[i].element.key != st->slots[i].element.key)) {
                ++moved;
            }
        }
        if (moved >= 3) {
            flag(F_SHIFT_LONG);
        }
    }
    if (was_insert) {
        for (size_t i = 0; i < size; ++i) {
            if (s->slots[i].hash_code && st->slots[i].hash_code && s->slots[i].element.key != st->slots[i].element.key) {
                flag(F_DISPLACED);
                break;
            }
        }
    }
}

/* EFF_MUT: contents may change, slot-array size must not; EFF_ANY: re-initialised / cleaned up */
enum { EFF_NONE = 0, EFF_INSERT = 1, EFF_REMOVE = 2, EFF_MUT = 4, EFF_ANY = 8 };

/* after every operation. mut[t]: what the operation may have done to table t (EFF_NONE: must be bit-identical) */
static void after_op(int eff0, int eff1) {
    int eff[2] = {eff0, eff1};
    if (s_bad) {
        return;
    }
    check_destr();
    for (int t = 0; t < 2 && !s_bad; ++t) {
        if (eff[t] == EFF_NONE) {
            if (!same_as_snap(t)) {
                viol("C02:unrelated-change", "table %d changed (state pointer, header or slots) by an operation that must not "
                     "modify it", t);
            }
            continue;
        }
        struct hash_table_state *st = s_t[t].p_impl;
        struct snap *s = &s_snap[t];
        if (st && s->p && !(eff[t] & EFF_ANY)) {
            size_t oldsize = s->size;
            if (st->size != oldsize && !((eff[t] & EFF_INSERT) && st->size > oldsize)) {
                viol("C02:size-change", "table %d: slot array size went %zu -> %zu in an operation that does not insert", t, oldsize,
                     st->size);
            }
        }
        check_table(t);
        if (!s_bad) {
            diff_flags(t, (eff[t] & EFF_REMOVE) != 0, (eff[t] & EFF_INSERT) != 0);
        }
    }
    if (!s_bad) {
        take_snap(0);
        take_snap(1);
    }
}

static void after1(int t, int eff) {
    after_op(t == 0 ? eff : EFF_NONE, t == 1 ? eff : EFF_NONE);
}

/* ------------------------------------------------------------------ operations */
static int kid(const struct kobj *k) {
    return (k == NULL || k == &s_nullk) ? -1 : (int)(k - s_k);
}
static int vid(const void *v) {
    return v ? (int)((const struct vobj *)v - s_v) : -1;
}

static void model_remove(int t, unsigned c, bool destroy) {
    struct tmodel *m = &s_m[t];
    release_key(m, m->ent[c].key, destroy);
    release_val(m, m->ent[c].value, destroy);
    m->ent[c].present = false;
    m->ent[c].key = NULL;
    m->ent[c].value = NULL;
    --m->n;
}

static unsigned pick_class(int t, struct mon_rng *r, int pref) {
    unsigned c = (unsigned)mon_below(r, s_ncls);
    if (pref && mon_chance(r, 3, 4)) {
        for (unsigned k = 0; k < s_ncls; ++k) {
            unsigned cc = (c + k) % s_ncls;
            if (s_m[t].ent[cc].present == (pref == 1)) {
                return cc;
            }
        }
    }
    return c;
}

static void note_key_use(int t, unsigned c, const struct kobj *k) {
    if (k == &s_nullk) {
        flag(F_NULLKEY);
    } else if (s_fam == FAM_CUSTOM && s_htab[s_m[t].hsel][c] == 0) {
        flag(F_HASH0);
    } else if (s_fam == FAM_U64 && s_cls[c].u64 == 0) {
        flag(F_HASH0);
    }
}

static void do_put(int t, unsigned c, struct kobj *k, void *v, bool use_wc) {
    struct tmodel *m = &s_m[t];
    bool was = m->ent[c].present;
    int wc = -7;
    OP("put(t%d,c%u,k%d,v%d%s)", t, c, kid(k), vid(v), was ? (m->ent[c].key == k ? ",same-key" : ",other-key") : ",new");
    mon_fp(0x100 + (uint64_t)t);
    mon_fp(c);
    mon_fp((uint64_t)was * 2 + (was && m->ent[c].key == k));
    note_key_use(t, c, k);
    int rc = aws_hash_table_put(&s_t[t], key_ptr(k), v, use_wc ? &wc : NULL);
    if (s_bad) {
        return;
    }
    if (rc != AWS_OP_SUCCESS) {
        viol("C02:put-failed", "put returned %d (error %d)", rc, aws_last_error());
        return;
    }
    if (use_wc && wc != (was ? 0 : 1)) {
        viol("C02:was-created", "put: *was_created = %d, class %u was %s", wc, c, was ? "present" : "absent");
        return;
    }
    if (was) {
        struct kobj *old = m->ent[c].key;
        if (old != k) {
            flag(F_OVERWRITE_DIFFKEY);
            release_key(m, old, true);
        } else {
            flag(F_OVERWRITE_SAMEKEY);
        }
        release_val(m, m->ent[c].value, true);
    } else {
        ++m->n;
    }
    m->ent[c].present = true;
    m->ent[c].key = k;
    m->ent[c].value = v;
    k->state = K_IN;
    k->table = (int8_t)t;
    after1(t, was ? EFF_MUT : EFF_INSERT);
}

static bool op_put(int t, struct mon_rng *r, int pref) {
    unsigned c = pick_class(t, r, pref);
    struct kobj *k = pick_insert_obj(t, c, r, true);
    if (!k) {
        return false;
    }
    void *v = mon_chance(r, 1, 10) ? NULL : new_vobj(r);
    do_put(t, c, k, v, mon_chance(r, 3, 4));
    return true;
}

static bool op_create(int t, struct mon_rng *r, int pref) {
    struct tmodel *m = &s_m[t];
    unsigned c = pick_class(t, r, pref);
    struct kobj *k = pick_insert_obj(t, c, r, true);
    if (!k) {
        return false;
    }
    bool was = m->ent[c].present;
    bool use_el = mon_chance(r, 7, 8), use_wc = mon_chance(r, 3, 4);
    struct aws_hash_element *el = NULL;
    int wc = -7;
    OP("create(t%d,c%u,k%d%s)", t, c, kid(k), was ? ",exists" : ",new");
    mon_fp(0x200 + (uint64_t)t);
    mon_fp(c);
    mon_fp(was);
    note_key_use(t, c, k);
    int rc = aws_hash_table_create(&s_t[t], key_ptr(k), use_el ? &el : NULL, use_wc ? &wc : NULL);
    if (s_bad) {
        return true;
    }
    if (rc != AWS_OP_SUCCESS) {
        viol("C02:put-failed", "create returned %d (error %d)", rc, aws_last_error());
        return true;
    }
    if (use_wc && wc != (was ? 0 : 1)) {
        viol("C02:was-created", "create: *was_created = %d, class %u was %s", wc, c, was ? "present" : "absent");
        return true;
    }
    int eff;
    if (was) {
        eff = EFF_NONE;
        if (use_el) {
            if (!el || el->key != key_ptr(m->ent[c].key) || el->value != m->ent[c].value) {
                viol("C02:create-element", "create on an existing class %u did not return the stored element", c);
                return true;
            }
            if (mon_chance(r, 1, 3)) { /* documented: calling code may alter the value (no destructor involved) */
                void *nv = new_vobj(r);
                el->value = nv;
                m->ent[c].value = nv;
                eff = EFF_MUT;
            }
        }
    } else {
        eff = EFF_INSERT;
        ++m->n;
        m->ent[c].present = true;
        m->ent[c].key = k;
        m->ent[c].value = NULL;
        k->state = K_IN;
        k->table = (int8_t)t;
        if (use_el) {
            if (!el || el->key != key_ptr(k) || el->value != NULL) {
                viol("C02:create-element", "create of class %u: returned element is not (given key, NULL)", c);
                return true;
            }
            if (mon_chance(r, 3, 4)) {
                void *nv = new_vobj(r);
                el->value = nv;
                m->ent[c].value = nv;
            }
        }
    }
    after1(t, eff);
    return true;
}

static void op_find(int t, struct mon_rng *r) {
    struct tmodel *m = &s_m[t];
    unsigned c = pick_class(t, r, 0);
    struct kobj *probe = pick_lookup_obj(c, r);
    if (!probe) {
        return;
    }
    struct aws_hash_element *el = NULL;
    OP("find(t%d,c%u,k%d)", t, c, kid(probe));
    mon_fp(0x300 + (uint64_t)t);
    mon_fp(c);
    aws_hash_table_find(&s_t[t], key_ptr(probe), &el);
    if (s_bad) {
        return;
    }
    int eff = EFF_NONE;
    if (m->ent[c].present) {
        if (!el) {
            viol("C02:find-missed", "find of stored class %u returned NULL", c);
            return;
        }
        if (el->key != key_ptr(m->ent[c].key) || el->value != m->ent[c].value) {
            viol("C02:find-wrong-element", "find of class %u returned other key/value pointers than stored", c);
            return;
        }
        if (mon_chance(r, 1, 5)) {
            void *nv = new_vobj(r);
            el->value = nv;
            m->ent[c].value = nv;
            eff = EFF_MUT;
        }
    } else if (el) {
        viol("C02:find-phantom", "find of absent class %u returned an element", c);
        return;
    }
    after1(t, eff);
}

static void op_remove(int t, struct mon_rng *r) {
    struct tmodel *m = &s_m[t];
    unsigned c = pick_class(t, r, mon_chance(r, 5, 6) ? 1 : 2);
    struct kobj *probe = pick_lookup_obj(c, r);
    if (!probe) {
        return;
    }
    bool was = m->ent[c].present, use_out = mon_chance(r, 1, 2), use_wp = mon_chance(r, 3, 4);
    static int sentinel_k, sentinel_v;
    struct aws_hash_element out = {&sentinel_k, &sentinel_v};
    int wp = -7;
    OP("remove(t%d,c%u,k%d,%s%s)", t, c, kid(probe), use_out ? "out" : "destroy", was ? "" : ",absent");
    mon_fp(0x400 + (uint64_t)t);
    mon_fp(c);
    mon_fp((uint64_t)use_out * 2 + was);
    int rc = aws_hash_table_remove(&s_t[t], key_ptr(probe), use_out ? &out : NULL, use_wp ? &wp : NULL);
    if (s_bad) {
        return;
    }
    if (rc != AWS_OP_SUCCESS) {
        viol("C02:remove-result", "remove returned %d", rc);
        return;
    }
    if (use_wp && wp != (was ? 1 : 0)) {
        viol("C02:was-present", "remove: *was_present = %d, class %u was %s", wp, c, was ? "present" : "absent");
        return;
    }
    if (was) {
        if (use_out && (out.key != key_ptr(m->ent[c].key) || out.value != m->ent[c].value)) {
            viol("C02:remove-out-element", "remove of class %u moved other key/value pointers than the stored pair into *p_value", c);
            return;
        }
        model_remove(t, c, !use_out);
        after1(t, EFF_REMOVE);
    } else {
        if (out.key != &sentinel_k || out.value != &sentinel_v) {
            viol("C02:remove-out-element", "remove of absent class %u wrote to *p_value", c);
            return;
        }
        after1(t, EFF_NONE);
    }
}

static bool op_remove_element(int t, struct mon_rng *r) {
    struct tmodel *m = &s_m[t];
    unsigned c = pick_class(t, r, 1);
    if (!m->ent[c].present) {
        return false;
    }
    struct kobj *probe = pick_lookup_obj(c, r);
    struct aws_hash_element *el = NULL;
    OP("find+remove_element(t%d,c%u)", t, c);
    mon_fp(0x500 + (uint64_t)t);
    mon_fp(c);
    aws_hash_table_find(&s_t[t], key_ptr(probe), &el);
    if (s_bad) {
        return true;
    }
    if (!el) {
        viol("C02:find-missed", "find of stored class %u returned NULL", c);
        return true;
    }
    int rc = aws_hash_table_remove_element(&s_t[t], el);
    if (rc != AWS_OP_SUCCESS) {
        viol("C02:remove-result", "remove_element returned %d", rc);
        return true;
    }
    model_remove(t, c, false);
    after1(t, EFF_REMOVE);
    return true;
}

static void op_clear(int t) {
    struct tmodel *m = &s_m[t];
    OP("clear(t%d,n=%zu)", t, m->n);
    mon_fp(0x600 + (uint64_t)t);
    if (m->n) {
        flag(F_CLEAR_NONEMPTY);
    }
    aws_hash_table_clear(&s_t[t]);
    for (unsigned c = 0; c < s_ncls; ++c) {
        if (m->ent[c].present) {
            model_remove(t, c, true);
        }
    }
    after1(t, EFF_MUT);
}

static void retable(int t) {
    for (unsigned c = 0; c < s_ncls; ++c) {
        if (s_m[t].ent[c].present) {
            s_m[t].ent[c].key->table = (int8_t)t;
        }
    }
}

static void op_swap(struct mon_rng *r) {
    static struct snap tmp_snap;
    bool order = mon_chance(r, 1, 2);
    OP("swap(t%d,t%d)", order, !order);
    mon_fp(0x700);
    aws_hash_table_swap(&s_t[order], &s_t[!order]);
    struct tmodel tm = s_m[0];
    s_m[0] = s_m[1];
    s_m[1] = tm;
    retable(0);
    retable(1);
    tmp_snap = s_snap[0];
    s_snap[0] = s_snap[1];
    s_snap[1] = tmp_snap;
    flag(F_SWAP);
    after_op(EFF_NONE, EFF_NONE); /* both states must be bit-identical, just under the other handle */
}

static void op_cleanup(int t, struct mon_rng *r) {
    struct tmodel *m = &s_m[t];
    OP("clean_up(t%d,n=%zu)", t, m->n);
    mon_fp(0x800 + (uint64_t)t);
    aws_hash_table_clean_up(&s_t[t]);
    if (mon_chance(r, 1, 3)) {
        aws_hash_table_clean_up(&s_t[t]); /* documented idempotent */
    }
    if (m->inited) {
        for (unsigned c = 0; c < s_ncls; ++c) {
            if (m->ent[c].present) {
                model_remove(t, c, true);
            }
        }
    }
    m->inited = false;
    after1(t, EFF_ANY);
}

static void op_init(int t, struct mon_rng *r) {
    static const size_t sizes[] = {0, 1, 2, 3, 4, 5, 7, 8, 9, 15, 16, 17, 31, 32, 33, 63, 64, 2, 4, 8};
    struct tmodel *m = &s_m[t];
    size_t size = sizes[mon_below(r, sizeof(sizes) / sizeof(sizes[0]))];
    memset(m, 0, sizeof(*m));
    m->kd = mon_chance(r, 2, 3);
    m->vd = mon_chance(r, 2, 3);
    m->hsel = (s_fam == FAM_CUSTOM && mon_chance(r, 1, 3)) ? 1 : 0;
    m->hash_fn = fam_hash(m->hsel);
    m->alloc = mon_chance(r, 2, 3) ? mon_guard_allocator() : mon_guard_allocator_full();
    OP("init(t%d,size=%zu,kd=%d,vd=%d,h=%d)", t, size, m->kd, m->vd, m->hsel);
    mon_fp(0x900 + (uint64_t)t);
    mon_fp(size * 8 + (uint64_t)m->kd * 4 + (uint64_t)m->vd * 2 + (uint64_t)m->hsel);
    int rc = aws_hash_table_init(&s_t[t], m->alloc, size, m->hash_fn, fam_eq(), m->kd ? on_destroy_key : NULL,
                                 m->vd ? on_destroy_val : NULL);
    if (rc != AWS_OP_SUCCESS) {
        viol("C02:init-failed", "init(size=%zu) returned %d", size, rc);
        return;
    }
    m->inited = true;
    after1(t, EFF_ANY);
    if (!s_bad && s_t[t].p_impl->size < size) {
        viol("C02:geometry", "init(size=%zu) produced a slot array of %zu", size, s_t[t].p_impl->size);
    }
}

static void op_move(int to, struct mon_rng *r) {
    int from = 1 - to;
    if (!s_m[from].inited) {
        return;
    }
    if (s_m[to].inited) {
        op_cleanup(to, r); /* header: 'to' must be uninitialised or cleaned up */
        if (s_bad) {
            return;
        }
    }
    OP("move(to=t%d,from=t%d)", to, from);
    mon_fp(0xA00 + (uint64_t)to);
    aws_hash_table_move(&s_t[to], &s_t[from]);
    s_m[to] = s_m[from];
    memset(&s_m[from], 0, sizeof(s_m[from]));
    retable(to);
    s_snap[to] = s_snap[from];
    s_snap[from].p = NULL;
    s_snap[from].size = 0;
    flag(F_MOVE);
    after_op(EFF_NONE, EFF_NONE);
}

static bool model_eq(int a, int b) {
    if (s_m[a].n != s_m[b].n) {
        return false;
    }
    for (unsigned c = 0; c < s_ncls; ++c) {
        if (!s_m[a].ent[c].present) {
            continue;
        }
        if (!s_m[b].ent[c].present) {
            return false;
        }
        struct vobj *va = s_m[a].ent[c].value, *vb = s_m[b].ent[c].value;
        if (va != vb && (!va || !vb || va->tag != vb->tag)) {
            return false;
        }
    }
    return true;
}

static void op_eq(struct mon_rng *r) {
    if (!s_m[0].inited || !s_m[1].inited) {
        return;
    }
    int a = (int)mon_below(r, 2);
    OP("eq(t%d,t%d)", a, 1 - a);
    mon_fp(0xB00 + (uint64_t)a);
    bool got = aws_hash_table_eq(&s_t[a], &s_t[1 - a], val_eq);
    if (s_bad) {
        return;
    }
    bool want = model_eq(a, 1 - a);
    if (got != want) {
        viol("C02:eq", "aws_hash_table_eq returned %d, reference maps are %s (sizes %zu/%zu)", got, want ? "equal" : "different",
             s_m[a].n, s_m[1 - a].n);
        return;
    }
    if (got && s_m[0].n) {
        flag(F_EQ_TRUE);
    }
    after_op(EFF_NONE, EFF_NONE);
}

/* copy the contents of table `from` into the other table with different key objects and equal-by-tag values */
static void op_mirror(int from, struct mon_rng *r) {
    int to = 1 - from;
    if (!s_m[0].inited || !s_m[1].inited || s_fam == FAM_PTR) {
        return;
    }
    op_clear(to);
    for (unsigned c = 0; c < s_ncls && !s_bad; ++c) {
        if (!s_m[from].ent[c].present) {
            continue;
        }
        struct kobj *k = pick_insert_obj(to, c, r, false);
        if (!k) {
            continue;
        }
        struct vobj *src = s_m[from].ent[c].value, *v = NULL;
        if (src) {
            v = new_vobj(r);
            if (v) {
                v->tag = src->tag;
            }
        }
        do_put(to, c, k, v, false);
    }
    if (!s_bad) {
        op_eq(r);
    }
}

/* ------------------------------------------------------------------ iteration oracle */
/* the element shown must be an entry of the snapshot, not yet visited, still stored, with the stored pointers */
static int verify_visit(int t, const struct aws_hash_element *el, const bool *snap, bool *visited, const char *who) {
    struct tmodel *m = &s_m[t];
    struct kobj *k = kobj_from_key(el->key);
    if (!k || (k == &s_nullk && s_nullcls < 0)) {
        viol("C02:iter-element", "%s shows a key pointer that is no key object of this case", who);
        return -1;
    }
    unsigned c = k->cls;
    if (visited[c]) {
        viol("C02:iter-visits-twice", "%s visits class %u a second time", who, c);
        return -1;
    }
    if (!snap[c]) {
        viol("C02:iter-visits-absent", "%s visits class %u which was not stored when the iteration began", who, c);
        return -1;
    }
    if (!m->ent[c].present) {
        viol("C02:iter-visits-deleted", "%s visits class %u which was deleted earlier in this iteration", who, c);
        return -1;
    }
    if (m->ent[c].key != k || m->ent[c].value != el->value) {
        viol("C02:iter-element", "%s shows class %u with other key/value pointers than stored", who, c);
        return -1;
    }
    visited[c] = true;
    return (int)c;
}

static void check_complete(int t, const bool *snap, const bool *visited, const char *who, size_t nvis) {
    for (unsigned c = 0; c < s_ncls; ++c) {
        if (snap[c] && !visited[c]) {
            viol("C02:iter-missed-entry", "%s finished after %zu entries without visiting class %u (stored at its start, table %d)",
                 who, nvis, c, t);
            return;
        }
    }
}

static uint64_t s_n_iter_del, s_n_foreach_del, s_n_iter_walks, s_n_visits;

static void op_iter(int t, struct mon_rng *r) {
    struct tmodel *m = &s_m[t];
    bool snap[MAX_CLS], visited[MAX_CLS];
    for (unsigned c = 0; c < MAX_CLS; ++c) {
        snap[c] = c < s_ncls && m->ent[c].present;
        visited[c] = false;
    }
    static const unsigned pdels[] = {0, 8, 20, 40, 8, 20, 40, 70, 100};
    unsigned pdel = pdels[mon_below(r, 9)];
    bool may_stop = mon_chance(r, 1, 5);
    OP("iterate(t%d,n=%zu,pdel=%u%s)", t, m->n, pdel, may_stop ? ",may-stop" : "");
    mon_fp(0xC00 + (uint64_t)t);
    mon_fp(pdel);
    ++s_n_iter_walks;
    struct aws_hash_iter it = aws_hash_iter_begin(&s_t[t]);
    size_t steps = 0, nvis = 0;
    bool completed = false, deleted_any = false;
    while (!s_bad) {
        if (aws_hash_iter_done(&it)) {
            completed = true;
            break;
        }
        if (++steps > 4 * MAX_SLOTS) {
            viol("C02:iter-endless", "iterator walk did not finish after %zu steps", steps);
            return;
        }
        if (!aws_hash_iter_is_valid(&it) || it.status != AWS_HASH_ITER_STATUS_READY_FOR_USE) {
            viol("C02:iter-state", "iterator not valid/ready: slot %zu limit %zu status %d", it.slot, it.limit, (int)it.status);
            return;
        }
        int c = verify_visit(t, &it.element, snap, visited, "iterator");
        if (c < 0) {
            return;
        }
        ++nvis;
        mon_fp((uint64_t)c);
        if (may_stop && mon_chance(r, 1, 8)) {
            break;
        }
        if (mon_below(r, 100) < pdel) {
            bool destroy = mon_chance(r, 1, 2);
            size_t limit_before = it.limit, slot_before = it.slot;
            snprintf(s_op, sizeof(s_op), "iter_delete(t%d,c%d,slot=%zu,%s)", t, c, slot_before, destroy ? "destroy" : "keep");
            hist_add(s_op);
            mon_sample(" %s", s_op);
            mon_fp(0xC80 + (uint64_t)destroy);
            aws_hash_iter_delete(&it, destroy);
            if (s_bad) {
                return;
            }
            deleted_any = true;
            ++s_n_iter_del;
            flag(F_ITER_DELETE);
            if (it.limit < limit_before) {
                flag(F_ITER_LIMIT_DEC);
            }
            if (it.slot == SIZE_MAX) {
                flag(F_ITER_SLOT0);
            }
            if (it.limit > limit_before || !aws_hash_iter_is_valid(&it)) {
                viol("C02:iter-state", "after iter_delete: slot %zu limit %zu (was %zu) status %d", it.slot, it.limit, limit_before,
                     (int)it.status);
                return;
            }
            model_remove(t, (unsigned)c, destroy);
            after1(t, EFF_REMOVE);
        }
        aws_hash_iter_next(&it);
    }
    if (s_bad) {
        return;
    }
    s_n_visits += nvis;
    snprintf(s_op, sizeof(s_op), "iterate(t%d) end: visited %zu, %s", t, nvis, completed ? "completed" : "stopped early");
    if (completed) {
        check_complete(t, snap, visited, "iterator walk", nvis);
        if (s_bad) {
            return;
        }
        aws_hash_iter_next(&it); /* documented: idempotent on a done iterator */
        if (!aws_hash_iter_done(&it)) {
            viol("C02:iter-state", "iter_next on a done iterator made it not done");
            return;
        }
    }
    after1(t, deleted_any ? EFF_REMOVE : EFF_NONE);
}

struct fe_ctx {
    int t;
    struct mon_rng *r;
    bool snap[MAX_CLS], visited[MAX_CLS];
    int pending_del;
    unsigned pdel, pstop, perr;
    bool stopped, errored, raise, probe_overwrite;
    int overwrote_cls;
    size_t calls;
};

static void fe_apply_pending(struct fe_ctx *x) {
    if (x->pending_del >= 0 && !s_bad) {
        model_remove(x->t, (unsigned)x->pending_del, false); /* foreach+DELETE never runs destructors */
        x->pending_del = -1;
        ++s_n_foreach_del;
        flag(F_FOREACH_DELETE);
        after1(x->t, EFF_REMOVE); /* non-mutating look-ups during an iteration are documented as safe */
    }
}

static int fe_cb(void *vctx, struct aws_hash_element *el) {
    struct fe_ctx *x = vctx;
    if (x->stopped || x->errored) {
        viol("C02:foreach-continued", "foreach invoked the callback again after it asked to stop");
        return 0;
    }
    fe_apply_pending(x);
    if (s_bad) {
        x->stopped = true;
        return 0;
    }
    int c = verify_visit(x->t, el, x->snap, x->visited, "foreach");
    if (c < 0) {
        x->stopped = true;
        return 0;
    }
    ++x->calls;
    mon_fp(0xD80 + (uint64_t)c);
    unsigned roll = (unsigned)mon_below(x->r, 100);
    if (roll < x->perr) {
        x->errored = true;
        if (x->raise) {
            aws_raise_error(AWS_ERROR_INVALID_ARGUMENT);
        }
        hist_add("cb:ERROR");
        /* ERROR wins over DELETE: "no action will be taken for the current value" */
        return AWS_COMMON_HASH_TABLE_ITER_ERROR | (mon_chance(x->r, 1, 2) ? AWS_COMMON_HASH_TABLE_ITER_DELETE : 0) |
               (mon_chance(x->r, 1, 2) ? AWS_COMMON_HASH_TABLE_ITER_CONTINUE : 0);
    }
    bool del = mon_below(x->r, 100) < x->pdel;
    bool stop = mon_below(x->r, 100) < x->pstop;
    if (stop && !del && x->probe_overwrite && mon_chance(x->r, 1, 2)) {
        /* header: "The callback may change the value associated with the key by overwriting the value pointed-to" */
        void *nv = new_vobj(x->r);
        if (nv) {
            el->value = nv;
            s_m[x->t].ent[c].value = nv;
            x->overwrote_cls = c;
            hist_add("cb:overwrite-value+stop");
        }
    }
    if (del) {
        x->pending_del = c;
        char b[48];
        snprintf(b, sizeof(b), "cb:DELETE(c%d)%s", c, stop ? "+stop" : "");
        hist_add(b);
    }
    if (stop) {
        x->stopped = true;
    }
    return (del ? AWS_COMMON_HASH_TABLE_ITER_DELETE : 0) | (stop ? 0 : AWS_COMMON_HASH_TABLE_ITER_CONTINUE);
}

static void op_foreach(int t, struct mon_rng *r) {
    struct tmodel *m = &s_m[t];
    static struct fe_ctx x;
    memset(&x, 0, sizeof(x));
    x.t = t;
    x.r = r;
    for (unsigned c = 0; c < s_ncls; ++c) {
        x.snap[c] = m->ent[c].present;
    }
    static const unsigned pdels[] = {0, 10, 25, 50, 10, 25, 50, 100};
    x.pdel = pdels[mon_below(r, 8)];
    x.pstop = mon_chance(r, 1, 4) ? 15 : 0;
    x.perr = mon_chance(r, 1, 5) ? 12 : 0;
    x.raise = mon_chance(r, 1, 2);
    x.probe_overwrite = mon_run.param[1] != 0;
    x.pending_del = -1;
    x.overwrote_cls = -1;
    OP("foreach(t%d,n=%zu,pdel=%u,pstop=%u,perr=%u)", t, m->n, x.pdel, x.pstop, x.perr);
    mon_fp(0xD00 + (uint64_t)t);
    mon_fp(x.pdel * 10000 + x.pstop * 100 + x.perr);
    aws_reset_error(); /* the expected code below (UNKNOWN when the callback raised nothing) presumes a clean slot */
    int rc = aws_hash_table_foreach(&s_t[t], fe_cb, &x);
    if (s_bad) {
        return;
    }
    size_t ndel_before = s_n_foreach_del;
    fe_apply_pending(&x);
    if (s_bad) {
        return;
    }
    snprintf(s_op, sizeof(s_op), "foreach(t%d) end: %zu callbacks%s%s", t, x.calls, x.stopped ? ", stopped" : "",
             x.errored ? ", error" : "");
    s_n_visits += x.calls;
    if (x.errored) {
        flag(F_FOREACH_ERROR);
        int want = x.raise ? AWS_ERROR_INVALID_ARGUMENT : AWS_ERROR_UNKNOWN;
        if (rc != AWS_OP_ERR || aws_last_error() != want) {
            viol("C02:foreach-result", "callback returned ERROR (raised=%d): foreach returned %d, last error %d, expected %d/%d",
                 x.raise, rc, aws_last_error(), AWS_OP_ERR, want);
            return;
        }
    } else {
        if (rc != AWS_OP_SUCCESS) {
            viol("C02:foreach-result", "foreach returned %d without an ERROR from the callback", rc);
            return;
        }
        if (x.stopped) {
            flag(F_FOREACH_STOP);
        } else {
            check_complete(t, x.snap, x.visited, "foreach", x.calls);
            if (s_bad) {
                return;
            }
        }
    }
    if (x.overwrote_cls >= 0) {
        struct aws_hash_element *el = NULL;
        aws_hash_table_find(&s_t[t], key_ptr(m->ent[x.overwrote_cls].key), &el);
        if (el && el->value != m->ent[x.overwrote_cls].value) {
            viol("C02:foreach-value-overwrite-lost",
                 "foreach callback overwrote p_element->value of class %d as the header allows; the table still holds the old value",
                 x.overwrote_cls);
            return;
        }
        after1(t, EFF_MUT);
        return;
    }
    (void)ndel_before;
    after1(t, EFF_NONE); /* every delete was already accounted for by fe_apply_pending */
}

/* ------------------------------------------------------------------ case generation */
static const char *const s_hkind_names[] = {"constant",   "all-zero", "all-ones", "end-of-array", "high-bits-only", "two-clusters",
                                            "identity",   "random",   "mixed",    "straddle-wrap", "stride-64"};
#define N_HKIND 11

static void gen_hash_table(int sel, struct mon_rng *r) {
    int kind = (int)mon_below(r, N_HKIND);
    s_hkind[sel] = kind;
    uint64_t c0 = mon_rand(r), c1 = mon_rand(r);
    unsigned k = 1 + (unsigned)mon_below(r, 4);
    for (unsigned c = 0; c < MAX_CLS; ++c) {
        uint64_t h;
        switch (kind) {
            case 0:
                h = c0;
                break;
            case 1:
                h = 0;
                break;
            case 2:
                h = UINT64_MAX;
                break;
            case 3:
                h = UINT64_MAX - (c % k);
                break;
            case 4:
                h = ((uint64_t)(c + 1)) << 40;
                break;
            case 5:
                h = (((c & 1) ? c0 : c1) & ~(uint64_t)7) + ((c >> 1) % 3);
                break;
            case 6:
                h = c;
                break;
            case 7:
                h = mon_rand(r);
                break;
            case 8: {
                uint64_t pool[] = {0, 1, 42, UINT64_MAX, UINT64_MAX - 1, c, c0, (uint64_t)c << 32, 43, 2};
                h = pool[mon_below(r, sizeof(pool) / sizeof(pool[0]))];
                break;
            }
            case 9:
                h = (uint64_t)0 - 3 + (c % 6);
                break;
            default:
                h = (uint64_t)c << 6;
                break;
        }
        s_htab[sel][c] = h;
    }
}

static void gen_classes(struct mon_rng *r) {
    for (unsigned c = 0; c < s_ncls; ++c) {
        struct cls *cl = &s_cls[c];
        memset(cl, 0, sizeof(*cl));
        if ((int)c == s_nullcls) {
            continue;
        }
        /* string-like payload: random prefix + two hex digits of the class: injective also when case is ignored */
        size_t plen = (c == 0 && mon_chance(r, 1, 2)) ? 0 : (size_t)mon_below(r, 23);
        for (size_t i = 0; i < plen; ++i) {
            uint8_t b;
            if (s_fam == FAM_CURSOR_IC && mon_chance(r, 1, 3)) {
                /* Latin-1 / binary keys: bytes that are not ASCII letters (the high half preferred) next to letters; the
                 * letters at the ends of the alphabet a little more often. Case folding must leave them alone. */
                do {
                    b = mon_chance(r, 2, 3) ? (uint8_t)(0x80 + mon_below(r, 128)) : (uint8_t)mon_rand(r);
                } while ((b >= 'a' && b <= 'z') || (b >= 'A' && b <= 'Z'));
            } else if (s_fam == FAM_CURSOR_IC && mon_chance(r, 1, 4)) {
                b = (uint8_t)"AaZz"[mon_below(r, 4)];
            } else if (s_fam == FAM_CURSOR_IC || mon_chance(r, 1, 2)) {
                b = (uint8_t)((mon_chance(r, 1, 2) ? 'a' : 'A') + mon_below(r, 26));
            } else {
                b = (uint8_t)mon_rand(r);
            }
            if (s_fam == FAM_CSTR && b == 0) {
                b = '_';
            }
            cl->base[i] = b;
        }
        if (!(c == 0 && plen == 0)) {
            static const char hexd[] = "0123456789abcdef";
            cl->base[plen++] = (uint8_t)hexd[c >> 4];
            cl->base[plen++] = (uint8_t)hexd[c & 15];
        }
        cl->len = plen;
        /* u64 family: the value IS the hash: hostile but injective values */
        switch (mon_below(r, 5)) {
            case 0:
                cl->u64 = c;
                break; /* includes 0 -> hash code 1, colliding with the class whose value is 1 */
            case 1:
                cl->u64 = UINT64_MAX - c;
                break;
            case 2:
                cl->u64 = ((uint64_t)(c + 1)) << 40;
                break;
            case 3:
                cl->u64 = ((uint64_t)c << 6) | 42;
                break;
            default:
                cl->u64 = (mon_rand(r) << 8) | c;
                break;
        }
        if (s_fam == FAM_PTR) {
            cl->u64 = mon_rand(r) >> 16;
        }
    }
    if (s_fam == FAM_U64) {
        /* one injective scheme per case, otherwise two classes could share a value */
        unsigned scheme = (unsigned)mon_below(r, 5);
        uint64_t salt = mon_rand(r);
        for (unsigned c = 0; c < s_ncls; ++c) {
            uint64_t v;
            switch (scheme) {
                case 0:
                    v = c;
                    break;
                case 1:
                    v = UINT64_MAX - c;
                    break;
                case 2:
                    v = ((uint64_t)(c + 1)) << 40;
                    break;
                case 3:
                    v = (uint64_t)0 - 3 + c;
                    break;
                default:
                    v = (salt << 8) | c;
                    break;
            }
            s_cls[c].u64 = v;
        }
    }
}

static uint64_t s_tot_ops;

static void run_case(uint64_t case_idx) {
    struct mon_rng *r = &mon_case_rng;
    (void)case_idx;
    s_bad = false;
    s_flags = 0;
    s_nk = s_nv = 0;
    s_hist_len = 0;
    s_hist[0] = 0;
    s_ndk = s_ndv = s_ntk = s_ntv = s_dlog_over = 0;
    s_knull_d = s_knull_exp = s_vnull_d = s_vnull_exp = 0;
    s_n_iter_del = s_n_foreach_del = s_n_iter_walks = s_n_visits = 0;
    memset(&s_nullk, 0, sizeof(s_nullk));
    memset(s_m, 0, sizeof(s_m));
    memset(s_t, 0, sizeof(s_t));
    s_snap[0].p = s_snap[1].p = NULL;
    s_snap[0].size = s_snap[1].size = 0;
    mon_rng_seed(&s_chk_rng, mon_rand(r), 0xC02, 0);
    snprintf(s_op, sizeof(s_op), "setup");

    if (mon_run.param[0] > 0) {
        s_fam = (int)(mon_run.param[0] - 1) % FAM__N;
    } else {
        s_fam = mon_chance(r, 3, 5) ? FAM_CUSTOM : (int)(1 + mon_below(r, FAM__N - 1));
    }
    static const unsigned ncls_tab[] = {2, 3, 4, 6, 8, 12, 16, 16, 24, 24, 32, 32, 48, 48, 64, 64};
    s_ncls = ncls_tab[mon_below(r, sizeof(ncls_tab) / sizeof(ncls_tab[0]))];
    s_nullcls = mon_chance(r, 2, 5) ? (int)(s_ncls - 1) : -1;
    s_nullk.cls = (uint16_t)(s_nullcls >= 0 ? s_nullcls : 0);
    s_nullk.immortal = true;
    s_nullk.state = K_FREE;
    s_nullk.table = -1;
    gen_hash_table(0, r);
    gen_hash_table(1, r);
    gen_classes(r);
    snprintf(s_cfg, sizeof(s_cfg), "family=%s classes=%u null-key-class=%d hash-tables=[%s,%s]", s_fam_names[s_fam], s_ncls, s_nullcls,
             s_fam == FAM_CUSTOM ? s_hkind_names[s_hkind[0]] : "-", s_fam == FAM_CUSTOM ? s_hkind_names[s_hkind[1]] : "-");
    mon_sample("%s:", s_cfg);
    mon_fp((uint64_t)s_fam * 1000 + s_ncls);
    mon_fp((uint64_t)(s_nullcls + 1) * 100 + (uint64_t)s_hkind[0] * 10 + (uint64_t)s_hkind[1]);
    if (s_fam != FAM_CUSTOM) {
        flag(F_LIB_PAIR);
    }
    struct mon_alloc_stats st0;
    mon_guard_stats(&st0);
    /* two (PTR: one) equal-but-distinct objects per class up front */
    for (unsigned c = 0; c < s_ncls && !s_bad; ++c) {
        if ((int)c != s_nullcls) {
            new_kobj(c, r);
            if (s_fam != FAM_PTR) {
                new_kobj(c, r);
            }
        }
    }
    if (s_bad) {
        return;
    }
    op_init(0, r);
    if (!s_bad && mon_chance(r, 3, 4)) {
        op_init(1, r);
    }
    size_t nops = 20 + (size_t)mon_below(r, 381);
    unsigned burst = s_ncls >= 12 ? (unsigned)mon_below(r, 9) : 0; /* inserts come in runs so that large universes fill up */
    mon_fp(burst);
    /*                                    put  cre  find rem  rel  iter fe  clr swp mov cln eq  mir */
    static const unsigned w_grow[13] = {450, 120, 60, 80, 30, 60, 50, 4, 25, 6, 6, 30, 8};
    static const unsigned w_shrink[13] = {180, 40, 60, 300, 120, 110, 90, 5, 25, 6, 6, 30, 5};
    static const uint8_t profiles[5][4] = {{1, 0, 1, 0}, {1, 1, 1, 0}, {1, 1, 0, 0}, {1, 0, 0, 1}, {1, 1, 1, 1}};
    const uint8_t *profile = profiles[mon_below(r, 5)];
    mon_fp(profile[1] * 4 + profile[2] * 2 + profile[3]);
    size_t done = 0;
    for (size_t op = 0; op < nops && !s_bad; ++op, ++done) {
        if (mon_chance(r, 1, 3)) {
            mon_poison_last_error(r);
        }
        unsigned phase = (unsigned)((op * 4) / nops);
        bool grow = profile[phase] != 0;
        const unsigned *w = grow ? w_grow : w_shrink;
        unsigned tot = 0;
        for (int i = 0; i < 13; ++i) {
            tot += w[i];
        }
        unsigned pick = (unsigned)mon_below(r, tot), which = 0;
        while (pick >= w[which]) {
            pick -= w[which++];
        }
        int t = mon_chance(r, 2, 3) ? 0 : 1;
        if (!s_m[t].inited) {
            if (mon_chance(r, 1, 2) || !s_m[1 - t].inited) {
                op_init(t, r);
                continue;
            }
            t = 1 - t;
        }
        int pref = grow ? (mon_chance(r, 2, 3) ? 2 : 0) : 0;
        switch (which) {
            case 0:
                if (!op_put(t, r, pref)) {
                    op_find(t, r);
                } else if (grow && burst) {
                    for (unsigned b = (unsigned)mon_below(r, burst + 1); b > 0 && !s_bad; --b, ++done) {
                        if (!(mon_chance(r, 1, 4) ? op_create(t, r, 2) : op_put(t, r, 2))) {
                            break;
                        }
                    }
                }
                break;
            case 1:
                if (!op_create(t, r, pref)) {
                    op_find(t, r);
                }
                break;
            case 2:
                op_find(t, r);
                break;
            case 3:
                op_remove(t, r);
                break;
            case 4:
                if (!op_remove_element(t, r)) {
                    op_find(t, r);
                }
                break;
            case 5:
                op_iter(t, r);
                break;
            case 6:
                op_foreach(t, r);
                break;
            case 7:
                op_clear(t);
                break;
            case 8:
                op_swap(r);
                break;
            case 9:
                op_move(t, r);
                break;
            case 10:
                op_cleanup(t, r);
                if (!s_bad && mon_chance(r, 2, 3)) {
                    flag(F_REINIT);
                    op_init(t, r);
                }
                break;
            case 11:
                op_eq(r);
                break;
            default:
                op_mirror(t, r);
                break;
        }
    }
    s_tot_ops += done;
    if (s_bad) {
        return; /* tables are abandoned: after a violation their state is not trusted */
    }
    op_cleanup(0, r);
    if (!s_bad) {
        op_cleanup(1, r);
    }
    if (s_bad) {
        return;
    }
    snprintf(s_op, sizeof(s_op), "end of case");
    /* complete scan: nothing may have been destroyed that the model does not know about */
    for (size_t i = 0; i < s_nk; ++i) {
        if (s_k[i].dcount != s_k[i].exp) {
            viol(s_k[i].dcount > s_k[i].exp ? "C02:destructor-unexpected" : "C02:destructor-missing",
                 "end of case: key object #%zu (class %u) destroyed %u time(s), expected %u", i, s_k[i].cls, s_k[i].dcount, s_k[i].exp);
            return;
        }
    }
    for (size_t i = 0; i < s_nv; ++i) {
        if (s_v[i].dcount != s_v[i].exp) {
            viol(s_v[i].dcount > s_v[i].exp ? "C02:destructor-unexpected" : "C02:destructor-missing",
                 "end of case: value object #%zu destroyed %u time(s), expected %u", i, s_v[i].dcount, s_v[i].exp);
            return;
        }
    }
    struct mon_alloc_stats st1;
    mon_guard_stats(&st1);
    if (st1.live_blocks != st0.live_blocks) {
        viol("C02:leak", "allocator imbalance after clean_up of both tables: %lld live blocks",
             (long long)(st1.live_blocks - st0.live_blocks));
    }
    if (st1.redzone_errors != st0.redzone_errors) {
        viol("C02:redzone", "guard allocator found %llu damaged red zone(s)",
             (unsigned long long)(st1.redzone_errors - st0.redzone_errors));
    }
    mon_count("iter_deletes", s_n_iter_del);
    mon_count("foreach_deletes", s_n_foreach_del);
    mon_count("entries_visited_by_iteration", s_n_visits);
    mon_count("key_objects", s_nk);
}

int main(int argc, char **argv) {
    mon_init(argc, argv, "C02");
    aws_common_library_init(aws_default_allocator());
    static const char *names[F__N] = {"resize", "backward_shift_crossed_wraparound", "iter_limit_decreased",
                                      "iter_deleted_slot0_slot_wrapped", "displacement_ge_4", "hash_zero_key", "null_key",
                                      "probe_sequence_wraps", "insert_displaced_entries", "overwrite_other_key_object",
                                      "overwrite_same_key_pointer", "absent_find_needs_early_termination", "iter_delete",
                                      "foreach_delete", "foreach_stop", "foreach_error", "tables_equal_nonempty", "swap", "move",
                                      "cleanup_reinit", "clear_nonempty", "key_destructor_ran", "library_hash_eq_pair",
                                      "backward_shift_ge_3", "full_64bit_hash_collision"};
    for (int i = 0; i < F__N; ++i) {
        mon_flag_name(i, names[i]);
    }
    uint64_t c;
    while (mon_next_case(&c)) {
        mon_case_begin(c);
        run_case(c);
        mon_case_end(__builtin_popcount(s_flags & STRUCT_FLAGS) >= 2);
    }
    mon_count("ops", s_tot_ops);
    mon_count("full_table_checks", s_table_checks);
    mon_count("finds_compared_with_reference", s_finds);
    mon_count("sum_entries_over_table_checks", s_sum_entries);
    mon_count_max("max_entries_in_a_table", s_max_entries);
    mon_count_max("max_displacement", s_max_disp);
    return mon_finish();
}
