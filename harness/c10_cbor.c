/*
 * C10 - CBOR encoder/decoder round trip (DESIGN.md section 5, C10).
 *
 * A case is an *item program*: a well-formed sequence of CBOR data items (scalars, strings, definite and
 * indefinite containers, tags) produced by a generator that also derives, without looking at the library,
 *   - the element sequence (type, value) the decoder has to report,
 *   - the exact wire form of every element (major type, shortest head, payload) and therefore every byte offset,
 *   - the index of the element that follows each complete data item (skip boundaries).
 * For aws_cbor_encoder_write_float the expected form follows the documented priority rule
 * integer -> single -> double ("when the conversion will not cause precision loss"), computed from the bit pattern
 * of the double (and cross-checked against cast arithmetic inside the harness).
 *
 * Oracles:
 *   1. encoder: after every write the encoded length equals the offset the generator predicted
 *   2. independent reader (ref_read, ~60 lines): heads, lengths, nesting, shortest-head test; its element list must
 *      equal the expected list (including the float form), its item ends must equal the generator's
 *   3. decoder: peek_type + typed pop for every element, values exact (floats by bits, NaN as NaN), string cursors
 *      at the predicted place inside the source, remaining length after every element, 0 at the end
 *   4. skip: a fresh decoder at every item boundary, consume_next_whole_data_item must land on the next boundary
 *      and the following peek must see the following element (look-ahead cache cleared)
 *   5. allocator balance of encoder/decoders (guard allocator), ASan on an exact-size copy of the encoding
 *
 * Documented behaviour encoded in the model (not alarms):
 *   - write_float(-0.0) is the integer 0 (numerically equal; the integer test has priority)
 *   - integers in [2^63, 2^64) given as double are NOT written as integers (cbor.c comments: the range test is on
 *     int64); they go single/double. Counted in "float_uint64_range_not_integer".
 *   - the rule is the priority order, not byte-minimality: 2^40 takes 9 bytes as integer, 5 as single. Counted.
 */
#include "mon.h"

#include <aws/common/byte_buf.h>
#include <aws/common/cbor.h>
#include <aws/common/common.h>
#include <aws/common/error.h>

#include <float.h>
#include <inttypes.h>
#include <math.h>
#include <stdlib.h>
#include <sys/types.h>

/* Defined with external linkage in source/cbor.c (write_float goes through it) but NOT declared in
 * <aws/common/cbor.h>; DESIGN.md lists it in the workload, so it is declared here with the signature of the definition. */
void aws_cbor_encoder_write_single_float(struct aws_cbor_encoder *encoder, float value);

#define MAX_EL 8192
#define MAX_DEPTH 64

enum kind {
    K_UINT, K_NEGINT, K_WFLOAT, K_WSINGLE, K_BYTES, K_TEXT, K_ARRAY, K_MAP, K_TAG, K_BOOL, K_NULL, K_UNDEF,
    K_IBYTES, K_ITEXT, K_IARRAY, K_IMAP, K_BREAK
};
static const char *const s_kind_name[] = {"uint", "negint", "write_float", "write_single", "bytes", "text", "array", "map",
                                          "tag", "bool", "null", "undefined", "indef_bytes", "indef_text", "indef_array",
                                          "indef_map", "break"};

enum {
    F_HEAD_BOUNDARY, F_FLOAT_INT, F_FLOAT_SINGLE, F_FLOAT_DOUBLE, F_NEAR_2P63, F_NEAR_FLTMAX, F_FLOAT_SPECIAL, F_GROWTH,
    F_STR_64K, F_DEPTH8, F_DEPTH32, F_INDEF_CONTAINER, F_INDEF_STRING, F_TAG, F_MAP, F_SKIP_NESTED, F_SKIP_AFTER_PEEK,
    F_WRONG_POP, F_RESET_REUSE, F_POP_NO_PEEK, F_TIGHT, F_WIDE_COUNT, F_INSTREAM_SKIP, F_DEPTH64, F_1000_SKIPS, F_BIG_ENCODER, F_SELF_DESCRIBED_FIRST
};
static const char *const s_flag_names[] = {
    "int_head_width_boundary", "write_float_as_integer", "write_float_as_single", "write_float_as_double",
    "write_float_near_2p63", "write_float_near_fltmax", "float_special_nan_inf_zero_subnormal", "encoder_buffer_growth",
    "string_ge_64k", "nesting_ge_8", "nesting_ge_32", "indefinite_container", "indefinite_string", "tag", "map",
    "skip_nested_item", "skip_after_peek", "wrong_type_pop_refused", "encoder_reset_reuse", "pop_without_peek",
    "tight_fit_write_forced_growth", "count_head_ge_24", "in_stream_skip_then_decode", "nesting_eq_64",
    "one_decoder_skipped_1000_or_more_items", "encoder_buffer_grown_past_64MiB",
    "tag_55799_as_first_item"};

struct el {
    uint8_t kind;
    uint8_t etype; /* enum aws_cbor_type the decoder must report */
    uint8_t major; /* expected wire major type */
    uint8_t ai;    /* expected additional information when it is not "shortest head of arg": 26, 27, 31 */
    uint8_t depth;
    uint8_t fnan;  /* expected float is NaN (payload not compared) */
    bool bval;
    uint64_t arg;  /* head argument: value, length, count, tag, simple value, or raw float bits */
    double din;    /* input of write_float */
    float fin;     /* input of write_single_float */
    double dval;   /* expected decoded double */
    size_t str_off;
    size_t off, head, paylen; /* predicted placement in the encoding */
    size_t rem_before;        /* modelled free capacity of the encoder buffer before the write (steering only) */
    int end;                  /* index of the element after the whole data item starting here; -1 for break */
};

static struct el s_el[MAX_EL + 8];
static int s_nel;
static uint8_t *s_arena;
static size_t s_arena_len, s_arena_cap;
static size_t g_off, g_cap; /* model of encoder length / capacity, used to steer string lengths and place offsets */
static int s_budget, s_maxdepth, s_bigs;
static bool s_skip_heavy; /* long programs: most items are skipped in-stream with ONE decoder */
static int s_maxdepth_seen;

/* junk written before aws_cbor_encoder_reset */
static int s_junk_n;
static uint64_t s_junk_val[8];
static size_t s_junk_textlen;

/* run-wide counters, flushed once */
static uint64_t c_elements, c_bytes, c_skips, c_wfloat, c_wf_int, c_wf_single, c_wf_double, c_int_longer_than_single,
    c_u64range_not_int, c_negzero_uint0, c_growths, c_tight, c_strings_big, c_dumped, c_wf_2p63_exact, c_wf_fltmax_exact,
    c_instream_skips, c_wrong_pops, c_max_total;

static size_t head_w(uint64_t a) {
    return a < 24 ? 1 : a <= 0xFF ? 2 : a <= 0xFFFF ? 3 : a <= 0xFFFFFFFFULL ? 5 : 9;
}

static bool is_boundary(uint64_t a) {
    return a == 23 || a == 24 || a == 255 || a == 256 || a == 65535 || a == 65536 || a == 0xFFFFFFFFULL ||
           a == 0x100000000ULL || a == UINT64_MAX;
}

static uint64_t dbits(double d) {
    uint64_t b;
    memcpy(&b, &d, 8);
    return b;
}
static double from_dbits(uint64_t b) {
    double d;
    memcpy(&d, &b, 8);
    return d;
}
static uint32_t fbits(float f) {
    uint32_t b;
    memcpy(&b, &f, 4);
    return b;
}
static float from_fbits(uint32_t b) {
    float f;
    memcpy(&f, &b, 4);
    return f;
}

/* ------------------------------------------------------------------ generator */

static size_t arena_add(size_t n) {
    if (s_arena_len + n + 1 > s_arena_cap) {
        s_arena_cap = (s_arena_len + n + 1) * 2 + 1024;
        s_arena = realloc(s_arena, s_arena_cap);
    }
    size_t o = s_arena_len;
    s_arena_len += n;
    return o;
}

static void model_write(size_t reserve, size_t actual) {
    size_t need = g_off + reserve;
    if (need > g_cap) {
        size_t dbl = 2 * g_cap;
        g_cap = need > dbl ? need : dbl;
    }
    g_off += actual;
}

static struct el *new_el(int kind, int depth) {
    struct el *e = &s_el[s_nel++];
    memset(e, 0, sizeof(*e));
    e->kind = (uint8_t)kind;
    e->depth = (uint8_t)depth;
    e->end = -1;
    if (depth > s_maxdepth_seen) {
        s_maxdepth_seen = depth;
    }
    return e;
}

static void place(struct el *e, size_t reserve) {
    e->off = g_off;
    e->rem_before = g_cap - g_off;
    model_write(reserve, e->head + e->paylen);
}

static struct el *emit_head(int kind, int etype, int major, uint64_t arg, int depth) {
    struct el *e = new_el(kind, depth);
    e->etype = (uint8_t)etype;
    e->major = (uint8_t)major;
    e->arg = arg;
    e->head = head_w(arg);
    place(e, 9);
    e->end = s_nel;
    return e;
}

static struct el *emit_byte(int kind, int etype, int major, int ai, uint64_t arg, int depth) {
    struct el *e = new_el(kind, depth);
    e->etype = (uint8_t)etype;
    e->major = (uint8_t)major;
    e->ai = (uint8_t)ai;
    e->arg = arg;
    e->head = 1;
    place(e, 1);
    e->end = kind == K_BREAK ? -1 : s_nel;
    return e;
}

static void emit_string(struct mon_rng *r, bool text, size_t len, int depth) {
    struct el *e = new_el(text ? K_TEXT : K_BYTES, depth);
    e->etype = text ? AWS_CBOR_TYPE_TEXT : AWS_CBOR_TYPE_BYTES;
    e->major = text ? 3 : 2;
    e->arg = len;
    e->head = head_w(len);
    e->paylen = len;
    e->str_off = arena_add(len);
    uint8_t *p = s_arena + e->str_off;
    if (len) {
        mon_fill_random(r, p, len);
    }
    if (text) {
        /* valid UTF-8: printable ASCII with a few multi-byte sequences */
        for (size_t i = 0; i < len; ++i) {
            p[i] = (uint8_t)(0x20 + p[i] % 95);
        }
        if (len >= 4 && mon_chance(r, 1, 3)) {
            static const uint8_t mb[3][4] = {{0xC3, 0xA9, 'e', 'f'}, {0xE2, 0x82, 0xAC, 'x'}, {0xF0, 0x9F, 0x98, 0x80}};
            memcpy(p + mon_below(r, len - 3), mb[mon_below(r, 3)], 4);
        }
    }
    place(e, 9 + len);
    e->end = s_nel;
}

enum { FORM_UINT, FORM_NEGINT, FORM_SINGLE, FORM_DOUBLE };

/* The documented rule, derived from the bit pattern only. *arg = integer argument or raw float/double bits */
static int classify_double(double v, uint64_t *arg) {
    uint64_t b = dbits(v);
    bool neg = (b >> 63) != 0;
    int e = (int)((b >> 52) & 0x7FF);
    uint64_t m = b & ((1ULL << 52) - 1);
    uint32_t sgn32 = neg ? 0x80000000u : 0;
    if (e == 0x7FF) {
        /* not finite: single (NaN payload is not part of the expectation) */
        *arg = m ? (sgn32 | 0x7FC00000u) : (sgn32 | 0x7F800000u);
        return FORM_SINGLE;
    }
    if (e == 0 && m == 0) {
        *arg = 0; /* +0 and -0 are the integer 0 */
        return FORM_UINT;
    }
    if (e == 0) {
        *arg = b; /* double subnormal: far below the float range, not an integer */
        return FORM_DOUBLE;
    }
    int E = e - 1023;
    uint64_t sig = (1ULL << 52) | m; /* v = sig * 2^(E-52) */
    if (E >= 0 && E <= 63) {
        bool isint;
        uint64_t mag;
        if (E >= 52) {
            isint = true;
            mag = sig << (E - 52);
        } else {
            int sh = 52 - E;
            isint = (sig & ((1ULL << sh) - 1)) == 0;
            mag = sig >> sh;
        }
        if (isint) {
            /* int64 range: [-2^63, 2^63) */
            if (!neg && E <= 62) {
                *arg = mag;
                return FORM_UINT;
            }
            if (neg && (E <= 62 || m == 0)) {
                *arg = mag - 1;
                return FORM_NEGINT;
            }
        }
    }
    if (E <= 127 && E >= -126) {
        if ((m & ((1ULL << 29) - 1)) == 0) {
            *arg = sgn32 | ((uint32_t)(E + 127) << 23) | (uint32_t)(m >> 29);
            return FORM_SINGLE;
        }
    } else if (E < -126 && E >= -149) {
        int drop = -97 - E; /* 30..52 low bits of sig must be zero for a float subnormal */
        if ((sig & ((1ULL << drop) - 1)) == 0) {
            *arg = sgn32 | (uint32_t)(sig >> drop);
            return FORM_SINGLE;
        }
    }
    *arg = b;
    return FORM_DOUBLE;
}

static void emit_wfloat(double v, int depth) {
    struct el *e = new_el(K_WFLOAT, depth);
    uint64_t arg = 0;
    int form = classify_double(v, &arg);
    e->din = v;
    e->dval = v;
    e->arg = arg;
    /* second derivation with cast arithmetic; both are the harness's own */
    {
        int form2;
        if (!isfinite(v)) {
            form2 = FORM_SINGLE;
        } else if (v >= -9223372036854775808.0 && v < 9223372036854775808.0 && (double)(int64_t)v == v) {
            form2 = v < 0 ? FORM_NEGINT : FORM_UINT;
        } else if (fabs(v) <= FLT_MAX && (double)(float)v == v) {
            form2 = FORM_SINGLE;
        } else {
            form2 = FORM_DOUBLE;
        }
        bool ok = form2 == form;
        if (ok && isfinite(v)) {
            if (form == FORM_UINT) {
                ok = arg == (uint64_t)(int64_t)v;
            } else if (form == FORM_NEGINT) {
                ok = arg == (uint64_t)(-1 - (int64_t)v);
            } else if (form == FORM_SINGLE) {
                ok = (uint32_t)arg == fbits((float)v);
            }
        }
        if (!ok) {
            mon_violation("C10:oracle-self-check", "harness bug: write_float(%a) bitwise rule form %d arg %" PRIx64 ", cast rule form %d",
                          v, form, arg, form2);
        }
    }
    switch (form) {
        case FORM_UINT:
            e->etype = AWS_CBOR_TYPE_UINT;
            e->major = 0;
            e->head = head_w(arg);
            place(e, 9);
            break;
        case FORM_NEGINT:
            e->etype = AWS_CBOR_TYPE_NEGINT;
            e->major = 1;
            e->head = head_w(arg);
            place(e, 9);
            break;
        case FORM_SINGLE:
            e->etype = AWS_CBOR_TYPE_FLOAT;
            e->major = 7;
            e->ai = 26;
            e->head = 5;
            e->fnan = isnan(v);
            place(e, 5);
            break;
        default:
            e->etype = AWS_CBOR_TYPE_FLOAT;
            e->major = 7;
            e->ai = 27;
            e->head = 9;
            place(e, 9);
            break;
    }
    e->end = s_nel;
}

static void emit_wsingle(float f, int depth) {
    struct el *e = new_el(K_WSINGLE, depth);
    e->fin = f;
    e->dval = (double)f;
    e->fnan = isnan(f);
    e->arg = fbits(f);
    e->etype = AWS_CBOR_TYPE_FLOAT;
    e->major = 7;
    e->ai = 26;
    e->head = 5;
    place(e, 5);
    e->end = s_nel;
}

static uint64_t edge_u64(struct mon_rng *r) {
    static const uint64_t b[] = {0, 23, 24, 255, 256, 65535, 65536, 0xFFFFFFFFULL, 0x100000000ULL,
                                 0x7FFFFFFFFFFFFFFFULL, 0x8000000000000000ULL, UINT64_MAX};
    switch (mon_below(r, 7)) {
        case 0:
        case 1:
        case 2:
            return b[mon_below(r, sizeof(b) / sizeof(b[0]))] + (uint64_t)((int64_t)mon_below(r, 3) - 1);
        case 3:
            return mon_below(r, 32);
        case 4: {
            unsigned bits = 1 + (unsigned)mon_below(r, 64);
            uint64_t v = mon_rand(r);
            return bits == 64 ? v : (v & ((1ULL << bits) - 1));
        }
        case 5:
            return (1ULL << mon_below(r, 64)) - mon_below(r, 2);
        default:
            return mon_rand(r);
    }
}

static double step_ulp(double v, int n) {
    for (; n > 0; --n) {
        v = nextafter(v, INFINITY);
    }
    for (; n < 0; ++n) {
        v = nextafter(v, -INFINITY);
    }
    return v;
}

static double gen_double(struct mon_rng *r) {
    double v;
    switch (mon_below(r, 12)) {
        case 0:
            v = (double)((int64_t)mon_below(r, 2001) - 1000);
            break;
        case 1: {
            v = (double)edge_u64(r);
            if (mon_chance(r, 1, 2)) {
                v = -v;
            }
            if (mon_chance(r, 1, 4)) {
                v -= 1.0;
            }
            break;
        }
        case 2: {
            static const double c[] = {9223372036854775808.0, 9223372036854775808.0, 9223372036854775808.0,
                                       18446744073709551616.0, 4611686018427387904.0, 9007199254740992.0, 4294967296.0};
            v = c[mon_below(r, sizeof(c) / sizeof(c[0]))];
            v = step_ulp(v, (int)mon_below(r, 7) - 3);
            if (mon_chance(r, 1, 2)) {
                v = -v;
            }
            break;
        }
        case 3: {
            if (mon_chance(r, 1, 3)) {
                /* a significand of at most 24 bits at exponents around both ends of the float range: inside the normal range
                 * that is a float, below 2^-126 only if enough trailing bits are zero as well, above 2^128 never */
                uint32_t m = (uint32_t)mon_rand(r) & 0x7FFFFFu;
                if (mon_chance(r, 1, 2)) {
                    m &= 0x7FFFFFu << mon_below(r, 23); /* few significant bits */
                }
                static const int EE[] = {-152, -151, -150, -149, -148, -147, -145, -140, -135, -130, -128, -127, -126, -125, 126, 127, 128};
                v = ldexp(1.0 + (double)m / 8388608.0, EE[mon_below(r, sizeof(EE) / sizeof(EE[0]))]);
                if (mon_chance(r, 1, 2)) {
                    v = -v;
                }
                break;
            }
            double c[8];
            c[0] = (double)FLT_MAX;
            c[1] = (double)FLT_MAX;
            c[2] = (double)FLT_MAX + ldexp(1.0, 103); /* half a float ulp above FLT_MAX */
            c[3] = ldexp(1.0, 128);
            c[4] = (double)FLT_MIN;
            c[5] = ldexp(1.0, -149); /* smallest float subnormal */
            c[6] = ldexp(1.0, -150);
            c[7] = (double)nextafterf(FLT_MAX, 0.0f);
            v = c[mon_below(r, 8)];
            v = step_ulp(v, (int)mon_below(r, 5) - 2);
            if (mon_chance(r, 1, 2)) {
                v = -v;
            }
            break;
        }
        case 4: {
            uint32_t fb = (uint32_t)mon_rand(r);
            if (mon_chance(r, 1, 6)) {
                fb &= 0x807FFFFFu; /* float subnormal */
            }
            float f = from_fbits(fb);
            v = isfinite(f) ? (double)f : 1.5;
            break;
        }
        case 5:
            v = from_dbits(mon_rand(r));
            break;
        case 6: {
            double k = (double)((int64_t)mon_below(r, 1000001) - 500000);
            switch (mon_below(r, 4)) {
                case 0: v = k + 0.5; break;
                case 1: v = k / 8.0; break;
                case 2: v = k * 0.1; break;
                default: v = k / 1000.0; break;
            }
            break;
        }
        case 7: {
            switch (mon_below(r, 12)) {
                case 0: v = 0.0; break;
                case 1: v = -0.0; break;
                case 2: v = INFINITY; break;
                case 3: v = -INFINITY; break;
                case 4: v = NAN; break;
                case 5: v = -NAN; break;
                case 6: v = from_dbits(0x7FF0000000000000ULL | (mon_rand(r) >> 12) | 1); break; /* NaN with payload */
                case 7: v = DBL_MIN; break;
                case 8: v = from_dbits(1); break; /* smallest subnormal */
                case 9: v = DBL_MAX; break;
                case 10: v = -DBL_MAX; break;
                default: v = from_dbits((mon_rand(r) >> 12) | ((mon_rand(r) & 1) << 63)); break; /* subnormal */
            }
            break;
        }
        case 8: {
            v = ldexp(1.0, (int)mon_below(r, 1074 + 1024) - 1074);
            v = step_ulp(v, (int)mon_below(r, 3) - 1);
            if (mon_chance(r, 1, 2)) {
                v = -v;
            }
            break;
        }
        case 9: {
            v = ldexp((double)(mon_rand(r) >> 11), (int)mon_below(r, 13));
            if (mon_chance(r, 1, 2)) {
                v = -v;
            }
            break;
        }
        case 10: {
            v = (double)(float)(int32_t)mon_rand(r) * (mon_chance(r, 1, 2) ? 1.0 : 65536.0);
            break;
        }
        default:
            v = 1.7e9 + (double)mon_below(r, 100000000) / 1000.0;
            break;
    }
    return v;
}

static float gen_float(struct mon_rng *r) {
    switch (mon_below(r, 6)) {
        case 0:
            return from_fbits((uint32_t)mon_rand(r));
        case 1: {
            static const uint32_t sp[] = {0, 0x80000000u, 0x7F800000u, 0xFF800000u, 0x7FC00000u, 0xFFC00000u, 0x7F800001u,
                                          0x00000001u, 0x007FFFFFu, 0x00800000u, 0x7F7FFFFFu, 0xFF7FFFFFu, 0x5F000000u,
                                          0xDF000000u, 0x3F800000u};
            return from_fbits(sp[mon_below(r, sizeof(sp) / sizeof(sp[0]))]);
        }
        case 2:
            return (float)((int32_t)mon_below(r, 2001) - 1000);
        case 3:
            return from_fbits((uint32_t)mon_rand(r) & 0x807FFFFFu);
        case 4:
            return ldexpf(1.0f, (int)mon_below(r, 149 + 128) - 149);
        default:
            return (float)((double)((int64_t)mon_below(r, 100001) - 50000) / 16.0);
    }
}

/* string length; head-width boundaries, buffer growth points, occasionally >= 2^16 */
static size_t gen_strlen(struct mon_rng *r) {
    unsigned p = (unsigned)mon_below(r, 100);
    if (p < 50) {
        return (size_t)mon_below(r, 24);
    }
    if (p < 62) {
        return 20 + (size_t)mon_below(r, 10);
    }
    if (p < 72) {
        return 250 + (size_t)mon_below(r, 12);
    }
    if (p < 86) {
        return (size_t)mon_below(r, 700);
    }
    if (p < 91) {
        /* fill the modelled buffer up to a few bytes before / after its capacity */
        size_t rem = g_cap - g_off;
        size_t k = (size_t)mon_below(r, 12);
        if (rem > k + 9 && rem <= 70000) {
            return rem - k - (size_t)mon_below(r, 10);
        }
        return (size_t)mon_below(r, 24);
    }
    if (p < 96 || s_bigs <= 0) {
        return 700 + (size_t)mon_below(r, 4000);
    }
    --s_bigs;
    switch (mon_below(r, 6)) {
        case 0: return 65535;
        case 1: return 65536;
        case 2: return 65534 + (size_t)mon_below(r, 5);
        case 3: return 70000;
        case 4: return 8000 + (size_t)mon_below(r, 20000);
        default: return 20000 + (size_t)mon_below(r, 50001);
    }
}

static void gen_scalar(struct mon_rng *r, int depth, unsigned pick) {
    /* pick in [0,65) */
    if (pick < 12) {
        emit_head(K_UINT, AWS_CBOR_TYPE_UINT, 0, edge_u64(r), depth);
    } else if (pick < 20) {
        emit_head(K_NEGINT, AWS_CBOR_TYPE_NEGINT, 1, edge_u64(r), depth);
    } else if (pick < 36) {
        emit_wfloat(gen_double(r), depth);
    } else if (pick < 41) {
        emit_wsingle(gen_float(r), depth);
    } else if (pick < 49) {
        emit_string(r, false, gen_strlen(r), depth);
    } else if (pick < 57) {
        emit_string(r, true, gen_strlen(r), depth);
    } else if (pick < 61) {
        bool b = mon_chance(r, 1, 2);
        struct el *e = emit_byte(K_BOOL, AWS_CBOR_TYPE_BOOL, 7, 0, b ? 21 : 20, depth);
        e->bval = b;
    } else if (pick < 63) {
        emit_byte(K_NULL, AWS_CBOR_TYPE_NULL, 7, 0, 22, depth);
    } else {
        emit_byte(K_UNDEF, AWS_CBOR_TYPE_UNDEFINED, 7, 0, 23, depth);
    }
}

static void gen_item(struct mon_rng *r, int depth) {
    --s_budget;
    bool can_nest = depth < s_maxdepth && s_budget > 0 && s_nel < MAX_EL - 700;
    unsigned pick = (unsigned)mon_below(r, 100);
    if (!can_nest && pick >= 65) {
        pick = (unsigned)mon_below(r, 65);
    }
    if (pick < 65) {
        gen_scalar(r, depth, pick);
        return;
    }
    int me = s_nel;
    if (pick < 73) {
        size_t maxn = (size_t)(s_budget < 8 ? (s_budget < 0 ? 0 : s_budget) : 8);
        size_t n = (size_t)mon_below(r, maxn + 1);
        emit_head(K_ARRAY, AWS_CBOR_TYPE_ARRAY_START, 4, n, depth);
        for (size_t i = 0; i < n; ++i) {
            gen_item(r, depth + 1);
        }
    } else if (pick < 79) {
        size_t maxn = (size_t)(s_budget < 8 ? (s_budget < 0 ? 0 : s_budget / 2) : 4);
        size_t n = (size_t)mon_below(r, maxn + 1);
        emit_head(K_MAP, AWS_CBOR_TYPE_MAP_START, 5, n, depth);
        for (size_t i = 0; i < 2 * n; ++i) {
            gen_item(r, depth + 1);
        }
    } else if (pick < 86) {
        /* small tags, width boundaries, and tag numbers with a registered meaning (IANA): 55799 is the "self-described
         * CBOR" magic d9 d9 f7, 24 embedded CBOR, 2/3 bignums, 32.. URIs and friends, 258 sets */
        static const uint64_t REGISTERED[] = {0, 1, 2, 3, 4, 5, 21, 22, 23, 24, 32, 33, 34, 35, 36, 37, 55799, 55799, 55798, 55800, 258, 1001, 1004, 15309736};
        unsigned tk = (unsigned)mon_below(r, 3);
        uint64_t tagno = tk == 0 ? mon_below(r, 6) : tk == 1 ? edge_u64(r) : REGISTERED[mon_below(r, sizeof(REGISTERED) / sizeof(REGISTERED[0]))];
        if (tagno == 55799 && s_nel == 0) {
            mon_flag(F_SELF_DESCRIBED_FIRST);
        }
        emit_head(K_TAG, AWS_CBOR_TYPE_TAG, 6, tagno, depth);
        gen_item(r, depth + 1);
    } else if (pick < 91) {
        size_t n = (size_t)mon_below(r, 5);
        emit_byte(K_IARRAY, AWS_CBOR_TYPE_INDEF_ARRAY_START, 4, 31, 0, depth);
        for (size_t i = 0; i < n; ++i) {
            gen_item(r, depth + 1);
        }
        emit_byte(K_BREAK, AWS_CBOR_TYPE_BREAK, 7, 31, 31, depth + 1);
    } else if (pick < 94) {
        size_t n = (size_t)mon_below(r, 4);
        emit_byte(K_IMAP, AWS_CBOR_TYPE_INDEF_MAP_START, 5, 31, 0, depth);
        for (size_t i = 0; i < 2 * n; ++i) {
            gen_item(r, depth + 1);
        }
        emit_byte(K_BREAK, AWS_CBOR_TYPE_BREAK, 7, 31, 31, depth + 1);
    } else {
        bool text = pick >= 97;
        size_t n = (size_t)mon_below(r, 4);
        emit_byte(text ? K_ITEXT : K_IBYTES, text ? AWS_CBOR_TYPE_INDEF_TEXT_START : AWS_CBOR_TYPE_INDEF_BYTES_START,
                  text ? 3 : 2, 31, 0, depth);
        for (size_t i = 0; i < n; ++i) {
            --s_budget;
            emit_string(r, text, gen_strlen(r), depth + 1); /* chunks: definite strings of the same major type */
        }
        emit_byte(K_BREAK, AWS_CBOR_TYPE_BREAK, 7, 31, 31, depth + 1);
    }
    s_el[me].end = s_nel;
}

static void gen_small_scalar(struct mon_rng *r, int depth) {
    switch (mon_below(r, 4)) {
        case 0: emit_head(K_UINT, AWS_CBOR_TYPE_UINT, 0, mon_below(r, 30), depth); break;
        case 1: emit_head(K_NEGINT, AWS_CBOR_TYPE_NEGINT, 1, mon_below(r, 30), depth); break;
        case 2: {
            bool b = mon_chance(r, 1, 2);
            emit_byte(K_BOOL, AWS_CBOR_TYPE_BOOL, 7, 0, b ? 21 : 20, depth)->bval = b;
            break;
        }
        default: emit_string(r, true, (size_t)mon_below(r, 4), depth); break;
    }
}

/* a chain of containers/tags reaching exactly `target` levels */
static void gen_chain(struct mon_rng *r, int depth, int target) {
    if (depth >= target) {
        gen_scalar(r, depth, (unsigned)mon_below(r, 65));
        return;
    }
    int me = s_nel;
    switch (mon_below(r, 7)) {
        case 0:
        case 1:
            emit_head(K_TAG, AWS_CBOR_TYPE_TAG, 6, mon_below(r, 300), depth);
            gen_chain(r, depth + 1, target);
            break;
        case 2:
            emit_head(K_ARRAY, AWS_CBOR_TYPE_ARRAY_START, 4, 1, depth);
            gen_chain(r, depth + 1, target);
            break;
        case 3:
            emit_head(K_ARRAY, AWS_CBOR_TYPE_ARRAY_START, 4, 2, depth);
            if (mon_chance(r, 1, 2)) {
                gen_small_scalar(r, depth + 1);
                gen_chain(r, depth + 1, target);
            } else {
                gen_chain(r, depth + 1, target);
                gen_small_scalar(r, depth + 1);
            }
            break;
        case 4:
            emit_head(K_MAP, AWS_CBOR_TYPE_MAP_START, 5, 1, depth);
            gen_small_scalar(r, depth + 1);
            gen_chain(r, depth + 1, target);
            break;
        case 5:
            emit_byte(K_IARRAY, AWS_CBOR_TYPE_INDEF_ARRAY_START, 4, 31, 0, depth);
            if (mon_chance(r, 1, 3)) {
                gen_small_scalar(r, depth + 1);
            }
            gen_chain(r, depth + 1, target);
            emit_byte(K_BREAK, AWS_CBOR_TYPE_BREAK, 7, 31, 31, depth + 1);
            break;
        default:
            emit_byte(K_IMAP, AWS_CBOR_TYPE_INDEF_MAP_START, 5, 31, 0, depth);
            gen_small_scalar(r, depth + 1);
            gen_chain(r, depth + 1, target);
            emit_byte(K_BREAK, AWS_CBOR_TYPE_BREAK, 7, 31, 31, depth + 1);
            break;
    }
    s_el[me].end = s_nel;
}

/* array/map whose COUNT needs a 2- or 3-byte head */
static void gen_wide(struct mon_rng *r, int depth) {
    static const size_t counts[] = {23, 24, 25, 24, 255, 256, 257};
    size_t n = counts[mon_below(r, mon_chance(r, 1, 4) ? 7 : 4)];
    bool map = n < 100 && mon_chance(r, 1, 3);
    int me = s_nel;
    emit_head(map ? K_MAP : K_ARRAY, map ? AWS_CBOR_TYPE_MAP_START : AWS_CBOR_TYPE_ARRAY_START, map ? 5 : 4, n, depth);
    for (size_t i = 0; i < (map ? 2 * n : n); ++i) {
        gen_small_scalar(r, depth + 1);
    }
    s_el[me].end = s_nel;
}

/* string sized so that `want` bytes of the modelled capacity stay free, then an item with a wide head */
static void gen_tight(struct mon_rng *r) {
    size_t rem = g_cap - g_off;
    size_t want = (size_t)mon_below(r, 11);
    if (mon_chance(r, 1, 2)) {
        want = mon_chance(r, 1, 2) ? 8 : 4;
    }
    static const size_t heads[] = {1, 2, 3, 5};
    for (int h = 0; h < 4; ++h) {
        if (rem < heads[h] + want || rem > 70000) {
            break;
        }
        size_t len = rem - heads[h] - want;
        if (head_w(len) == heads[h]) {
            emit_string(r, mon_chance(r, 1, 2), len, 0);
            --s_budget;
            break;
        }
    }
    --s_budget;
    switch (mon_below(r, 6)) {
        case 0: emit_head(K_UINT, AWS_CBOR_TYPE_UINT, 0, mon_rand(r) | (1ULL << 40), 0); break;
        case 1: emit_head(K_NEGINT, AWS_CBOR_TYPE_NEGINT, 1, mon_rand(r) | (1ULL << 40), 0); break;
        case 2: emit_wfloat(0.1 + (double)mon_below(r, 1000), 0); break;
        case 3: emit_wsingle(1.25f + (float)mon_below(r, 1000), 0); break;
        case 4: emit_wfloat(1.5 + (double)mon_below(r, 1000), 0); break; /* single form via write_float */
        default: emit_head(K_UINT, AWS_CBOR_TYPE_UINT, 0, 0x10000 + mon_below(r, 1000), 0); break;
    }
}

/* hundreds to thousands of tiny items (tagged scalars, scalars, empty containers) for one decoder, flat or wrapped in
 * one array: per-decoder state that only builds up over ~1000 items or skips becomes visible */
static void gen_long(struct mon_rng *r) {
    static const int counts[] = {990, 999, 1000, 1001, 1100, 1500, 2500, 400};
    int n = counts[mon_below(r, sizeof(counts) / sizeof(counts[0]))];
    if (mon_chance(r, 1, 3)) {
        n = 300 + (int)mon_below(r, 2400);
    }
    unsigned wrap = (unsigned)mon_below(r, 4); /* 0,1 flat; 2 definite array; 3 indefinite array */
    unsigned mix = (unsigned)mon_below(r, 3);  /* 0 all tagged, 1 mostly tagged, 2 mixed */
    int depth = wrap >= 2 ? 1 : 0;
    int me = s_nel;
    if (wrap == 2) {
        emit_head(K_ARRAY, AWS_CBOR_TYPE_ARRAY_START, 4, (uint64_t)n, 0);
    } else if (wrap == 3) {
        emit_byte(K_IARRAY, AWS_CBOR_TYPE_INDEF_ARRAY_START, 4, 31, 0, 0);
    }
    for (int i = 0; i < n && s_nel < MAX_EL - 16; ++i) {
        unsigned k = mix == 0 ? 0 : mix == 1 ? (unsigned)mon_below(r, 5) : 3 + (unsigned)mon_below(r, 5);
        if (k < 4) {
            int t = s_nel;
            emit_head(K_TAG, AWS_CBOR_TYPE_TAG, 6, mon_below(r, 4), depth);
            gen_small_scalar(r, depth + 1);
            s_el[t].end = s_nel;
        } else if (k < 6) {
            gen_small_scalar(r, depth);
        } else if (k == 6) {
            emit_head(K_ARRAY, AWS_CBOR_TYPE_ARRAY_START, 4, 0, depth);
        } else {
            emit_head(K_MAP, AWS_CBOR_TYPE_MAP_START, 5, 0, depth);
        }
    }
    if (wrap == 2) {
        /* the declared count must match what was emitted if the element budget cut the loop short */
        int items = 0;
        for (int k = me + 1; k < s_nel; k = s_el[k].end > k ? s_el[k].end : k + 1) {
            ++items;
        }
        s_el[me].arg = (uint64_t)items;
        if (head_w((uint64_t)items) != s_el[me].head) {
            s_el[me].arg = (uint64_t)n; /* cannot happen: n <= 2700 keeps the 3-byte head unless the budget cut it below 256 */
        }
        s_el[me].end = s_nel;
    } else if (wrap == 3) {
        emit_byte(K_BREAK, AWS_CBOR_TYPE_BREAK, 7, 31, 31, 1);
        s_el[me].end = s_nel;
    }
    s_skip_heavy = true;
}

static void gen_reset(void) {
    s_skip_heavy = false;
    s_nel = 0;
    s_arena_len = 0;
    g_off = 0;
    g_cap = 256;
    s_maxdepth_seen = 0;
    s_junk_n = 0;
    s_junk_textlen = 0;
}

static void gen_program(struct mon_rng *r) {
    gen_reset();
    /* optional junk + reset: the buffer keeps its (possibly grown) capacity */
    if (mon_chance(r, 1, 8)) {
        s_junk_n = 1 + (int)mon_below(r, 5);
        for (int i = 0; i < s_junk_n; ++i) {
            s_junk_val[i] = edge_u64(r);
            model_write(9, head_w(s_junk_val[i]));
        }
        s_junk_textlen = (size_t)mon_below(r, mon_chance(r, 1, 3) ? 900 : 40);
        model_write(9 + s_junk_textlen, head_w(s_junk_textlen) + s_junk_textlen);
        g_off = 0;
    }
    unsigned shape = (unsigned)mon_below(r, 40);
    s_bigs = mon_chance(r, 1, 10) ? 1 + (int)mon_below(r, 2) : 0;
    s_maxdepth = 2 + (int)mon_below(r, 7);
    if (shape == 0) {
        /* deep nesting, up to exactly 64 levels */
        int target = mon_chance(r, 1, 3) ? MAX_DEPTH : 20 + (int)mon_below(r, 45);
        s_budget = 4;
        if (mon_chance(r, 1, 2)) {
            gen_scalar(r, 0, (unsigned)mon_below(r, 65));
        }
        gen_chain(r, 0, target);
        if (mon_chance(r, 1, 2)) {
            gen_scalar(r, 0, (unsigned)mon_below(r, 65));
        }
        return;
    }
    if (shape == 1) {
        gen_long(r);
        return;
    }
    s_budget = 1 + (int)mon_below(r, mon_chance(r, 1, 3) ? 8 : 60);
    bool wide_done = false;
    while (s_budget > 0) {
        unsigned p = (unsigned)mon_below(r, 100);
        if (p < 6) {
            gen_tight(r);
        } else if (p < 8 && !wide_done && shape < 8) {
            wide_done = true;
            s_budget -= 10;
            gen_wide(r, 0);
        } else {
            gen_item(r, 0);
        }
    }
}

/* thorough-tier sweep: every double +-(2^k + {-1,0,1} ulp) and the floats of the same shape */
static void gen_sweep(uint64_t case_idx) {
    gen_reset();
    int k = (int)(case_idx % 2098) - 1074;
    double p = ldexp(1.0, k);
    for (int s = 0; s < 2; ++s) {
        for (int d = -1; d <= 1; ++d) {
            double v = step_ulp(p, d);
            emit_wfloat(s ? -v : v, 0);
        }
    }
    if (k >= -149 && k <= 127) {
        float pf = ldexpf(1.0f, k);
        float lo = nextafterf(pf, 0.0f), hi = nextafterf(pf, INFINITY);
        float vs[6] = {lo, pf, hi, -lo, -pf, -hi};
        for (int i = 0; i < 6; ++i) {
            emit_wsingle(vs[i], 0);
            emit_wfloat((double)vs[i], 0);
        }
    }
}

/* ------------------------------------------------------------------ independent reader */

struct rd {
    uint8_t major, ai;
    uint64_t arg;
    size_t off, head, paylen;
    int end;
};
static struct rd s_rd[MAX_EL + 8];

/* Reads the whole buffer as a sequence of well-formed data items. Returns the number of elements or -1 (err set). */
static int ref_read(const uint8_t *buf, size_t len, char *err, size_t errsz) {
    struct {
        int start;          /* element index of the opener */
        int kind;           /* 0 definite, 1 tag, 2 indefinite */
        int major;          /* of the opener */
        uint64_t remaining; /* definite: items still to come */
        uint64_t count;     /* indefinite: items seen */
    } st[MAX_DEPTH + 8];
    int sp = 0, n = 0;
    size_t pos = 0;
    while (pos < len) {
        if (n >= MAX_EL) {
            snprintf(err, errsz, "more than %d elements", MAX_EL);
            return -1;
        }
        struct rd *e = &s_rd[n];
        uint8_t ib = buf[pos];
        e->major = ib >> 5;
        e->ai = ib & 31;
        e->off = pos;
        e->paylen = 0;
        e->arg = 0;
        e->end = -1;
        size_t w = e->ai < 24 ? 0 : e->ai == 24 ? 1 : e->ai == 25 ? 2 : e->ai == 26 ? 4 : e->ai == 27 ? 8 : 0;
        if (e->ai >= 28 && e->ai <= 30) {
            snprintf(err, errsz, "reserved additional information %u at offset %zu", e->ai, pos);
            return -1;
        }
        if (pos + 1 + w > len) {
            snprintf(err, errsz, "head at offset %zu runs past the end", pos);
            return -1;
        }
        if (e->ai < 24) {
            e->arg = e->ai;
        }
        for (size_t i = 0; i < w; ++i) {
            e->arg = (e->arg << 8) | buf[pos + 1 + i];
        }
        e->head = 1 + w;
        bool indef = e->ai == 31;
        if (e->major <= 6 && !indef) {
            uint64_t min = w == 1 ? 24 : w == 2 ? 0x100 : w == 4 ? 0x10000 : w == 8 ? 0x100000000ULL : 0;
            if (e->arg < min) {
                snprintf(err, errsz, "NONSHORTEST major %u argument %" PRIu64 " in a %zu-byte head at offset %zu", e->major,
                         e->arg, e->head, pos);
                return -1;
            }
        }
        if (indef && (e->major == 0 || e->major == 1 || e->major == 6)) {
            snprintf(err, errsz, "additional information 31 on major %u at offset %zu", e->major, pos);
            return -1;
        }
        if (e->major == 7 && e->ai == 24 && e->arg < 32) {
            snprintf(err, errsz, "two-byte simple value %" PRIu64 " at offset %zu", e->arg, pos);
            return -1;
        }
        if ((e->major == 2 || e->major == 3) && !indef) {
            if (e->arg > len - pos - e->head) {
                snprintf(err, errsz, "string of %" PRIu64 " bytes at offset %zu runs past the end", e->arg, pos);
                return -1;
            }
            e->paylen = (size_t)e->arg;
        }
        /* context rules */
        if (sp && st[sp - 1].kind == 2 && (st[sp - 1].major == 2 || st[sp - 1].major == 3)) {
            bool brk = e->major == 7 && indef;
            if (!brk && (e->major != st[sp - 1].major || indef)) {
                snprintf(err, errsz, "chunk of indefinite string at offset %zu is not a definite string of major %d", pos,
                         st[sp - 1].major);
                return -1;
            }
        }
        pos += e->head + e->paylen;
        ++n;
        bool done = false; /* did a complete data item just end */
        if (e->major == 7 && indef) {
            if (!sp || st[sp - 1].kind != 2) {
                snprintf(err, errsz, "break outside an indefinite item at offset %zu", e->off);
                return -1;
            }
            if (st[sp - 1].major == 5 && (st[sp - 1].count & 1)) {
                snprintf(err, errsz, "indefinite map closed after an odd number of items at offset %zu", e->off);
                return -1;
            }
            s_rd[st[--sp].start].end = n;
            done = true;
        } else if (indef || e->major == 6 || ((e->major == 4 || e->major == 5) && e->arg > 0)) {
            if (sp >= MAX_DEPTH + 4) {
                snprintf(err, errsz, "nesting deeper than %d", MAX_DEPTH + 4);
                return -1;
            }
            st[sp].start = n - 1;
            st[sp].kind = indef ? 2 : e->major == 6 ? 1 : 0;
            st[sp].major = e->major;
            st[sp].count = 0;
            if (e->major == 5 && e->arg > UINT64_MAX / 2) {
                snprintf(err, errsz, "map count overflows at offset %zu", e->off);
                return -1;
            }
            st[sp].remaining = e->major == 5 ? 2 * e->arg : e->arg;
            ++sp;
        } else {
            e->end = n;
            done = true;
        }
        while (done && sp) {
            if (st[sp - 1].kind == 2) {
                ++st[sp - 1].count;
                break;
            }
            if (st[sp - 1].kind == 0 && --st[sp - 1].remaining > 0) {
                break;
            }
            s_rd[st[--sp].start].end = n; /* definite container filled / tag content complete */
        }
    }
    if (sp) {
        snprintf(err, errsz, "input ends inside %d open item(s), innermost opened by element %d", sp, st[sp - 1].start);
        return -1;
    }
    return n;
}

/* ------------------------------------------------------------------ oracles */

static const char *describe(const struct el *e) {
    static char bufs[4][160];
    static int which;
    char *b = bufs[which++ & 3];
    switch (e->kind) {
        case K_UINT: snprintf(b, 160, "uint(%" PRIu64 ")", e->arg); break;
        case K_NEGINT: snprintf(b, 160, "negint(%" PRIu64 ")", e->arg); break;
        case K_WFLOAT:
            snprintf(b, 160, "write_float(%a=%.17g)->%s", e->din, e->din,
                     e->major == 0 ? "uint" : e->major == 1 ? "negint" : e->ai == 26 ? "single" : "double");
            break;
        case K_WSINGLE: snprintf(b, 160, "write_single(%a)", (double)e->fin); break;
        case K_BYTES: snprintf(b, 160, "bytes[%zu]", e->paylen); break;
        case K_TEXT: snprintf(b, 160, "text[%zu]", e->paylen); break;
        case K_ARRAY: snprintf(b, 160, "array(%" PRIu64 ")", e->arg); break;
        case K_MAP: snprintf(b, 160, "map(%" PRIu64 ")", e->arg); break;
        case K_TAG: snprintf(b, 160, "tag(%" PRIu64 ")", e->arg); break;
        case K_BOOL: snprintf(b, 160, "%s", e->bval ? "true" : "false"); break;
        default: snprintf(b, 160, "%s", s_kind_name[e->kind]); break;
    }
    return b;
}

/* hex window of the encoding around an offset */
static const char *window(const uint8_t *buf, size_t total, size_t off) {
    size_t a = off > 12 ? off - 12 : 0;
    size_t n = total - a;
    return mon_hex(buf + a, n, 40);
}

static void encode_el(struct aws_cbor_encoder *enc, const struct el *e) {
    switch (e->kind) {
        case K_UINT: aws_cbor_encoder_write_uint(enc, e->arg); break;
        case K_NEGINT: aws_cbor_encoder_write_negint(enc, e->arg); break;
        case K_WFLOAT: aws_cbor_encoder_write_float(enc, e->din); break;
        case K_WSINGLE: aws_cbor_encoder_write_single_float(enc, e->fin); break;
        case K_BYTES:
        case K_TEXT: {
            /* exact-size source so that an over-read of the caller's cursor is visible to ASan */
            uint8_t *src = e->paylen ? malloc(e->paylen) : NULL;
            if (e->paylen) {
                memcpy(src, s_arena + e->str_off, e->paylen);
            }
            struct aws_byte_cursor c = aws_byte_cursor_from_array(src, e->paylen);
            if (e->kind == K_BYTES) {
                aws_cbor_encoder_write_bytes(enc, c);
            } else {
                aws_cbor_encoder_write_text(enc, c);
            }
            free(src);
            break;
        }
        case K_ARRAY: aws_cbor_encoder_write_array_start(enc, (size_t)e->arg); break;
        case K_MAP: aws_cbor_encoder_write_map_start(enc, (size_t)e->arg); break;
        case K_TAG: aws_cbor_encoder_write_tag(enc, e->arg); break;
        case K_BOOL: aws_cbor_encoder_write_bool(enc, e->bval); break;
        case K_NULL: aws_cbor_encoder_write_null(enc); break;
        case K_UNDEF: aws_cbor_encoder_write_undefined(enc); break;
        case K_IBYTES: aws_cbor_encoder_write_indef_bytes_start(enc); break;
        case K_ITEXT: aws_cbor_encoder_write_indef_text_start(enc); break;
        case K_IARRAY: aws_cbor_encoder_write_indef_array_start(enc); break;
        case K_IMAP: aws_cbor_encoder_write_indef_map_start(enc); break;
        default: aws_cbor_encoder_write_break(enc); break;
    }
}

static size_t el_next_off(int i, size_t total) {
    return i + 1 < s_nel ? s_el[i + 1].off : total;
}
static size_t idx_off(int i, size_t total) {
    return i < s_nel ? s_el[i].off : total;
}

static bool same_double(double got, const struct el *e) {
    if (e->fnan) {
        return isnan(got);
    }
    return dbits(got) == dbits(e->dval);
}

/* compare the reader's view with the expectation */
static bool check_reader(const uint8_t *buf, size_t total) {
    char err[256];
    int n = ref_read(buf, total, err, sizeof(err));
    if (n < 0) {
        if (!strncmp(err, "NONSHORTEST", 11)) {
            mon_violation("C10:ref-non-shortest-head", "independent reader: %s; encoding %s", err, mon_hex(buf, total, 64));
        } else {
            mon_violation("C10:ref-malformed", "independent reader rejects the encoding: %s; encoding %s", err,
                          mon_hex(buf, total, 64));
        }
        return false;
    }
    int m = n < s_nel ? n : s_nel;
    for (int i = 0; i < m; ++i) {
        const struct el *e = &s_el[i];
        const struct rd *d = &s_rd[i];
        bool ok = d->major == e->major && d->off == e->off && d->head == e->head && d->paylen == e->paylen;
        if (ok && e->ai) {
            ok = d->ai == e->ai;
        }
        if (ok && !(e->ai == 31)) {
            if (e->major == 7 && (e->ai == 26 || e->ai == 27)) {
                if (e->fnan) {
                    ok = e->ai == 26 ? ((d->arg & 0x7F800000u) == 0x7F800000u && (d->arg & 0x7FFFFFu))
                                     : ((d->arg >> 52 & 0x7FF) == 0x7FF && (d->arg & ((1ULL << 52) - 1)));
                } else {
                    ok = d->arg == e->arg;
                }
            } else {
                ok = d->arg == e->arg;
            }
        }
        if (ok && e->paylen) {
            ok = !memcmp(buf + d->off + d->head, s_arena + e->str_off, e->paylen);
        }
        if (!ok) {
            const char *key = e->kind == K_WFLOAT ? "C10:float-form" : "C10:ref-sequence";
            if (d->major == 7 && d->ai == 25) {
                key = "C10:ref-half-float";
            }
            mon_violation(key,
                          "element %d: wrote %s, expected on the wire major %u ai %u arg %" PRIx64 " head %zu payload %zu at offset %zu; "
                          "independent reader sees major %u ai %u arg %" PRIx64 " head %zu payload %zu at offset %zu; bytes ..%s",
                          i, describe(e), e->major, e->ai, e->arg, e->head, e->paylen, e->off, d->major, d->ai, d->arg, d->head,
                          d->paylen, d->off, window(buf, total, e->off));
            return false;
        }
        if (d->end != e->end) {
            mon_violation("C10:ref-item-end", "element %d (%s): data item ends before element %d by the generator, %d by the reader", i,
                          describe(e), e->end, d->end);
            return false;
        }
    }
    if (n != s_nel) {
        mon_violation("C10:ref-sequence", "independent reader found %d elements, %d were written; encoding %s", n, s_nel,
                      mon_hex(buf, total, 64));
        return false;
    }
    return true;
}

#define ERRNAME() aws_error_name(aws_last_error())

/* decodes element i with the given style; returns false when the decoder is out of step */
static bool decode_el(struct aws_cbor_decoder *dec, int i, const uint8_t *buf, size_t total, unsigned style) {
    const struct el *e = &s_el[i];
    size_t next_off = el_next_off(i, total);
    enum aws_cbor_type want = (enum aws_cbor_type)e->etype;
    bool typed = !(want == AWS_CBOR_TYPE_NULL || want == AWS_CBOR_TYPE_UNDEFINED || want == AWS_CBOR_TYPE_BREAK ||
                   want >= AWS_CBOR_TYPE_INDEF_BYTES_START);
    unsigned peeks = style == 1 ? 0 : style == 2 ? 2 : 1;
    if (style == 3) {
        /* a pop for another type must be refused and must not consume the element */
        uint64_t junk = 0;
        struct aws_byte_cursor cj = {0};
        int rc;
        mon_poison_last_error(&mon_case_rng);
        if (want != AWS_CBOR_TYPE_UINT) {
            rc = aws_cbor_decoder_pop_next_unsigned_int_val(dec, &junk);
        } else if (mon_chance(&mon_case_rng, 1, 2)) {
            rc = aws_cbor_decoder_pop_next_negative_int_val(dec, &junk);
        } else {
            rc = aws_cbor_decoder_pop_next_text_val(dec, &cj);
        }
        if (rc == AWS_OP_SUCCESS || aws_last_error() != AWS_ERROR_CBOR_UNEXPECTED_TYPE) {
            mon_violation("C10:wrong-type-pop", "element %d is %s but a pop for another type returned %d (%s)", i, describe(e), rc,
                          ERRNAME());
            return false;
        }
        mon_flag(F_WRONG_POP);
        ++c_wrong_pops;
        peeks = (unsigned)mon_below(&mon_case_rng, 2);
    }
    if (!typed && peeks == 0 && mon_chance(&mon_case_rng, 1, 2)) {
        peeks = 1;
    }
    for (unsigned p = 0; p < peeks; ++p) {
        enum aws_cbor_type t = AWS_CBOR_TYPE_UNKNOWN;
        mon_poison_last_error(&mon_case_rng);
        if (aws_cbor_decoder_peek_type(dec, &t)) {
            mon_violation("C10:decode-failed", "peek_type failed (%s) at element %d (%s), offset %zu; bytes ..%s", ERRNAME(), i,
                          describe(e), e->off, window(buf, total, e->off));
            return false;
        }
        if (t != want) {
            mon_violation("C10:type-mismatch", "element %d: wrote %s, peek_type says %s, expected %s; bytes ..%s", i, describe(e),
                          aws_cbor_type_cstr(t), aws_cbor_type_cstr(want), window(buf, total, e->off));
            return false;
        }
    }
    if (peeks == 0 && typed) {
        mon_flag(F_POP_NO_PEEK);
    }
    int rc = AWS_OP_SUCCESS;
    mon_poison_last_error(&mon_case_rng);
    switch (want) {
        case AWS_CBOR_TYPE_UINT:
        case AWS_CBOR_TYPE_NEGINT:
        case AWS_CBOR_TYPE_ARRAY_START:
        case AWS_CBOR_TYPE_MAP_START:
        case AWS_CBOR_TYPE_TAG: {
            uint64_t got = 0xDEADBEEFDEADBEEFULL;
            rc = want == AWS_CBOR_TYPE_UINT     ? aws_cbor_decoder_pop_next_unsigned_int_val(dec, &got)
                 : want == AWS_CBOR_TYPE_NEGINT ? aws_cbor_decoder_pop_next_negative_int_val(dec, &got)
                 : want == AWS_CBOR_TYPE_ARRAY_START ? aws_cbor_decoder_pop_next_array_start(dec, &got)
                 : want == AWS_CBOR_TYPE_MAP_START   ? aws_cbor_decoder_pop_next_map_start(dec, &got)
                                                     : aws_cbor_decoder_pop_next_tag_val(dec, &got);
            if (rc == AWS_OP_SUCCESS && got != e->arg) {
                const char *key = want == AWS_CBOR_TYPE_UINT     ? "C10:uint-value"
                                  : want == AWS_CBOR_TYPE_NEGINT ? "C10:negint-value"
                                  : want == AWS_CBOR_TYPE_TAG    ? "C10:tag-value"
                                                                 : "C10:count-value";
                mon_violation(key, "element %d: wrote %s, decoder returned %" PRIu64 " (0x%" PRIx64 "); bytes ..%s", i, describe(e), got,
                              got, window(buf, total, e->off));
                return false;
            }
            if (rc == AWS_OP_SUCCESS && is_boundary(e->arg)) {
                mon_flag(F_HEAD_BOUNDARY);
            }
            if (rc == AWS_OP_SUCCESS && (want == AWS_CBOR_TYPE_ARRAY_START || want == AWS_CBOR_TYPE_MAP_START) && e->arg >= 24) {
                mon_flag(F_WIDE_COUNT);
            }
            break;
        }
        case AWS_CBOR_TYPE_FLOAT: {
            double got = -12345.678;
            rc = aws_cbor_decoder_pop_next_float_val(dec, &got);
            if (rc == AWS_OP_SUCCESS && !same_double(got, e)) {
                mon_violation("C10:float-value", "element %d: wrote %s, decoder returned %a (bits %016" PRIx64 "), expected %a; bytes ..%s",
                              i, describe(e), got, dbits(got), e->dval, window(buf, total, e->off));
                return false;
            }
            break;
        }
        case AWS_CBOR_TYPE_BOOL: {
            bool got = !e->bval;
            rc = aws_cbor_decoder_pop_next_boolean_val(dec, &got);
            if (rc == AWS_OP_SUCCESS && got != e->bval) {
                mon_violation("C10:bool-value", "element %d: wrote %s, decoder returned %d", i, describe(e), (int)got);
                return false;
            }
            break;
        }
        case AWS_CBOR_TYPE_BYTES:
        case AWS_CBOR_TYPE_TEXT: {
            struct aws_byte_cursor got = {0};
            rc = want == AWS_CBOR_TYPE_BYTES ? aws_cbor_decoder_pop_next_bytes_val(dec, &got)
                                             : aws_cbor_decoder_pop_next_text_val(dec, &got);
            if (rc == AWS_OP_SUCCESS) {
                if (got.len != e->paylen) {
                    mon_violation("C10:string-content", "element %d: wrote %s, decoder returned a cursor of %zu bytes", i, describe(e),
                                  got.len);
                    return false;
                }
                if (got.len) {
                    if (got.ptr < buf || got.ptr > buf + total || got.len > (size_t)(buf + total - got.ptr)) {
                        mon_violation("C10:string-cursor", "element %d (%s): returned cursor lies outside the source buffer", i,
                                      describe(e));
                        return false;
                    }
                    if (got.ptr != buf + e->off + e->head) {
                        mon_violation("C10:string-cursor", "element %d (%s): returned cursor starts at source offset %zu, content is at %zu",
                                      i, describe(e), (size_t)(got.ptr - buf), e->off + e->head);
                        return false;
                    }
                    if (memcmp(got.ptr, s_arena + e->str_off, got.len)) {
                        mon_violation("C10:string-content", "element %d (%s): content differs: got %s.. wrote %s..", i, describe(e),
                                      mon_hex(got.ptr, got.len, 24), mon_hex(s_arena + e->str_off, got.len, 24));
                        return false;
                    }
                }
                if (got.len >= 65536) {
                    mon_flag(F_STR_64K);
                }
            }
            break;
        }
        default:
            rc = aws_cbor_decoder_consume_next_single_element(dec);
            break;
    }
    if (rc != AWS_OP_SUCCESS) {
        mon_violation("C10:decode-failed", "reading element %d (%s) as %s failed: %s; offset %zu, bytes ..%s", i, describe(e),
                      aws_cbor_type_cstr(want), ERRNAME(), e->off, window(buf, total, e->off));
        return false;
    }
    size_t rem = aws_cbor_decoder_get_remaining_length(dec);
    if (rem != total - next_off) {
        mon_violation("C10:remaining-length", "after element %d (%s at offset %zu, %zu bytes): remaining length %zu, expected %zu", i,
                      describe(e), e->off, next_off - e->off, rem, total - next_off);
        return false;
    }
    return true;
}

static void observe_el_flags(const struct el *e) {
    if (e->kind == K_WFLOAT) {
        double a = fabs(e->din);
        ++c_wfloat;
        if (e->major <= 1) {
            mon_flag(F_FLOAT_INT);
            ++c_wf_int;
            if (e->head == 9 && isfinite(e->din) && a <= FLT_MAX && (double)(float)e->din == e->din) {
                ++c_int_longer_than_single; /* information: priority order, not byte-minimality */
            }
            if (dbits(e->din) == 0x8000000000000000ULL) {
                ++c_negzero_uint0;
            }
        } else if (e->ai == 26) {
            mon_flag(F_FLOAT_SINGLE);
            ++c_wf_single;
        } else {
            mon_flag(F_FLOAT_DOUBLE);
            ++c_wf_double;
        }
        if (e->major == 7 && isfinite(e->din) && a >= 9223372036854775808.0 && a < 18446744073709551616.0 && floor(a) == a &&
            e->din > 0) {
            ++c_u64range_not_int;
        }
        if (a >= 4611686018427387904.0 && a <= 36893488147419103232.0) {
            mon_flag(F_NEAR_2P63);
            if (a == 9223372036854775808.0) {
                ++c_wf_2p63_exact;
            }
        }
        if (a >= ldexp(1.0, 127) && a <= ldexp(1.0, 129)) {
            mon_flag(F_NEAR_FLTMAX);
            if (a == (double)FLT_MAX) {
                ++c_wf_fltmax_exact;
            }
        }
        if (!isfinite(e->din) || e->din == 0 || a < DBL_MIN || (a < FLT_MIN && e->ai == 26)) {
            mon_flag(F_FLOAT_SPECIAL);
        }
    } else if (e->kind == K_WSINGLE) {
        if (!isfinite(e->fin) || e->fin == 0 || fabsf(e->fin) < FLT_MIN) {
            mon_flag(F_FLOAT_SPECIAL);
        }
    } else if (e->kind == K_TAG) {
        mon_flag(F_TAG);
    } else if (e->kind == K_MAP || e->kind == K_IMAP) {
        mon_flag(F_MAP);
    }
    if (e->kind == K_IARRAY || e->kind == K_IMAP) {
        mon_flag(F_INDEF_CONTAINER);
    }
    if (e->kind == K_IBYTES || e->kind == K_ITEXT) {
        mon_flag(F_INDEF_STRING);
    }
}

static FILE *s_dump;
static int s_dumped;

static void dump_case(uint64_t case_idx, const uint8_t *buf, size_t total) {
    if (!s_dump || s_dumped >= 80 || total > 3000 || s_nel > 300) {
        return;
    }
    ++s_dumped;
    ++c_dumped;
    fprintf(s_dump, "{\"case\":%" PRIu64 ",\"hex\":\"", case_idx);
    for (size_t i = 0; i < total; ++i) {
        fprintf(s_dump, "%02x", buf[i]);
    }
    fputs("\",\"exp\":[", s_dump);
    for (int i = 0; i < s_nel; ++i) {
        const struct el *e = &s_el[i];
        if (i) {
            fputc(',', s_dump);
        }
        fprintf(s_dump, "[%zu,%d,", e->off, e->end);
        switch ((enum aws_cbor_type)e->etype) {
            case AWS_CBOR_TYPE_UINT: fprintf(s_dump, "\"u\",%" PRIu64, e->arg); break;
            case AWS_CBOR_TYPE_NEGINT: fprintf(s_dump, "\"n\",%" PRIu64, e->arg); break;
            case AWS_CBOR_TYPE_FLOAT:
                if (e->fnan) {
                    fprintf(s_dump, "\"f\",%d,\"nan\"", e->ai == 26 ? 4 : 8);
                } else {
                    fprintf(s_dump, "\"f\",%d,%" PRIu64, e->ai == 26 ? 4 : 8, e->arg);
                }
                break;
            case AWS_CBOR_TYPE_BYTES:
            case AWS_CBOR_TYPE_TEXT:
                fprintf(s_dump, "\"%s\",\"", e->etype == AWS_CBOR_TYPE_BYTES ? "b" : "t");
                for (size_t k = 0; k < e->paylen; ++k) {
                    fprintf(s_dump, "%02x", s_arena[e->str_off + k]);
                }
                fputc('"', s_dump);
                break;
            case AWS_CBOR_TYPE_ARRAY_START: fprintf(s_dump, "\"a\",%" PRIu64, e->arg); break;
            case AWS_CBOR_TYPE_MAP_START: fprintf(s_dump, "\"m\",%" PRIu64, e->arg); break;
            case AWS_CBOR_TYPE_TAG: fprintf(s_dump, "\"g\",%" PRIu64, e->arg); break;
            case AWS_CBOR_TYPE_BOOL: fprintf(s_dump, "\"o\",%d", (int)e->bval); break;
            case AWS_CBOR_TYPE_NULL: fputs("\"z\"", s_dump); break;
            case AWS_CBOR_TYPE_UNDEFINED: fputs("\"x\"", s_dump); break;
            case AWS_CBOR_TYPE_BREAK: fputs("\"k\"", s_dump); break;
            case AWS_CBOR_TYPE_INDEF_BYTES_START: fputs("\"ib\"", s_dump); break;
            case AWS_CBOR_TYPE_INDEF_TEXT_START: fputs("\"it\"", s_dump); break;
            case AWS_CBOR_TYPE_INDEF_ARRAY_START: fputs("\"ia\"", s_dump); break;
            default: fputs("\"im\"", s_dump); break;
        }
        fputc(']', s_dump);
    }
    fputs("]}\n", s_dump);
}

/* ------------------------------------------------------------------ encoders that pass 64 MiB (real memory)
 * strings of tens of MiB written into one encoder: its buffer grows several times above 64 MiB and some reservations
 * land between 1.5x and 2x the current capacity. Everything is decoded again and compared. */
static uint8_t bigbyte(size_t i, uint32_t salt) {
    return (uint8_t)((i * 2654435761u + salt) >> 11);
}

static void big_case(uint64_t case_idx) {
    struct mon_rng *r = &mon_case_rng;
    struct aws_allocator *alloc = aws_default_allocator(); /* 200+ MiB: no junk fill, no red zones */
    (void)case_idx;
    uint64_t vb = mon_violations();
    mon_fp(0xB16);
    unsigned shape = (unsigned)mon_below(r, 4);
    size_t sizes[4];
    int n = 0;
    switch (shape) {
        case 0: /* two equal chunks of 64 MiB: the second asks for exactly twice the capacity */
            sizes[n++] = (size_t)64 << 20;
            sizes[n++] = (size_t)64 << 20;
            break;
        case 1:
            sizes[n++] = ((size_t)70 << 20) + 123;
            sizes[n++] = ((size_t)70 << 20) + 123;
            sizes[n++] = ((size_t)40 << 20) + (size_t)mon_below(r, 4096);
            break;
        case 2: /* 1.5x < needed < 2x */
            sizes[n++] = ((size_t)66 << 20) + (size_t)mon_below(r, 4096);
            sizes[n++] = ((size_t)45 << 20) + (size_t)mon_below(r, 4096);
            break;
        default:
            sizes[n++] = ((size_t)65 << 20);
            sizes[n++] = ((size_t)33 << 20) + 1 + (size_t)mon_below(r, (size_t)30 << 20);
            break;
    }
    mon_fp(shape);
    uint32_t salt = (uint32_t)mon_rand(r);
    struct aws_cbor_encoder *enc = aws_cbor_encoder_new(alloc);
    size_t expect_len = 0;
    aws_cbor_encoder_write_array_start(enc, (size_t)n + 2);
    expect_len += 1;
    aws_cbor_encoder_write_uint(enc, 7);
    expect_len += 1;
    size_t maxsz = 0;
    for (int i = 0; i < n; ++i) {
        maxsz = sizes[i] > maxsz ? sizes[i] : maxsz;
    }
    uint8_t *src = malloc(maxsz);
    bool text[4];
    for (int i = 0; i < n; ++i) {
        text[i] = mon_chance(r, 1, 2);
        for (size_t k = 0; k < sizes[i]; ++k) {
            src[k] = text[i] ? (uint8_t)('a' + bigbyte(k, salt + (uint32_t)i) % 26) : bigbyte(k, salt + (uint32_t)i);
        }
        struct aws_byte_cursor c = aws_byte_cursor_from_array(src, sizes[i]);
        if (text[i]) {
            aws_cbor_encoder_write_text(enc, c);
        } else {
            aws_cbor_encoder_write_bytes(enc, c);
        }
        expect_len += 5 + sizes[i]; /* 4-byte length argument */
    }
    free(src);
    aws_cbor_encoder_write_uint(enc, 1000);
    expect_len += 3;
    struct aws_byte_cursor out = aws_cbor_encoder_get_encoded_data(enc);
    if (out.len != expect_len) {
        mon_violation("C10:big:encoded-length", "array of %d strings of %zu, %zu ... bytes: encoded data has %zu bytes, expected %zu", n, sizes[0], sizes[1], out.len,
                      expect_len);
    } else {
        struct aws_cbor_decoder *dec = aws_cbor_decoder_new(alloc, out);
        uint64_t cnt = 0, u = 0;
        bool ok = aws_cbor_decoder_pop_next_array_start(dec, &cnt) == AWS_OP_SUCCESS && cnt == (uint64_t)n + 2 &&
                  aws_cbor_decoder_pop_next_unsigned_int_val(dec, &u) == AWS_OP_SUCCESS && u == 7;
        for (int i = 0; ok && i < n; ++i) {
            struct aws_byte_cursor c;
            AWS_ZERO_STRUCT(c);
            int rc = text[i] ? aws_cbor_decoder_pop_next_text_val(dec, &c) : aws_cbor_decoder_pop_next_bytes_val(dec, &c);
            if (rc != AWS_OP_SUCCESS || c.len != sizes[i]) {
                mon_violation("C10:big:string", "string %d of %zu bytes: pop returned %d, length %zu", i, sizes[i], rc, c.len);
                ok = false;
                break;
            }
            for (size_t k = 0; k < sizes[i]; k += (k < 4096 || k + 4096 > sizes[i]) ? 1 : 509) {
                uint8_t want = text[i] ? (uint8_t)('a' + bigbyte(k, salt + (uint32_t)i) % 26) : bigbyte(k, salt + (uint32_t)i);
                if (c.ptr[k] != want) {
                    mon_violation("C10:big:string", "string %d of %zu bytes: byte %zu differs after the round trip", i, sizes[i], k);
                    ok = false;
                    break;
                }
            }
        }
        if (ok && (aws_cbor_decoder_pop_next_unsigned_int_val(dec, &u) != AWS_OP_SUCCESS || u != 1000 || aws_cbor_decoder_get_remaining_length(dec) != 0)) {
            mon_violation("C10:big:tail", "the item behind the big strings does not decode as written (value %llu, %zu bytes left)", (unsigned long long)u,
                          aws_cbor_decoder_get_remaining_length(dec));
        } else if (!ok && mon_violations() == vb) {
            mon_violation("C10:big:head", "array head / first item do not decode as written");
        }
        aws_cbor_decoder_destroy(dec);
    }
    aws_cbor_encoder_destroy(enc);
    mon_flag(F_BIG_ENCODER);
    mon_count("encoders_grown_past_64MiB", 1);
}

static void run_program(uint64_t case_idx) {
    struct mon_rng *r = &mon_case_rng;
    struct aws_allocator *alloc = mon_guard_allocator();
    struct mon_alloc_stats st0, sa, sb;
    mon_guard_stats(&st0);

    for (int i = 0; i < s_nel; ++i) {
        const struct el *e = &s_el[i];
        mon_fp(((uint64_t)e->kind << 56) ^ e->arg ^ ((uint64_t)e->paylen << 20) ^ ((uint64_t)e->depth << 48));
        if (e->kind == K_WFLOAT) {
            mon_fp(dbits(e->din));
        }
    }
    if (mon_sampling()) {
        mon_sample("%d elements:", s_nel);
        for (int i = 0; i < s_nel && i < 60; ++i) {
            mon_sample(" %s", describe(&s_el[i]));
        }
    }

    struct aws_cbor_encoder *enc = aws_cbor_encoder_new(alloc);
    uint8_t *copy = NULL;
    struct aws_cbor_decoder *dec = NULL;

    if (s_junk_n) {
        for (int i = 0; i < s_junk_n; ++i) {
            aws_cbor_encoder_write_uint(enc, s_junk_val[i]);
        }
        char *t = malloc(s_junk_textlen + 1);
        memset(t, 'j', s_junk_textlen);
        aws_cbor_encoder_write_text(enc, aws_byte_cursor_from_array(t, s_junk_textlen));
        free(t);
        aws_cbor_encoder_reset(enc);
        size_t l = aws_cbor_encoder_get_encoded_data(enc).len;
        if (l != 0) {
            mon_violation("C10:encoder-reset", "aws_cbor_encoder_reset left %zu encoded bytes", l);
            goto done;
        }
        mon_flag(F_RESET_REUSE);
        mon_fp(0x5e5e0000 + (uint64_t)s_junk_n + (s_junk_textlen << 8));
    }

    /* 1. encode, checking the length after every write */
    for (int i = 0; i < s_nel; ++i) {
        const struct el *e = &s_el[i];
        mon_guard_stats(&sa);
        encode_el(enc, e);
        mon_guard_stats(&sb);
        if (sb.total_acquires != sa.total_acquires) {
            mon_flag(F_GROWTH);
            ++c_growths;
            if (e->rem_before > 0 && e->rem_before < 9 && e->head + e->paylen <= 9) {
                mon_flag(F_TIGHT);
                ++c_tight;
            }
        }
        size_t l = aws_cbor_encoder_get_encoded_data(enc).len;
        size_t want = e->off + e->head + e->paylen;
        if (l != want) {
            struct aws_byte_cursor c = aws_cbor_encoder_get_encoded_data(enc);
            size_t from = e->off < c.len ? e->off : c.len;
            mon_violation(e->kind == K_WFLOAT ? "C10:float-form" : "C10:encoded-length",
                          "element %d: %s appended %zd bytes (%s), the documented form takes %zu (head %zu + payload %zu)", i, describe(e),
                          (ssize_t)l - (ssize_t)e->off, mon_hex(c.ptr + from, c.len - from, 24), e->head + e->paylen, e->head,
                          e->paylen);
            goto done;
        }
    }
    struct aws_byte_cursor encd = aws_cbor_encoder_get_encoded_data(enc);
    size_t total = encd.len;
    const uint8_t *buf;
    if (mon_chance(r, 3, 4)) {
        /* exact-size copy: ASan sees any read past the encoded bytes */
        copy = malloc(total ? total : 1);
        if (total) {
            memcpy(copy, encd.ptr, total);
        }
        buf = copy;
    } else {
        buf = encd.ptr; /* the usual way: decode straight out of the encoder's buffer */
    }
    c_elements += (uint64_t)s_nel;
    c_bytes += total;
    if (total > c_max_total) {
        c_max_total = total;
    }
    if (mon_sampling()) {
        mon_sample(" => %zu bytes %s", total, mon_hex(buf, total, 96));
    }
    dump_case(case_idx, buf, total);

    /* 2. independent reader */
    if (!check_reader(buf, total)) {
        goto done;
    }

    /* 3. decode the sequence */
    dec = aws_cbor_decoder_new(alloc, aws_byte_cursor_from_array(buf, total));
    if (aws_cbor_decoder_get_remaining_length(dec) != total) {
        mon_violation("C10:remaining-length", "fresh decoder over %zu bytes reports remaining length %zu", total,
                      aws_cbor_decoder_get_remaining_length(dec));
        goto done;
    }
    int prog_skips = 0;
    for (int i = 0; i < s_nel;) {
        const struct el *e = &s_el[i];
        bool nested = e->end > i + 1;
        bool whole_wrapper = s_skip_heavy && nested && e->depth == 0 && (e->kind == K_ARRAY || e->kind == K_IARRAY);
        if ((nested && !s_skip_heavy && mon_chance(r, 1, 12)) || (whole_wrapper && mon_chance(r, 1, 3)) ||
            (s_skip_heavy && !whole_wrapper && e->kind != K_BREAK && mon_chance(r, nested ? 11 : 4, 12))) {
            /* skip the whole nested item in-stream, then go on decoding behind it */
            if (mon_chance(r, 1, 2)) {
                enum aws_cbor_type t;
                if (aws_cbor_decoder_peek_type(dec, &t) || t != (enum aws_cbor_type)e->etype) {
                    mon_violation("C10:type-mismatch", "element %d (%s): peek before in-stream skip failed or wrong type", i, describe(e));
                    goto done;
                }
            }
            mon_poison_last_error(&mon_case_rng);
            if (aws_cbor_decoder_consume_next_whole_data_item(dec)) {
                mon_violation("C10:skip-failed", "in-stream consume_next_whole_data_item at element %d (%s) failed: %s", i, describe(e),
                              ERRNAME());
                goto done;
            }
            size_t rem = aws_cbor_decoder_get_remaining_length(dec);
            if (rem != total - idx_off(e->end, total)) {
                mon_violation("C10:skip-position",
                              "in-stream skip of element %d (%s, item spans offsets %zu..%zu): decoder now at offset %zu; bytes %s", i,
                              describe(e), e->off, idx_off(e->end, total), total - rem, mon_hex(buf + e->off, total - e->off, 40));
                goto done;
            }
            mon_flag(F_INSTREAM_SKIP);
            ++c_instream_skips;
            if (++prog_skips == 1000) {
                mon_flag(F_1000_SKIPS);
            }
            for (int k = i; k < e->end; ++k) {
                observe_el_flags(&s_el[k]);
            }
            i = e->end;
            continue;
        }
        unsigned style = (unsigned)mon_below(r, 10);
        style = style < 5 ? 0 : style < 7 ? 1 : style < 9 ? 2 : 3;
        if (!decode_el(dec, i, buf, total, style)) {
            goto done;
        }
        observe_el_flags(e);
        ++i;
    }
    if (aws_cbor_decoder_get_remaining_length(dec) != 0) {
        mon_violation("C10:remaining-length", "after the last element remaining length is %zu", aws_cbor_decoder_get_remaining_length(dec));
        goto done;
    }
    {
        enum aws_cbor_type t = AWS_CBOR_TYPE_UNKNOWN;
        if (aws_cbor_decoder_peek_type(dec, &t) == AWS_OP_SUCCESS) {
            mon_violation("C10:decode-past-end", "peek_type after the last element succeeded with type %s", aws_cbor_type_cstr(t));
            goto done;
        }
    }
    if (s_maxdepth_seen >= 8) {
        mon_flag(F_DEPTH8);
    }
    if (s_maxdepth_seen >= 32) {
        mon_flag(F_DEPTH32);
    }
    if (s_maxdepth_seen >= MAX_DEPTH) {
        mon_flag(F_DEPTH64);
    }

    /* 4. skip oracle from every item boundary */
    for (int i = 0; i < s_nel; ++i) {
        const struct el *e = &s_el[i];
        if (e->end < 0) {
            continue; /* a break is not the start of a data item */
        }
        struct aws_cbor_decoder *d2 = aws_cbor_decoder_new(alloc, aws_byte_cursor_from_array(buf + e->off, total - e->off));
        bool peeked = mon_chance(r, 1, 3);
        bool ok = true;
        if (peeked) {
            enum aws_cbor_type t = AWS_CBOR_TYPE_UNKNOWN;
            if (aws_cbor_decoder_peek_type(d2, &t) || t != (enum aws_cbor_type)e->etype) {
                mon_violation("C10:type-mismatch", "decoder positioned at element %d (%s, offset %zu): peek_type failed or says %s", i,
                              describe(e), e->off, aws_cbor_type_cstr(t));
                ok = false;
            }
        }
        mon_poison_last_error(&mon_case_rng);
        if (ok && aws_cbor_decoder_consume_next_whole_data_item(d2)) {
            mon_violation("C10:skip-failed", "consume_next_whole_data_item at element %d (%s, offset %zu) failed: %s; bytes %s", i,
                          describe(e), e->off, ERRNAME(), mon_hex(buf + e->off, total - e->off, 40));
            ok = false;
        }
        if (ok) {
            size_t end_off = idx_off(e->end, total);
            size_t rem = aws_cbor_decoder_get_remaining_length(d2);
            if (rem != total - end_off) {
                mon_violation("C10:skip-position",
                              "consume_next_whole_data_item at element %d (%s): item spans offsets %zu..%zu (%d elements), decoder "
                              "stopped at offset %zu; bytes %s",
                              i, describe(e), e->off, end_off, e->end - i, total - rem, mon_hex(buf + e->off, total - e->off, 40));
                ok = false;
            }
        }
        if (ok && e->end < s_nel) {
            /* the look-ahead cache must be empty again: the next peek sees the element behind the item */
            enum aws_cbor_type t = AWS_CBOR_TYPE_UNKNOWN;
            if (aws_cbor_decoder_peek_type(d2, &t) || t != (enum aws_cbor_type)s_el[e->end].etype) {
                mon_violation("C10:skip-cache", "after skipping element %d (%s) the next peek_type failed or says %s, next element is %s", i,
                              describe(e), aws_cbor_type_cstr(t), describe(&s_el[e->end]));
                ok = false;
            }
        }
        aws_cbor_decoder_destroy(d2);
        if (!ok) {
            goto done;
        }
        ++c_skips;
        if (e->end > i + 1) {
            mon_flag(F_SKIP_NESTED);
        }
        if (peeked) {
            mon_flag(F_SKIP_AFTER_PEEK);
        }
    }

done:
    if (dec) {
        aws_cbor_decoder_destroy(dec);
    }
    aws_cbor_encoder_destroy(enc);
    free(copy);
    struct mon_alloc_stats st1;
    mon_guard_stats(&st1);
    MON_CHECK(st1.live_blocks == st0.live_blocks, "C10:leak", "allocator imbalance after destroy: %lld live blocks",
              (long long)(st1.live_blocks - st0.live_blocks));
    MON_CHECK(st1.redzone_errors == st0.redzone_errors, "C10:redzone", "guard allocator found %llu damaged red zones",
              (unsigned long long)(st1.redzone_errors - st0.redzone_errors));
}

int main(int argc, char **argv) {
    mon_init(argc, argv, "C10");
    aws_common_library_init(aws_default_allocator());
    for (int i = 0; i < (int)(sizeof(s_flag_names) / sizeof(s_flag_names[0])); ++i) {
        mon_flag_name(i, s_flag_names[i]);
    }
    bool sweep = !strcmp(mon_run.mode, "sweep");
    {
        char path[4096];
        snprintf(path, sizeof(path), "%s/c10dump.%d", mon_run.outdir, mon_run.slice);
        s_dump = fopen(path, "w");
    }
    uint64_t c;
    while (mon_next_case(&c)) {
        mon_case_begin(c);
        uint64_t v0 = mon_violations();
        if (!sweep && c % 2048 == 2047) {
            big_case(c);
            mon_case_end(mon_violations() == v0);
            continue;
        }
        if (sweep) {
            gen_sweep(c);
        } else {
            gen_program(&mon_case_rng);
        }
        if (mon_violations() == v0) {
            run_program(c);
        }
        mon_case_end(s_nel > 0 && mon_violations() == v0 && mon_flag_count() >= (sweep ? 1u : 3u));
    }
    if (s_dump) {
        fclose(s_dump);
    }
    mon_count("elements_roundtripped", c_elements);
    mon_count("encoded_bytes", c_bytes);
    mon_count("skip_checks", c_skips);
    mon_count("in_stream_skips", c_instream_skips);
    mon_count("wrong_type_pops_refused", c_wrong_pops);
    mon_count("write_float_calls", c_wfloat);
    mon_count("write_float_as_integer", c_wf_int);
    mon_count("write_float_as_single", c_wf_single);
    mon_count("write_float_as_double", c_wf_double);
    mon_count("write_float_exactly_pm_2p63", c_wf_2p63_exact);
    mon_count("write_float_exactly_pm_fltmax", c_wf_fltmax_exact);
    mon_count("info_integer_form_longer_than_single", c_int_longer_than_single);
    mon_count("info_float_uint64_range_not_integer", c_u64range_not_int);
    mon_count("info_negative_zero_written_as_uint0", c_negzero_uint0);
    mon_count("encoder_buffer_growths", c_growths);
    mon_count("tight_fit_writes", c_tight);
    mon_count("python_dump_cases", c_dumped);
    mon_count_max("max_encoded_bytes", c_max_total);
    free(s_arena);
    return mon_finish();
}
