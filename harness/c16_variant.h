/*
 * C16 - shared between c16_math.c (the monitor) and the four variant translation units
 * c16_variant_{sel,ovf,asm,fb}.c.
 *
 * Part 1 (always): result records and the table type `struct c16_variant`.
 * Part 2 (only when C16_VARIANT_NAME is defined, i.e. inside a variant TU): the wrappers around
 * whatever implementation of <aws/common/math.h> that TU has pulled in, and the exported table.
 *
 * Every helper is evaluated in two compilation contexts per TU (the assembly-backed ones in a third, "pressure",
 * see below):
 *   thin  - one address-taken function per helper whose whole body is the call (arguments arrive in the
 *           ABI registers; at -O2/-O3 the static-inline helper is inlined into it)
 *   block - one loop over operand arrays with ALL helpers inlined into the same body (high register
 *           pressure, unrolling/vectorisation at -O3)
 * plus the fused use inside aws_timestamp_convert_u64 (two saturating multiplies and a saturating add).
 * Inline-asm constraint mistakes are context- and optimisation-dependent; that is why there are several.
 */
#ifndef C16_VARIANT_H
#define C16_VARIANT_H

#include <stddef.h>
#include <stdint.h>

#define C16_SENTINEL64 0xA5C35A3CA5C35A3CULL
#define C16_SENTINEL32 0xA5C35A3CU

/* 64-bit wide binary helpers with a saturating and a checked form */
enum { S64_ADD_U64, S64_MUL_U64, S64_SUB_U64, S64_ADD_SIZE, S64_MUL_SIZE, S64_SUB_SIZE, S64_N };
enum { S32_ADD_U32, S32_MUL_U32, S32_SUB_U32, S32_N };
enum { M64_MIN_U64, M64_MAX_U64, M64_MIN_I64, M64_MAX_I64, M64_MIN_SIZE, M64_MAX_SIZE, M64_N };
enum { M32_MIN_U32, M32_MAX_U32, M32_MIN_I32, M32_MAX_I32, M32_MIN_INT, M32_MAX_INT, M32_N };
enum { MS_MIN_U8, MS_MAX_U8, MS_MIN_I8, MS_MAX_I8, MS_MIN_U16, MS_MAX_U16, MS_MIN_I16, MS_MAX_I16, MS_N };
enum { U_CLZ_U32, U_CLZ_I32, U_CLZ_U64, U_CLZ_I64, U_CLZ_SIZE, U_CTZ_U32, U_CTZ_I32, U_CTZ_U64, U_CTZ_I64, U_CTZ_SIZE, U_N };

struct c16_o64 {
    uint64_t sat[S64_N];
    uint64_t out[S64_N]; /* *r after the checked call; pre-filled with C16_SENTINEL64 */
    int32_t rc[S64_N];
    int32_t err[S64_N]; /* aws_last_error() after the call (aws_reset_error() right before it) */
    uint64_t mm[M64_N]; /* min/max (signed results sign-extended) */
};

struct c16_o32 {
    uint32_t sat[S32_N];
    uint32_t out[S32_N];
    int32_t rc[S32_N];
    int32_t err[S32_N];
    uint32_t mm[M32_N];
};

struct c16_osmall {
    uint16_t mm[MS_N]; /* 16-bit operands: bits 0..15 of a and b; 8-bit operands: bits 16..23 */
    float fmin, fmax;  /* operands: the float bit patterns fa, fb */
    double dmin, dmax;
};

struct c16_ounary {
    uint64_t cnt[U_N];
    int32_t is_pow2;
    int32_t rup_rc, rup_err;
    uint64_t rup_out; /* pre-filled with C16_SENTINEL64 */
};

struct c16_oconv {
    uint64_t res_null; /* remainder == NULL */
    uint64_t res_rem;  /* remainder != NULL (pre-set to 0 as clock.h asks the caller to do) */
    uint64_t rem;
};

/* "pressure" context: the helper is inlined between two register barriers that hold C16_NPRESS + 2 values in
 * general registers, so a register the inline assembly clobbers without declaring it very likely carries a live
 * value (kin[] must come back unchanged in kout[]) */
#define C16_NPRESS 11
enum { P_ADD_U64_SAT, P_ADD_U64_CHK, P_MUL_U64_SAT, P_MUL_U64_CHK, P_ADD_U32_SAT, P_ADD_U32_CHK, P_MUL_U32_SAT, P_MUL_U32_CHK,
       P_CONV_U64, P_N };
struct c16_opress {
    uint64_t val; /* saturating result / *r (pre-filled with the sentinel) / converted ticks */
    int32_t rc;   /* checked forms */
    uint64_t kout[C16_NPRESS];
};

/* "literal" context: the second operand is an integer constant expression at the call site (count * sizeof(T), + 1,
 * - 1 ...), so that anything the helpers do under __builtin_constant_p / constant folding at -O2 is exercised.
 * lit64[k](a, n, o) evaluates every 64-bit helper on (a[i], C16_LIT_k), once with the literal as second and once as first
 * operand (o[2*i] and o[2*i+1]). */
#define C16_LITS(X)                                                                                                     \
    X(0, 0ULL) X(1, 1ULL) X(2, 2ULL) X(3, 3ULL) X(4, 4ULL) X(5, 8ULL) X(6, 16ULL) X(7, 24ULL) X(8, 64ULL) X(9, 255ULL) X(10, 256ULL)     \
    X(11, 4096ULL) X(12, 65536ULL) X(13, 0x80000000ULL) X(14, 0x100000000ULL) X(15, 0x4000000000000000ULL)              \
    X(16, 0x8000000000000000ULL) X(17, 0xFFFFFFFFFFFFFFFFULL) X(18, 1000000000ULL) X(19, 0x7FFFFFFFFFFFFFFFULL)
#define C16_NLIT 20
#define C16_LITVAL_(i, v) v,
static const uint64_t C16_LIT_VALUES[C16_NLIT] = {C16_LITS(C16_LITVAL_)};

struct c16_variant {
    const char *name;
    const char *what;
    int opt_level; /* -DC16_OPT of the TU */
    /* thin context */
    uint64_t (*sat64[S64_N])(uint64_t, uint64_t);
    int (*chk64[S64_N])(uint64_t, uint64_t, uint64_t *);
    uint64_t (*mm64[M64_N])(uint64_t, uint64_t);
    uint32_t (*sat32[S32_N])(uint32_t, uint32_t);
    int (*chk32[S32_N])(uint32_t, uint32_t, uint32_t *);
    uint32_t (*mm32[M32_N])(uint32_t, uint32_t);
    uint64_t (*unary[U_N])(uint64_t);
    int (*is_pow2)(uint64_t);
    int (*round_up_pow2)(uint64_t, uint64_t *);
    uint64_t (*conv_u64)(uint64_t ticks, uint64_t old_f, uint64_t new_f, uint64_t *rem);
    uint64_t (*conv_unit)(uint64_t ticks, uint64_t from, uint64_t to, uint64_t *rem);
    /* pressure context: c is only used by P_CONV_U64 (ticks=a, old=b, new=c) */
    void (*press[P_N])(uint64_t a, uint64_t b, uint64_t c, const uint64_t *kin, struct c16_opress *o);
    /* literal context */
    void (*lit64[C16_NLIT])(const uint64_t *a, size_t n, struct c16_o64 *o);
    /* block context */
    void (*blk64)(const uint64_t *a, const uint64_t *b, size_t n, struct c16_o64 *o);
    void (*blk32)(const uint32_t *a, const uint32_t *b, size_t n, struct c16_o32 *o);
    void (*blksmall)(const uint64_t *a, const uint64_t *b, const float *fa, const float *fb, const double *da,
                     const double *db, size_t n, struct c16_osmall *o);
    void (*blkunary)(const uint64_t *x, size_t n, struct c16_ounary *o);
    /* unit != 0: aws_timestamp_convert (old_f/new_f are enum aws_timestamp_unit values), else .._convert_u64 */
    void (*blkconv)(const uint64_t *t, const uint64_t *old_f, const uint64_t *new_f, size_t n, int unit,
                    struct c16_oconv *o);
};

extern const struct c16_variant c16_variant_sel, c16_variant_ovf, c16_variant_asm, c16_variant_fb;

/* ======================================================================================== part 2 */
#ifdef C16_VARIANT_NAME

#    include <aws/common/clock.h>
#    include <aws/common/common.h>
#    include <aws/common/error.h>
#    include <aws/common/math.h>

#    ifndef C16_OPT
#        error "compile with -DC16_OPT=<optimisation level>"
#    endif
#    if C16_OPT == 0 && defined(__OPTIMIZE__)
#        error "C16_OPT=0 but the compiler optimises"
#    endif
#    if C16_OPT != 0 && !defined(__OPTIMIZE__)
#        error "C16_OPT!=0 but the compiler does not optimise"
#    endif
#    if SIZE_BITS != 64
#        error "harness written for a 64-bit size_t"
#    endif

#    define C16_CAT2(a, b) a##b
#    define C16_CAT(a, b) C16_CAT2(a, b)
#    define C16_STR2(x) #x
#    define C16_STR(x) C16_STR2(x)

/* ---- thin wrappers */
#    define C16_THIN_SAT64(tag, fn, T)                                                                                 \
        static uint64_t thin_sat64_##tag(uint64_t a, uint64_t b) { return (uint64_t)fn((T)a, (T)b); }
#    define C16_THIN_CHK64(tag, fn, T)                                                                                 \
        static int thin_chk64_##tag(uint64_t a, uint64_t b, uint64_t *r) { return fn((T)a, (T)b, (T *)r); }
#    define C16_THIN_MM64(tag, fn, T)                                                                                  \
        static uint64_t thin_mm64_##tag(uint64_t a, uint64_t b) { return (uint64_t)(int64_t)fn((T)a, (T)b); }
#    define C16_THIN_MM64U(tag, fn, T)                                                                                 \
        static uint64_t thin_mm64_##tag(uint64_t a, uint64_t b) { return (uint64_t)fn((T)a, (T)b); }

C16_THIN_SAT64(add_u64, aws_add_u64_saturating, uint64_t)
C16_THIN_SAT64(mul_u64, aws_mul_u64_saturating, uint64_t)
C16_THIN_SAT64(sub_u64, aws_sub_u64_saturating, uint64_t)
C16_THIN_SAT64(add_size, aws_add_size_saturating, size_t)
C16_THIN_SAT64(mul_size, aws_mul_size_saturating, size_t)
C16_THIN_SAT64(sub_size, aws_sub_size_saturating, size_t)
C16_THIN_CHK64(add_u64, aws_add_u64_checked, uint64_t)
C16_THIN_CHK64(mul_u64, aws_mul_u64_checked, uint64_t)
C16_THIN_CHK64(sub_u64, aws_sub_u64_checked, uint64_t)
C16_THIN_CHK64(add_size, aws_add_size_checked, size_t)
C16_THIN_CHK64(mul_size, aws_mul_size_checked, size_t)
C16_THIN_CHK64(sub_size, aws_sub_size_checked, size_t)
C16_THIN_MM64U(min_u64, aws_min_u64, uint64_t)
C16_THIN_MM64U(max_u64, aws_max_u64, uint64_t)
C16_THIN_MM64(min_i64, aws_min_i64, int64_t)
C16_THIN_MM64(max_i64, aws_max_i64, int64_t)
C16_THIN_MM64U(min_size, aws_min_size, size_t)
C16_THIN_MM64U(max_size, aws_max_size, size_t)

static uint32_t thin_sat32_add(uint32_t a, uint32_t b) { return aws_add_u32_saturating(a, b); }
static uint32_t thin_sat32_mul(uint32_t a, uint32_t b) { return aws_mul_u32_saturating(a, b); }
static uint32_t thin_sat32_sub(uint32_t a, uint32_t b) { return aws_sub_u32_saturating(a, b); }
static int thin_chk32_add(uint32_t a, uint32_t b, uint32_t *r) { return aws_add_u32_checked(a, b, r); }
static int thin_chk32_mul(uint32_t a, uint32_t b, uint32_t *r) { return aws_mul_u32_checked(a, b, r); }
static int thin_chk32_sub(uint32_t a, uint32_t b, uint32_t *r) { return aws_sub_u32_checked(a, b, r); }
static uint32_t thin_mm32_min_u32(uint32_t a, uint32_t b) { return aws_min_u32(a, b); }
static uint32_t thin_mm32_max_u32(uint32_t a, uint32_t b) { return aws_max_u32(a, b); }
static uint32_t thin_mm32_min_i32(uint32_t a, uint32_t b) { return (uint32_t)aws_min_i32((int32_t)a, (int32_t)b); }
static uint32_t thin_mm32_max_i32(uint32_t a, uint32_t b) { return (uint32_t)aws_max_i32((int32_t)a, (int32_t)b); }
static uint32_t thin_mm32_min_int(uint32_t a, uint32_t b) { return (uint32_t)aws_min_int((int)a, (int)b); }
static uint32_t thin_mm32_max_int(uint32_t a, uint32_t b) { return (uint32_t)aws_max_int((int)a, (int)b); }

static uint64_t thin_clz_u32(uint64_t x) { return aws_clz_u32((uint32_t)x); }
static uint64_t thin_clz_i32(uint64_t x) { return aws_clz_i32((int32_t)(uint32_t)x); }
static uint64_t thin_clz_u64(uint64_t x) { return aws_clz_u64(x); }
static uint64_t thin_clz_i64(uint64_t x) { return aws_clz_i64((int64_t)x); }
static uint64_t thin_clz_size(uint64_t x) { return aws_clz_size((size_t)x); }
static uint64_t thin_ctz_u32(uint64_t x) { return aws_ctz_u32((uint32_t)x); }
static uint64_t thin_ctz_i32(uint64_t x) { return aws_ctz_i32((int32_t)(uint32_t)x); }
static uint64_t thin_ctz_u64(uint64_t x) { return aws_ctz_u64(x); }
static uint64_t thin_ctz_i64(uint64_t x) { return aws_ctz_i64((int64_t)x); }
static uint64_t thin_ctz_size(uint64_t x) { return aws_ctz_size((size_t)x); }
static int thin_is_pow2(uint64_t x) { return aws_is_power_of_two((size_t)x) ? 1 : 0; }
static int thin_round_up_pow2(uint64_t x, uint64_t *r) { return aws_round_up_to_power_of_two((size_t)x, (size_t *)r); }
static uint64_t thin_conv_u64(uint64_t t, uint64_t o, uint64_t n, uint64_t *rem) {
    return aws_timestamp_convert_u64(t, o, n, rem);
}
static uint64_t thin_conv_unit(uint64_t t, uint64_t from, uint64_t to, uint64_t *rem) {
    return aws_timestamp_convert(t, (enum aws_timestamp_unit)from, (enum aws_timestamp_unit)to, rem);
}

/* ---- pressure context */
#    define C16_KLIST(X) X(0) X(1) X(2) X(3) X(4) X(5) X(6) X(7) X(8) X(9) X(10)
#    define C16_KLOAD(i) uint64_t k##i = kin[i];
#    define C16_KSTORE(i) o->kout[i] = k##i;
#    define C16_KBAR                                                                                                   \
        "+r"(k0), "+r"(k1), "+r"(k2), "+r"(k3), "+r"(k4), "+r"(k5), "+r"(k6), "+r"(k7), "+r"(k8), "+r"(k9), "+r"(k10)
#    define C16_PRESS(tag, T, BODY)                                                                                    \
        static void press_##tag(uint64_t a_, uint64_t b_, uint64_t c_, const uint64_t *kin, struct c16_opress *o) {    \
            C16_KLIST(C16_KLOAD)                                                                                       \
            T a = (T)a_, b = (T)b_;                                                                                    \
            T val = (T)C16_SENTINEL64;                                                                                 \
            int rc = 0;                                                                                                \
            (void)c_;                                                                                                  \
            __asm__ volatile("" : C16_KBAR, "+r"(a), "+r"(b));                                                         \
            BODY;                                                                                                      \
            __asm__ volatile("" : C16_KBAR, "+r"(val), "+r"(rc));                                                      \
            C16_KLIST(C16_KSTORE)                                                                                      \
            o->val = (uint64_t)val;                                                                                    \
            o->rc = rc;                                                                                                \
        }
C16_PRESS(add_u64_sat, uint64_t, val = aws_add_u64_saturating(a, b))
C16_PRESS(add_u64_chk, uint64_t, rc = aws_add_u64_checked(a, b, &val))
C16_PRESS(mul_u64_sat, uint64_t, val = aws_mul_u64_saturating(a, b))
C16_PRESS(mul_u64_chk, uint64_t, rc = aws_mul_u64_checked(a, b, &val))
C16_PRESS(add_u32_sat, uint32_t, val = aws_add_u32_saturating(a, b))
C16_PRESS(add_u32_chk, uint32_t, rc = aws_add_u32_checked(a, b, &val))
C16_PRESS(mul_u32_sat, uint32_t, val = aws_mul_u32_saturating(a, b))
C16_PRESS(mul_u32_chk, uint32_t, rc = aws_mul_u32_checked(a, b, &val))
C16_PRESS(conv_u64, uint64_t, val = aws_timestamp_convert_u64(a, b, c_, NULL))

/* ---- block context */
static void blk64(const uint64_t *a, const uint64_t *b, size_t n, struct c16_o64 *o) {
    /* pure helpers first: no call in the loop body, so the optimiser is free to unroll and interleave */
    for (size_t i = 0; i < n; ++i) {
        uint64_t x = a[i], y = b[i];
        o[i].sat[S64_ADD_U64] = aws_add_u64_saturating(x, y);
        o[i].sat[S64_MUL_U64] = aws_mul_u64_saturating(x, y);
        o[i].sat[S64_SUB_U64] = aws_sub_u64_saturating(x, y);
        o[i].sat[S64_ADD_SIZE] = aws_add_size_saturating((size_t)x, (size_t)y);
        o[i].sat[S64_MUL_SIZE] = aws_mul_size_saturating((size_t)x, (size_t)y);
        o[i].sat[S64_SUB_SIZE] = aws_sub_size_saturating((size_t)x, (size_t)y);
        o[i].mm[M64_MIN_U64] = aws_min_u64(x, y);
        o[i].mm[M64_MAX_U64] = aws_max_u64(x, y);
        o[i].mm[M64_MIN_I64] = (uint64_t)aws_min_i64((int64_t)x, (int64_t)y);
        o[i].mm[M64_MAX_I64] = (uint64_t)aws_max_i64((int64_t)x, (int64_t)y);
        o[i].mm[M64_MIN_SIZE] = aws_min_size((size_t)x, (size_t)y);
        o[i].mm[M64_MAX_SIZE] = aws_max_size((size_t)x, (size_t)y);
    }
#    define C16_CHK64(ix, fn, T)                                                                                       \
        do {                                                                                                           \
            T r_ = (T)C16_SENTINEL64;                                                                                  \
            aws_reset_error();                                                                                         \
            o[i].rc[ix] = fn((T)x, (T)y, &r_);                                                                         \
            o[i].err[ix] = aws_last_error();                                                                           \
            o[i].out[ix] = (uint64_t)r_;                                                                               \
        } while (0)
    for (size_t i = 0; i < n; ++i) {
        uint64_t x = a[i], y = b[i];
        C16_CHK64(S64_ADD_U64, aws_add_u64_checked, uint64_t);
        C16_CHK64(S64_MUL_U64, aws_mul_u64_checked, uint64_t);
        C16_CHK64(S64_SUB_U64, aws_sub_u64_checked, uint64_t);
        C16_CHK64(S64_ADD_SIZE, aws_add_size_checked, size_t);
        C16_CHK64(S64_MUL_SIZE, aws_mul_size_checked, size_t);
        C16_CHK64(S64_SUB_SIZE, aws_sub_size_checked, size_t);
    }
}

/* ---- literal context: the same body as blk64 with one operand a constant expression */
#    define C16_LIT_BODY(x, y, oo)                                                                                      \
        do {                                                                                                           \
            (oo)->sat[S64_ADD_U64] = aws_add_u64_saturating(x, y);                                                     \
            (oo)->sat[S64_MUL_U64] = aws_mul_u64_saturating(x, y);                                                     \
            (oo)->sat[S64_SUB_U64] = aws_sub_u64_saturating(x, y);                                                     \
            (oo)->sat[S64_ADD_SIZE] = aws_add_size_saturating((size_t)(x), (size_t)(y));                               \
            (oo)->sat[S64_MUL_SIZE] = aws_mul_size_saturating((size_t)(x), (size_t)(y));                               \
            (oo)->sat[S64_SUB_SIZE] = aws_sub_size_saturating((size_t)(x), (size_t)(y));                               \
            (oo)->mm[M64_MIN_U64] = aws_min_u64(x, y);                                                                 \
            (oo)->mm[M64_MAX_U64] = aws_max_u64(x, y);                                                                 \
            (oo)->mm[M64_MIN_I64] = (uint64_t)aws_min_i64((int64_t)(x), (int64_t)(y));                                 \
            (oo)->mm[M64_MAX_I64] = (uint64_t)aws_max_i64((int64_t)(x), (int64_t)(y));                                 \
            (oo)->mm[M64_MIN_SIZE] = aws_min_size((size_t)(x), (size_t)(y));                                           \
            (oo)->mm[M64_MAX_SIZE] = aws_max_size((size_t)(x), (size_t)(y));                                           \
            C16_LIT_CHK(S64_ADD_U64, aws_add_u64_checked, uint64_t, x, y, oo);                                         \
            C16_LIT_CHK(S64_MUL_U64, aws_mul_u64_checked, uint64_t, x, y, oo);                                         \
            C16_LIT_CHK(S64_SUB_U64, aws_sub_u64_checked, uint64_t, x, y, oo);                                         \
            C16_LIT_CHK(S64_ADD_SIZE, aws_add_size_checked, size_t, x, y, oo);                                         \
            C16_LIT_CHK(S64_MUL_SIZE, aws_mul_size_checked, size_t, x, y, oo);                                         \
            C16_LIT_CHK(S64_SUB_SIZE, aws_sub_size_checked, size_t, x, y, oo);                                         \
        } while (0)
#    define C16_LIT_CHK(ix, fn, T, x, y, oo)                                                                           \
        do {                                                                                                           \
            T r_ = (T)C16_SENTINEL64;                                                                                  \
            aws_reset_error();                                                                                         \
            (oo)->rc[ix] = fn((T)(x), (T)(y), &r_);                                                                    \
            (oo)->err[ix] = aws_last_error();                                                                          \
            (oo)->out[ix] = (uint64_t)r_;                                                                              \
        } while (0)
#    define C16_LITFN(idx, K)                                                                                          \
        static void lit64_##idx(const uint64_t *a, size_t n, struct c16_o64 *o) {                                      \
            for (size_t i = 0; i < n; ++i) {                                                                           \
                uint64_t x = a[i];                                                                                     \
                C16_LIT_BODY(x, K, &o[2 * i]);                                                                         \
                C16_LIT_BODY(K, x, &o[2 * i + 1]);                                                                     \
            }                                                                                                          \
        }
C16_LITS(C16_LITFN)
#    define C16_LITREF_(idx, K) lit64_##idx,

static void blk32(const uint32_t *a, const uint32_t *b, size_t n, struct c16_o32 *o) {
    for (size_t i = 0; i < n; ++i) {
        uint32_t x = a[i], y = b[i];
        o[i].sat[S32_ADD_U32] = aws_add_u32_saturating(x, y);
        o[i].sat[S32_MUL_U32] = aws_mul_u32_saturating(x, y);
        o[i].sat[S32_SUB_U32] = aws_sub_u32_saturating(x, y);
        o[i].mm[M32_MIN_U32] = aws_min_u32(x, y);
        o[i].mm[M32_MAX_U32] = aws_max_u32(x, y);
        o[i].mm[M32_MIN_I32] = (uint32_t)aws_min_i32((int32_t)x, (int32_t)y);
        o[i].mm[M32_MAX_I32] = (uint32_t)aws_max_i32((int32_t)x, (int32_t)y);
        o[i].mm[M32_MIN_INT] = (uint32_t)aws_min_int((int)x, (int)y);
        o[i].mm[M32_MAX_INT] = (uint32_t)aws_max_int((int)x, (int)y);
    }
#    define C16_CHK32(ix, fn)                                                                                          \
        do {                                                                                                           \
            uint32_t r_ = C16_SENTINEL32;                                                                              \
            aws_reset_error();                                                                                         \
            o[i].rc[ix] = fn(x, y, &r_);                                                                               \
            o[i].err[ix] = aws_last_error();                                                                           \
            o[i].out[ix] = r_;                                                                                         \
        } while (0)
    for (size_t i = 0; i < n; ++i) {
        uint32_t x = a[i], y = b[i];
        C16_CHK32(S32_ADD_U32, aws_add_u32_checked);
        C16_CHK32(S32_MUL_U32, aws_mul_u32_checked);
        C16_CHK32(S32_SUB_U32, aws_sub_u32_checked);
    }
}

static void blksmall(const uint64_t *a, const uint64_t *b, const float *fa, const float *fb, const double *da,
                     const double *db, size_t n, struct c16_osmall *o) {
    for (size_t i = 0; i < n; ++i) {
        uint64_t x = a[i], y = b[i];
        uint8_t x8 = (uint8_t)(x >> 16), y8 = (uint8_t)(y >> 16);
        o[i].mm[MS_MIN_U8] = aws_min_u8(x8, y8);
        o[i].mm[MS_MAX_U8] = aws_max_u8(x8, y8);
        o[i].mm[MS_MIN_I8] = (uint16_t)(int16_t)aws_min_i8((int8_t)x8, (int8_t)y8);
        o[i].mm[MS_MAX_I8] = (uint16_t)(int16_t)aws_max_i8((int8_t)x8, (int8_t)y8);
        o[i].mm[MS_MIN_U16] = aws_min_u16((uint16_t)x, (uint16_t)y);
        o[i].mm[MS_MAX_U16] = aws_max_u16((uint16_t)x, (uint16_t)y);
        o[i].mm[MS_MIN_I16] = (uint16_t)aws_min_i16((int16_t)(uint16_t)x, (int16_t)(uint16_t)y);
        o[i].mm[MS_MAX_I16] = (uint16_t)aws_max_i16((int16_t)(uint16_t)x, (int16_t)(uint16_t)y);
        o[i].fmin = aws_min_float(fa[i], fb[i]);
        o[i].fmax = aws_max_float(fa[i], fb[i]);
        o[i].dmin = aws_min_double(da[i], db[i]);
        o[i].dmax = aws_max_double(da[i], db[i]);
    }
}

static void blkunary(const uint64_t *xs, size_t n, struct c16_ounary *o) {
    for (size_t i = 0; i < n; ++i) {
        uint64_t x = xs[i];
        o[i].cnt[U_CLZ_U32] = aws_clz_u32((uint32_t)x);
        o[i].cnt[U_CLZ_I32] = aws_clz_i32((int32_t)(uint32_t)x);
        o[i].cnt[U_CLZ_U64] = aws_clz_u64(x);
        o[i].cnt[U_CLZ_I64] = aws_clz_i64((int64_t)x);
        o[i].cnt[U_CLZ_SIZE] = aws_clz_size((size_t)x);
        o[i].cnt[U_CTZ_U32] = aws_ctz_u32((uint32_t)x);
        o[i].cnt[U_CTZ_I32] = aws_ctz_i32((int32_t)(uint32_t)x);
        o[i].cnt[U_CTZ_U64] = aws_ctz_u64(x);
        o[i].cnt[U_CTZ_I64] = aws_ctz_i64((int64_t)x);
        o[i].cnt[U_CTZ_SIZE] = aws_ctz_size((size_t)x);
        o[i].is_pow2 = aws_is_power_of_two((size_t)x) ? 1 : 0;
    }
    for (size_t i = 0; i < n; ++i) {
        size_t r_ = (size_t)C16_SENTINEL64;
        aws_reset_error();
        o[i].rup_rc = aws_round_up_to_power_of_two((size_t)xs[i], &r_);
        o[i].rup_err = aws_last_error();
        o[i].rup_out = (uint64_t)r_;
    }
}

static void blkconv(const uint64_t *t, const uint64_t *old_f, const uint64_t *new_f, size_t n, int unit,
                    struct c16_oconv *o) {
    if (unit) {
        for (size_t i = 0; i < n; ++i) {
            uint64_t rem = 0;
            o[i].res_null = aws_timestamp_convert(
                t[i], (enum aws_timestamp_unit)old_f[i], (enum aws_timestamp_unit)new_f[i], NULL);
            o[i].res_rem = aws_timestamp_convert(
                t[i], (enum aws_timestamp_unit)old_f[i], (enum aws_timestamp_unit)new_f[i], &rem);
            o[i].rem = rem;
        }
    } else {
        for (size_t i = 0; i < n; ++i) {
            uint64_t rem = 0;
            o[i].res_null = aws_timestamp_convert_u64(t[i], old_f[i], new_f[i], NULL);
            o[i].res_rem = aws_timestamp_convert_u64(t[i], old_f[i], new_f[i], &rem);
            o[i].rem = rem;
        }
    }
}

const struct c16_variant C16_CAT(c16_variant_, C16_VARIANT_NAME) = {
    .name = C16_STR(C16_VARIANT_NAME),
    .what = C16_VARIANT_WHAT,
    .opt_level = C16_OPT,
    .sat64 = {thin_sat64_add_u64, thin_sat64_mul_u64, thin_sat64_sub_u64, thin_sat64_add_size, thin_sat64_mul_size,
              thin_sat64_sub_size},
    .chk64 = {thin_chk64_add_u64, thin_chk64_mul_u64, thin_chk64_sub_u64, thin_chk64_add_size, thin_chk64_mul_size,
              thin_chk64_sub_size},
    .mm64 = {thin_mm64_min_u64, thin_mm64_max_u64, thin_mm64_min_i64, thin_mm64_max_i64, thin_mm64_min_size,
             thin_mm64_max_size},
    .sat32 = {thin_sat32_add, thin_sat32_mul, thin_sat32_sub},
    .chk32 = {thin_chk32_add, thin_chk32_mul, thin_chk32_sub},
    .mm32 = {thin_mm32_min_u32, thin_mm32_max_u32, thin_mm32_min_i32, thin_mm32_max_i32, thin_mm32_min_int,
             thin_mm32_max_int},
    .unary = {thin_clz_u32, thin_clz_i32, thin_clz_u64, thin_clz_i64, thin_clz_size, thin_ctz_u32, thin_ctz_i32,
              thin_ctz_u64, thin_ctz_i64, thin_ctz_size},
    .is_pow2 = thin_is_pow2,
    .round_up_pow2 = thin_round_up_pow2,
    .conv_u64 = thin_conv_u64,
    .conv_unit = thin_conv_unit,
    .press = {press_add_u64_sat, press_add_u64_chk, press_mul_u64_sat, press_mul_u64_chk, press_add_u32_sat,
              press_add_u32_chk, press_mul_u32_sat, press_mul_u32_chk, press_conv_u64},
    .lit64 = {C16_LITS(C16_LITREF_)},
    .blk64 = blk64,
    .blk32 = blk32,
    .blksmall = blksmall,
    .blkunary = blkunary,
    .blkconv = blkconv,
};

#endif /* C16_VARIANT_NAME */
#endif /* C16_VARIANT_H */
