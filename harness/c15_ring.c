/*
 * C15 - ring buffer (DESIGN.md section 5, C15)
 *   --mode seq   sequential FIFO histories, interval oracle
 *   --mode conc  one acquirer thread + one releaser thread, forward-only harness synchronisation;
 *                overlap oracle from release_started, fill patterns, TSan on the library's only
 *                reverse happens-before edge (tail release-store / acquire-load)
 */
#include "mon.h"
#include "perturb.h"

#include <aws/common/byte_buf.h>
#include <aws/common/common.h>
#include <aws/common/error.h>
#include <aws/common/ring_buffer.h>

#include <pthread.h>
#include <sched.h>
#include <stdlib.h>
#include <time.h>

enum { F_WRAPPED_ACQ, F_RESET_ACQ, F_UPTO_PARTIAL, F_FAIL_FRAGMENTED, F_FULL_AFTER_DRAIN, F_EXACT_FULL, F_TAIL_SPACE, F_OVERSIZE_REFUSED,
       F_RELEASE_DURING_ACQUIRE, F_ACQUIRER_WAITED, F_RELEASER_WAITED, F_EMPTY_SEEN, F_UPTO_HUGE, F_HUGE_RING, F_UPTO_MIN_ABOVE_RING };

static const size_t RING_SIZES[] = {1, 2, 3, 7, 16, 64, 100, 255, 4096};
#define N_RING_SIZES (sizeof(RING_SIZES) / sizeof(RING_SIZES[0]))

static uint8_t pat(uint64_t index, size_t off) {
    return (uint8_t)(index * 131 + off * 7 + (index >> 8) + 1);
}

static size_t pick_request(struct mon_rng *r, size_t ring) {
    switch (mon_below(r, 9)) {
        case 0:
            return 1;
        case 1:
            return ring;
        case 2:
            return ring > 1 ? ring - 1 : 1;
        case 3:
            return ring / 2 ? ring / 2 : 1;
        case 4:
            return ring / 2 + 1 <= ring ? ring / 2 + 1 : ring;
        case 5:
            return ring / 2 > 1 ? ring / 2 - 1 : 1;
        case 6:
            return 1 + (size_t)mon_below(r, ring < 4 ? ring : 4);
        default:
            return 1 + (size_t)mon_below(r, ring);
    }
}

/* ================================================================== sequential */
#define SEQ_MAX_OUT 4200

struct outbuf {
    uint8_t *ptr;
    size_t cap;
    uint64_t index;
};

/* ------------------------------------------------------------------ rings of 4 GiB and more
 * The storage comes from an allocator that reserves address space only (mmap, MAP_NORESERVE) and records what the ring
 * asked for: every buffer the ring hands out must lie inside the block it obtained, i.e. the block must be as large as
 * the ring. Only a handful of bytes at the ends of each buffer are touched. */
#include <sys/mman.h>
static struct {
    void *addr;
    size_t len;
    int acquires, releases;
} s_big;

static void *big_acquire(struct aws_allocator *a, size_t size) {
    (void)a;
    if (s_big.addr) {
        return NULL; /* one block per ring */
    }
    void *p = mmap(NULL, size, PROT_READ | PROT_WRITE, MAP_PRIVATE | MAP_ANONYMOUS | MAP_NORESERVE, -1, 0);
    if (p == MAP_FAILED) {
        return NULL;
    }
    s_big.addr = p;
    s_big.len = size;
    ++s_big.acquires;
    return p;
}

static void big_release(struct aws_allocator *a, void *p) {
    (void)a;
    if (p && p == s_big.addr) {
        munmap(p, s_big.len);
        s_big.addr = NULL;
        ++s_big.releases;
    }
}

static struct aws_allocator s_big_alloc = {.mem_acquire = big_acquire, .mem_release = big_release, .mem_realloc = NULL, .mem_calloc = NULL, .impl = NULL};

static void huge_case(void) {
    struct mon_rng *r = &mon_case_rng;
    static const size_t SIZES[] = {((size_t)1 << 32) + 40, ((size_t)1 << 32) + 4097, ((size_t)3 << 31) + 102400, ((size_t)1 << 32), ((size_t)1 << 33) + 1,
                                   ((size_t)1 << 32) - 1};
    size_t ring = SIZES[mon_below(r, sizeof(SIZES) / sizeof(SIZES[0]))];
    mon_fp(0xB16);
    mon_fp(ring);
    memset(&s_big, 0, sizeof(s_big));
    /* probe: can this machine reserve that much address space at all? */
    void *probe = mmap(NULL, ring + 8, PROT_READ | PROT_WRITE, MAP_PRIVATE | MAP_ANONYMOUS | MAP_NORESERVE, -1, 0);
    if (probe == MAP_FAILED) {
        mon_count("huge_ring_skipped_no_address_space", 1);
        return;
    }
    munmap(probe, ring + 8);
    struct aws_ring_buffer rb;
    if (aws_ring_buffer_init(&rb, &s_big_alloc, ring)) {
        mon_violation("C15:init", "aws_ring_buffer_init(%zu) failed although the address space is available", ring);
        return;
    }
    if (s_big.len < ring) {
        mon_violation("C15:huge:storage-smaller-than-ring", "ring of %zu bytes obtained a block of only %zu bytes from its allocator", ring, s_big.len);
    }
    if ((size_t)(rb.allocation_end - rb.allocation) != ring) {
        mon_violation("C15:huge:size", "ring of %zu bytes: allocation_end - allocation = %zu", ring, (size_t)(rb.allocation_end - rb.allocation));
    }
    struct aws_byte_buf held[8];
    int nheld = 0;
    uint64_t v0 = mon_violations();
    for (int k = 0; k < 6 && mon_violations() == v0; ++k) {
        size_t req;
        switch (mon_below(r, 5)) {
            case 0: req = 1 + (size_t)mon_below(r, 4096); break;
            case 1: req = ((size_t)1 << 31) + (size_t)mon_below(r, 4096); break;
            case 2: req = ring / 2; break;
            case 3: req = ring - 1 - (size_t)mon_below(r, 64); break;
            default: req = ((size_t)1 << 32) + (size_t)mon_below(r, 16); break;
        }
        struct aws_byte_buf dest;
        AWS_ZERO_STRUCT(dest);
        bool upto = mon_chance(r, 1, 3);
        int rc = upto ? aws_ring_buffer_acquire_up_to(&rb, 1, req, &dest) : aws_ring_buffer_acquire(&rb, req, &dest);
        if (rc) {
            if (nheld == 0 && req <= ring) {
                mon_violation("C15:seq:refused-when-empty", "ring=%zu, nothing outstanding: acquire(%zu) failed", ring, req);
            }
            /* release the oldest and go on */
            if (nheld) {
                aws_ring_buffer_release(&rb, &held[0]);
                memmove(&held[0], &held[1], sizeof(held[0]) * (size_t)(--nheld));
            }
            continue;
        }
        uint8_t *lo = (uint8_t *)s_big.addr, *hi = lo + s_big.len;
        if (dest.buffer < lo || dest.capacity > s_big.len || dest.buffer + dest.capacity > hi) {
            mon_violation("C15:huge:outside-storage", "ring=%zu (block of %zu bytes): buffer [%td,+%zu) lies outside the block the ring obtained", ring, s_big.len,
                          dest.buffer - lo, dest.capacity);
            break;
        }
        if ((!upto && dest.capacity != req) || (upto && (dest.capacity < 1 || dest.capacity > req))) {
            mon_violation("C15:seq:size", "ring=%zu: %s(%zu) returned capacity %zu", ring, upto ? "acquire_up_to" : "acquire", req, dest.capacity);
        }
        for (int j = 0; j < nheld; ++j) {
            if (dest.buffer < held[j].buffer + held[j].capacity && held[j].buffer < dest.buffer + dest.capacity) {
                mon_violation("C15:seq:overlap", "ring=%zu: new buffer [%td,+%zu) overlaps an unreleased one [%td,+%zu)", ring, dest.buffer - lo, dest.capacity,
                              held[j].buffer - lo, held[j].capacity);
            }
        }
        dest.buffer[0] = 0x5A;
        dest.buffer[dest.capacity - 1] = 0xA5;
        if (nheld < 8) {
            held[nheld++] = dest;
        }
        if (mon_chance(r, 1, 2) && nheld) {
            aws_ring_buffer_release(&rb, &held[0]);
            memmove(&held[0], &held[1], sizeof(held[0]) * (size_t)(--nheld));
        }
    }
    aws_ring_buffer_clean_up(&rb);
    if (s_big.acquires != 1 || s_big.releases != 1) {
        mon_violation("C15:huge:allocator-balance", "ring of %zu bytes: %d blocks obtained, %d given back", ring, s_big.acquires, s_big.releases);
    }
    mon_flag(F_HUGE_RING);
    mon_count("huge_rings_4GiB_and_more", 1);
}

static void seq_case(void) {
    struct mon_rng *r = &mon_case_rng;
    size_t ring = RING_SIZES[mon_below(r, N_RING_SIZES)];
    if (mon_chance(r, 1, 5)) {
        ring = 1 + (size_t)mon_below(r, 300);
    }
    mon_fp(ring);
    struct aws_ring_buffer rb;
    if (aws_ring_buffer_init(&rb, mon_guard_allocator(), ring)) {
        mon_violation("C15:init", "aws_ring_buffer_init(%zu) failed", ring);
        return;
    }
    mon_sample("ring=%zu:", ring);
    static struct outbuf out[SEQ_MAX_OUT];
    size_t head = 0, tail = 0; /* FIFO of outstanding: [tail, head) modulo array (never wraps: ops bounded) */
    uint64_t next_index = 0;
    size_t nops = 20 + (size_t)mon_below(r, 400);
    for (size_t op = 0; op < nops && mon_violations() < 5; ++op) {
        unsigned pick = (unsigned)mon_below(r, 100);
        size_t outstanding = head - tail;
        if (pick < 55 && head < SEQ_MAX_OUT) {
            bool upto = mon_chance(r, 2, 5);
            size_t req = pick_request(r, ring);
            bool oversize = false;
            if (mon_chance(r, 1, 25)) {
                req = ring + 1 + (size_t)mon_below(r, 3);
                oversize = true;
            }
            bool huge = false;
            if (mon_chance(r, 1, 12)) {
                /* "whatever is left": requests far beyond the ring, up to SIZE_MAX (request + 1 wraps) */
                static const size_t HUGE_REQ[] = {SIZE_MAX, SIZE_MAX - 1, SIZE_MAX / 2 + 1, SIZE_MAX / 2, (size_t)1 << 32};
                req = mon_chance(r, 1, 2) ? SIZE_MAX : HUGE_REQ[mon_below(r, 5)];
                huge = true;
                oversize = !upto;
            }
            size_t minimum = req;
            if (upto) {
                minimum = 1 + (size_t)mon_below(r, req < ring ? req : ring);
                if (huge) {
                    mon_flag(F_UPTO_HUGE);
                }
            }
            if (mon_chance(r, 1, 16)) {
                /* an up-to request whose MINIMUM cannot be met even by the empty ring: must be refused and must leave the
                 * ring as it was (what follows is judged as usual) */
                upto = true;
                minimum = ring + 1 + (size_t)mon_below(r, 4);
                if (mon_chance(r, 1, 3)) {
                    /* minimum with the top bit set (an underflowed length), an exact-or-nothing request */
                    static const size_t TOP[] = {SIZE_MAX, SIZE_MAX - 7, (size_t)1 << 63, ((size_t)1 << 63) + 4096, (size_t)3 << 62, SIZE_MAX / 2 + 1, SIZE_MAX / 2, (size_t)1 << 62};
                    minimum = TOP[mon_below(r, sizeof(TOP) / sizeof(TOP[0]))];
                }
                req = mon_chance(r, 1, 3) ? SIZE_MAX : minimum + (size_t)mon_below(r, 4);
                if (req < minimum) {
                    req = minimum; /* the sum wrapped */
                }
                oversize = true;
                mon_flag(F_UPTO_MIN_ABOVE_RING);
            }
            mon_fp(upto ? 2 : 1);
            mon_fp(req);
            mon_fp(minimum);
            struct aws_byte_buf dest;
            AWS_ZERO_STRUCT(dest);
            mon_poison_last_error(&mon_case_rng);
            int rc = upto ? aws_ring_buffer_acquire_up_to(&rb, minimum, req, &dest) : aws_ring_buffer_acquire(&rb, req, &dest);
            mon_sample(" %s(%zu%s%zu)%s", upto ? "upto" : "acq", minimum, upto ? ".." : "/", req, rc ? "=ERR" : "");
            if (rc == AWS_OP_SUCCESS) {
                uint8_t *p = dest.buffer;
                size_t cap = dest.capacity;
                if (!p || cap > ring || p < rb.allocation || p + cap > rb.allocation_end) {
                    mon_violation("C15:seq:outside-ring", "ring=%zu: buffer [%td,+%zu) lies outside the ring storage", ring,
                                  p ? p - rb.allocation : -1, cap);
                    break;
                }
                if (upto) {
                    if (cap < minimum || cap > req) {
                        mon_violation("C15:seq:size", "acquire_up_to(min %zu, req %zu) returned capacity %zu", minimum, req, cap);
                    }
                    if (cap < req) {
                        mon_flag(F_UPTO_PARTIAL);
                    }
                } else if (cap != req) {
                    mon_violation("C15:seq:size", "acquire(%zu) returned capacity %zu", req, cap);
                }
                MON_CHECK(dest.len == 0, "C15:seq:size", "acquired buffer has len %zu", dest.len);
                {
                    uint8_t foreign[4];
                    struct aws_byte_buf fb = aws_byte_buf_from_empty_array(foreign, sizeof(foreign));
                    MON_CHECK(aws_ring_buffer_buf_belongs_to_pool(&rb, &dest), "C15:seq:belongs-to-pool", "acquired buffer [%td,+%zu) is reported as not belonging to the ring",
                              p - rb.allocation, cap);
                    MON_CHECK(!aws_ring_buffer_buf_belongs_to_pool(&rb, &fb), "C15:seq:belongs-to-pool", "a buffer on the caller's stack is reported as belonging to the ring%s", "");
                }
                for (size_t j = tail; j < head; ++j) {
                    if (p < out[j].ptr + out[j].cap && out[j].ptr < p + cap) {
                        mon_violation("C15:seq:overlap",
                                      "ring=%zu: new buffer [%td,+%zu) overlaps unreleased buffer #%llu [%td,+%zu) (%zu outstanding)", ring,
                                      p - rb.allocation, cap, (unsigned long long)out[j].index, out[j].ptr - rb.allocation, out[j].cap,
                                      outstanding);
                        break;
                    }
                }
                if (outstanding > 0 && p == rb.allocation) {
                    mon_flag(F_WRAPPED_ACQ);
                    if (out[head - 1].ptr + out[head - 1].cap != rb.allocation_end) {
                        mon_flag(F_TAIL_SPACE);
                    }
                }
                if (outstanding == 0 && next_index > 0) {
                    mon_flag(F_RESET_ACQ);
                }
                if (cap == ring) {
                    mon_flag(F_EXACT_FULL);
                }
                for (size_t k = 0; k < cap; ++k) {
                    p[k] = pat(next_index, k);
                }
                out[head].ptr = p;
                out[head].cap = cap;
                out[head].index = next_index++;
                ++head;
            } else {
                int err = aws_last_error();
                if (outstanding == 0 && minimum <= ring) {
                    mon_violation("C15:seq:refused-when-empty", "ring=%zu, nothing outstanding: %s(min %zu, req %zu) failed (error %d)", ring,
                                  upto ? "acquire_up_to" : "acquire", minimum, req, err);
                }
                MON_CHECK(err == AWS_ERROR_OOM, "C15:seq:error-code", "failed acquire raised %d, expected AWS_ERROR_OOM", err);
                MON_CHECK(dest.buffer == NULL && dest.capacity == 0, "C15:seq:failed-acquire-wrote-dest", "failed acquire changed dest");
                if (oversize) {
                    mon_flag(F_OVERSIZE_REFUSED);
                } else if (outstanding > 0) {
                    mon_flag(F_FAIL_FRAGMENTED);
                    mon_count("seq_failures_while_outstanding(not judged)", 1);
                }
            }
            if (oversize && rc == AWS_OP_SUCCESS && !upto) {
                mon_violation("C15:seq:oversize-granted", "ring=%zu: acquire(%zu) succeeded", ring, req);
            }
            if (upto && minimum > ring && rc == AWS_OP_SUCCESS) {
                mon_violation("C15:seq:oversize-granted", "ring=%zu: acquire_up_to(min %zu, req %zu) succeeded", ring, minimum, req);
            }
        } else if (outstanding > 0) {
            /* release the oldest */
            struct outbuf *o = &out[tail];
            for (size_t k = 0; k < o->cap; ++k) {
                if (o->ptr[k] != pat(o->index, k)) {
                    mon_violation("C15:seq:pattern", "ring=%zu: unreleased buffer #%llu damaged at offset %zu", ring,
                                  (unsigned long long)o->index, k);
                    break;
                }
            }
            struct aws_byte_buf b = aws_byte_buf_from_empty_array(o->ptr, o->cap);
            mon_fp(3);
            mon_sample(" rel");
            aws_ring_buffer_release(&rb, &b);
            MON_CHECK(b.buffer == NULL && b.capacity == 0, "C15:seq:release-zeroes-buf", "release did not zero the byte_buf");
            ++tail;
            if (head == tail) {
                mon_flag(F_EMPTY_SEEN);
            }
        }
        MON_CHECK(aws_ring_buffer_is_valid(&rb), "C15:seq:is-valid", "aws_ring_buffer_is_valid false");
    }
    /* drain, then the full capacity must be available again */
    while (tail < head) {
        struct aws_byte_buf b = aws_byte_buf_from_empty_array(out[tail].ptr, out[tail].cap);
        aws_ring_buffer_release(&rb, &b);
        ++tail;
    }
    struct aws_byte_buf full;
    AWS_ZERO_STRUCT(full);
    if (aws_ring_buffer_acquire(&rb, ring, &full) != AWS_OP_SUCCESS) {
        mon_violation("C15:seq:full-after-drain", "ring=%zu: after releasing everything acquire(%zu) failed", ring, ring);
    } else {
        mon_flag(F_FULL_AFTER_DRAIN);
        MON_CHECK(full.buffer == rb.allocation && full.capacity == ring, "C15:seq:full-after-drain", "full acquire returned [%td,+%zu)",
                  full.buffer - rb.allocation, full.capacity);
        aws_ring_buffer_release(&rb, &full);
    }
    mon_count("seq_acquisitions", next_index);
    aws_ring_buffer_clean_up(&rb);
}

/* ================================================================== concurrent */
struct desc {
    uint8_t *ptr;
    size_t cap;
};

static struct {
    struct aws_ring_buffer rb;
    size_t ring;
    struct desc *descs;
    uint64_t n_total;
    uint64_t published;       /* acquirer -> releaser, release/acquire (forward sync) */
    uint64_t release_started; /* releaser -> acquirer, RELAXED under TSan (adds no happens-before) */
    uint64_t release_done;
    uint64_t lag_profile;
    uint64_t seed;
    int releaser_failed;
    uint64_t releaser_waits;
} g;

#if defined(__SANITIZE_THREAD__)
#    define BACK_ORDER_LOAD __ATOMIC_RELAXED
#    define BACK_ORDER_STORE __ATOMIC_RELAXED
#    define UNDER_TSAN 1
#else
#    define BACK_ORDER_LOAD __ATOMIC_ACQUIRE
#    define BACK_ORDER_STORE __ATOMIC_RELEASE
#    define UNDER_TSAN 0
#endif

static void *releaser_main(void *arg) {
    (void)arg;
    perturb_bind(1);
    struct mon_rng rr;
    mon_rng_seed(&rr, g.seed, 0xC15, 2);
    uint64_t waits = 0;
    for (uint64_t i = 0; i < g.n_total; ++i) {
        uint64_t spins = 0;
        while (__atomic_load_n(&g.published, __ATOMIC_ACQUIRE) <= i) {
            if (__atomic_load_n(&g.releaser_failed, __ATOMIC_RELAXED) == 2) {
                return NULL; /* acquirer gave up */
            }
            ++waits;
            ++spins;
            if (spins > 512) {
                struct timespec ts = {0, 3000};
                nanosleep(&ts, NULL);
            } else if (spins > 64) {
                sched_yield();
            }
        }
        /* lag profiles: 0 eager, 1 one behind, 2 bursty */
        if (g.lag_profile == 1) {
            while (__atomic_load_n(&g.published, __ATOMIC_ACQUIRE) <= i + 1 && __atomic_load_n(&g.published, __ATOMIC_ACQUIRE) < g.n_total &&
                   spins++ < 2000) {
                sched_yield();
            }
        } else if (g.lag_profile == 2 && (mon_rand(&rr) & 15) == 0) {
            struct timespec ts = {0, (long)(1000 + mon_below(&rr, 200000))};
            nanosleep(&ts, NULL);
        }
        struct desc d = g.descs[i];
        for (size_t k = 0; k < d.cap; ++k) {
            if (d.ptr[k] != pat(i, k)) {
                mon_violation("C15:conc:pattern", "ring=%zu: buffer #%llu [%td,+%zu) damaged at offset %zu before its release (got %02x want %02x)",
                              g.ring, (unsigned long long)i, d.ptr - g.rb.allocation, d.cap, k, d.ptr[k], pat(i, k));
                __atomic_store_n(&g.releaser_failed, 1, __ATOMIC_RELAXED);
                break;
            }
        }
        __atomic_store_n(&g.release_started, i + 1, BACK_ORDER_STORE);
        struct aws_byte_buf b = aws_byte_buf_from_empty_array(d.ptr, d.cap);
        aws_ring_buffer_release(&g.rb, &b);
        __atomic_store_n(&g.release_done, i + 1, BACK_ORDER_STORE);
    }
    g.releaser_waits = waits;
    return NULL;
}

static void conc_case(uint64_t case_idx) {
    struct mon_rng *r = &mon_case_rng;
    size_t ring = RING_SIZES[mon_below(r, N_RING_SIZES)];
    if (mon_chance(r, 1, 6)) {
        ring = 2 + (size_t)mon_below(r, 40);
    }
    uint64_t n_total = (uint64_t)(mon_run.param[0] > 0 ? mon_run.param[0] : 4000);
    n_total = n_total / 2 + mon_below(r, n_total / 2 + 1);
    int prof_idx = (int)mon_below(r, (uint64_t)perturb_nprofiles());
    memset(&g, 0, sizeof(g));
    g.ring = ring;
    g.n_total = n_total;
    g.lag_profile = mon_below(r, 3);
    g.seed = mon_rand(r);
    g.descs = calloc(n_total + 1, sizeof(struct desc));
    mon_fp(ring);
    mon_fp(n_total);
    mon_fp((uint64_t)prof_idx);
    mon_fp(g.lag_profile);
    if (aws_ring_buffer_init(&g.rb, mon_guard_allocator(), ring)) {
        mon_violation("C15:init", "aws_ring_buffer_init(%zu) failed", ring);
        free(g.descs);
        return;
    }
    struct perturb_profile prof;
    perturb_get_profile(prof_idx, &prof);
    perturb_begin(g.seed, &prof);
    perturb_bind(0);
    pthread_t rel;
    if (pthread_create(&rel, NULL, releaser_main, NULL)) {
        fprintf(stderr, "mon: pthread_create failed\n");
        exit(2);
    }
    uint64_t fails = 0, during = 0, wrapped = 0, reset = 0, partial = 0, empty_checks = 0;
    struct timespec t0;
    clock_gettime(CLOCK_MONOTONIC, &t0);
    bool gave_up = false;
    for (uint64_t k = 0; k < n_total && !gave_up; ++k) {
        bool upto = mon_chance(r, 1, 3);
        size_t req = pick_request(r, ring);
        size_t minimum = upto ? 1 + (size_t)mon_below(r, req) : req;
        if (upto && mon_chance(r, 1, 10)) {
            req = mon_chance(r, 1, 2) ? SIZE_MAX : SIZE_MAX / 2 + 1; /* "whatever is left" */
            mon_flag(F_UPTO_HUGE);
        }
        struct aws_byte_buf dest;
        uint64_t spins = 0;
        for (;;) {
            AWS_ZERO_STRUCT(dest);
            uint64_t done_before = __atomic_load_n(&g.release_done, BACK_ORDER_LOAD);
            int rc = upto ? aws_ring_buffer_acquire_up_to(&g.rb, minimum, req, &dest) : aws_ring_buffer_acquire(&g.rb, req, &dest);
            uint64_t done_after = __atomic_load_n(&g.release_done, __ATOMIC_RELAXED);
            if (done_after != done_before) {
                ++during;
            }
            if (rc == AWS_OP_SUCCESS) {
                break;
            }
            if (!UNDER_TSAN && done_before == k) {
                /* every published buffer had been completely released before the call started */
                ++empty_checks;
                mon_violation("C15:conc:refused-when-empty", "ring=%zu: nothing outstanding (all %llu released) but %s(min %zu, req %zu) failed",
                              ring, (unsigned long long)k, upto ? "acquire_up_to" : "acquire", minimum, req);
                gave_up = true;
                break;
            }
            ++fails;
            ++spins;
            if (spins > 256) {
                struct timespec ts = {0, (long)(2000 + (spins & 7) * 3000)};
                nanosleep(&ts, NULL);
            } else if (spins > 32) {
                sched_yield();
            }
            if ((spins & 0x3ff) == 0) {
                /* generous per-acquisition watchdog; the clock is first read after 1024 failed attempts */
                struct timespec t1;
                clock_gettime(CLOCK_MONOTONIC, &t1);
                if (spins == 0x400) {
                    t0 = t1;
                }
                if (t1.tv_sec - t0.tv_sec > 40) {
                    mon_violation("C15:conc:no-progress", "ring=%zu: acquire(min %zu, req %zu) of buffer #%llu never succeeded; published=%llu released=%llu",
                                  ring, minimum, req, (unsigned long long)k, (unsigned long long)k,
                                  (unsigned long long)__atomic_load_n(&g.release_done, __ATOMIC_RELAXED));
                    gave_up = true;
                    break;
                }
            }
            if (__atomic_load_n(&g.releaser_failed, __ATOMIC_RELAXED) == 1) {
                gave_up = true;
                break;
            }
        }
        if (gave_up) {
            break;
        }
        uint8_t *p = dest.buffer;
        size_t cap = dest.capacity;
        if (!p || cap > ring || p < g.rb.allocation || p + cap > g.rb.allocation_end) {
            mon_violation("C15:conc:outside-ring", "ring=%zu: buffer [%td,+%zu) lies outside the ring storage", ring, p ? p - g.rb.allocation : -1, cap);
            gave_up = true;
            break;
        }
        if (cap < minimum || cap > req) {
            mon_violation("C15:conc:size", "%s(min %zu, req %zu) returned capacity %zu", upto ? "acquire_up_to" : "acquire", minimum, req, cap);
        }
        if (cap < req) {
            ++partial;
        }
        /* buffers with index >= rs had not begun to be released when this read happened, i.e. certainly while
         * the acquire above executed: the new buffer must not overlap any of them */
        uint64_t rs = __atomic_load_n(&g.release_started, BACK_ORDER_LOAD);
        for (uint64_t j = rs; j < k; ++j) {
            struct desc *d = &g.descs[j];
            if (p < d->ptr + d->cap && d->ptr < p + cap) {
                mon_violation("C15:conc:overlap",
                              "ring=%zu: buffer #%llu [%td,+%zu) overlaps buffer #%llu [%td,+%zu) whose release had not started (release_started=%llu)", ring,
                              (unsigned long long)k, p - g.rb.allocation, cap, (unsigned long long)j, d->ptr - g.rb.allocation, d->cap,
                              (unsigned long long)rs);
                gave_up = true;
                break;
            }
        }
        if (rs < k && p == g.rb.allocation) {
            ++wrapped;
        }
        if (rs == k) {
            ++reset;
        }
        for (size_t i = 0; i < cap; ++i) {
            p[i] = pat(k, i);
        }
        g.descs[k].ptr = p;
        g.descs[k].cap = cap;
        __atomic_store_n(&g.published, k + 1, __ATOMIC_RELEASE);
    }
    if (gave_up) {
        __atomic_store_n(&g.releaser_failed, 2, __ATOMIC_RELAXED);
    }
    pthread_join(rel, NULL);
    perturb_end();
    if (!gave_up) {
        MON_CHECK(aws_ring_buffer_is_valid(&g.rb), "C15:conc:is-valid", "ring invalid at quiescent point");
        struct aws_byte_buf full;
        AWS_ZERO_STRUCT(full);
        if (aws_ring_buffer_acquire(&g.rb, ring, &full) != AWS_OP_SUCCESS) {
            mon_violation("C15:conc:full-after-drain", "ring=%zu: after all %llu releases acquire(%zu) failed", ring, (unsigned long long)n_total, ring);
        } else {
            mon_flag(F_FULL_AFTER_DRAIN);
            aws_ring_buffer_release(&g.rb, &full);
        }
    }
    if (during) {
        mon_flag(F_RELEASE_DURING_ACQUIRE);
    }
    if (fails) {
        mon_flag(F_ACQUIRER_WAITED);
    }
    if (g.releaser_waits) {
        mon_flag(F_RELEASER_WAITED);
    }
    if (wrapped) {
        mon_flag(F_WRAPPED_ACQ);
    }
    if (reset) {
        mon_flag(F_RESET_ACQ);
    }
    if (partial) {
        mon_flag(F_UPTO_PARTIAL);
    }
    mon_fp(perturb_signature());
    mon_distinct("interleaving_signatures", perturb_signature());

    mon_count("conc_acquisitions", n_total);
    mon_count("conc_acquire_retries_ring_full", fails);
    mon_count("conc_releases_completed_during_an_acquire_call", during);
    mon_count("conc_acquisitions_wrapped_to_start_with_outstanding", wrapped);
    mon_count("conc_acquisitions_with_nothing_outstanding", reset);
    mon_count("conc_upto_partial_grants", partial);
    mon_count("sched_points", perturb_points());
    mon_count("sched_points_atomic_load", perturb_points_kind(PK_LOAD));
    mon_count("sched_points_atomic_store", perturb_points_kind(PK_STORE));
    mon_count("sched_delays_injected", perturb_delays());
    mon_count("thread_switches_in_trace_prefix", perturb_switches());
    mon_sample("ring=%zu n=%llu profile=%s lag=%llu retries=%llu during=%llu wrapped=%llu reset=%llu sig=%016llx", ring,
               (unsigned long long)n_total, perturb_profile_name(prof_idx), (unsigned long long)g.lag_profile, (unsigned long long)fails,
               (unsigned long long)during, (unsigned long long)wrapped, (unsigned long long)reset, (unsigned long long)perturb_signature());
    aws_ring_buffer_clean_up(&g.rb);
    free(g.descs);
    (void)case_idx;
}

int main(int argc, char **argv) {
    mon_init(argc, argv, "C15");
    aws_common_library_init(aws_default_allocator());
    static const char *names[] = {"acquire_wrapped_to_start", "acquire_with_nothing_outstanding", "up_to_partial_grant", "failure_while_fragmented",
                                  "full_capacity_after_drain", "exact_full_ring_acquired", "space_before_tail_used", "oversize_refused",
                                  "release_completed_during_acquire", "acquirer_waited_for_space", "releaser_waited_for_data", "ring_drained_mid_history",
                                  "up_to_request_far_beyond_ring_incl_SIZE_MAX", "ring_of_4GiB_or_more",
                                  "up_to_minimum_above_ring_size_refused"};
    for (int i = 0; i < (int)(sizeof(names) / sizeof(names[0])); ++i) {
        mon_flag_name(i, names[i]);
    }
    bool conc = !strcmp(mon_run.mode, "conc");
    uint64_t c;
    while (mon_next_case(&c)) {
        mon_case_begin(c);
        if (conc) {
            conc_case(c);
        } else {
            if (c % 64 == 63) {
                huge_case();
            } else {
                seq_case();
            }
        }
        mon_case_end(mon_flag_count() >= 3);
    }
    return mon_finish();
}
