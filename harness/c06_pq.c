/*
 * C06 - priority queue: reference multiset + handle<->slot bijection + heap order,
 * checked after EVERY operation (DESIGN.md section 5, C06).
 */
#include "mon.h"
#include <limits.h>

#include <aws/common/common.h>
#include <aws/common/error.h>
#include <aws/common/priority_queue.h>

#include <stdlib.h>

#define MAX_ELEMS 400
#define MAX_HANDLES 96
#define MAX_ITEM 300

enum { F_LATE_HANDLES, F_SLICED, F_REMOVE_MIDDLE, F_DEAD_REFUSED, F_STATIC_FULL, F_GREW, F_CLEAR_LIVE, F_DUP_MIN,
       F_STATIC_HANDLE_REFUSED, F_REMOVE_ROOT, F_REMOVE_LAST, F_EMPTY_POP, F_CMP_THREE_WAY, F_CMP_BOOLEAN, F_CMP_DIFFERENCE,
       F_CMP_EXTREMES, F_REMOVE_BY_COPY, F_GIANT_QUEUE };

struct elem {
    uint8_t bytes[MAX_ITEM];
    int handle; /* index into handles or -1 */
};

struct handle {
    struct aws_priority_queue_node node;
    int state; /* 0 initialised never used, 1 live, 2 dead */
    uint8_t bytes[MAX_ITEM];
};

static struct elem s_model[MAX_ELEMS];
static size_t s_n;
static struct handle s_handles[MAX_HANDLES];
static size_t s_item;
static uint64_t s_next_id;
static struct aws_priority_queue s_q;
static bool s_static;
static size_t s_static_cap;
static void *s_static_store;

static int s_cmp(const void *a, const void *b) {
    uint8_t ka = *(const uint8_t *)a, kb = *(const uint8_t *)b;
    return (ka > kb) - (ka < kb);
}

/* The comparator handed to the library. priority_queue.h: "should return a positive value if the second argument has a
 * higher priority than the first; otherwise a negative value or zero", with `return a > b;` as its min-heap example.
 * All four styles order the keys identically; only sign conventions and magnitudes of the results differ. */
enum { CMP_THREE_WAY, CMP_BOOLEAN, CMP_DIFFERENCE_SCALED, CMP_EXTREMES, CMP_NSTYLES };
static int s_cmp_style;
static int s_cmp_lib(const void *a, const void *b) {
    uint8_t ka = *(const uint8_t *)a, kb = *(const uint8_t *)b;
    switch (s_cmp_style) {
        case CMP_BOOLEAN:
            return ka > kb;
        case CMP_DIFFERENCE_SCALED:
            return ((int)ka - (int)kb) * 4000037;
        case CMP_EXTREMES:
            return ka > kb ? INT_MAX : ka < kb ? INT_MIN : 0;
        default:
            return (ka > kb) - (ka < kb);
    }
}

static void make_item(struct mon_rng *r, uint8_t *out) {
    uint64_t id = s_next_id++;
    out[0] = (uint8_t)mon_below(r, 8);
    for (size_t i = 1; i < s_item; ++i) {
        if (i <= 8) {
            out[i] = (uint8_t)(id >> (8 * (i - 1)));
        } else {
            out[i] = (uint8_t)(id * 31 + i * 17 + (i >> 3));
        }
    }
}

static uint8_t model_min_key(void) {
    uint8_t m = 255;
    for (size_t i = 0; i < s_n; ++i) {
        if (s_model[i].bytes[0] < m) {
            m = s_model[i].bytes[0];
        }
    }
    return m;
}

static void model_remove_at(size_t i) {
    s_model[i] = s_model[s_n - 1];
    --s_n;
}

static const char *s_op = "";

static void check_all(void) {
    size_t sz = aws_priority_queue_size(&s_q);
    MON_CHECK(sz == s_n, "C06:size", "after %s: size %zu, reference %zu", s_op, sz, s_n);
    MON_CHECK(aws_priority_queue_is_valid(&s_q), "C06:is-valid", "after %s: aws_priority_queue_is_valid false", s_op);
    MON_CHECK(s_q.container.length == sz, "C06:size", "container.length %zu != size %zu", s_q.container.length, sz);
    size_t cap = aws_priority_queue_capacity(&s_q);
    MON_CHECK(cap >= sz, "C06:capacity", "after %s: capacity %zu < size %zu", s_op, cap, sz);
    if (s_static) {
        MON_CHECK(cap == s_static_cap, "C06:static-capacity", "static capacity changed: %zu != %zu", cap, s_static_cap);
        MON_CHECK(s_q.container.data == s_static_store, "C06:static-storage", "static queue storage pointer changed");
        MON_CHECK(mon_fence_check(s_static_store) == 0, "C06:static-canary", "after %s: canary next to static storage damaged", s_op);
    }
    if (sz != s_n) {
        return;
    }
    const uint8_t *data = s_q.container.data;
    /* multiset equality: every stored element is byte-equal to a distinct model element */
    bool used[MAX_ELEMS];
    memset(used, 0, sizeof(used));
    for (size_t i = 0; i < sz; ++i) {
        const uint8_t *e = data + i * s_item;
        bool found = false;
        for (size_t j = 0; j < s_n; ++j) {
            if (!used[j] && !memcmp(s_model[j].bytes, e, s_item)) {
                used[j] = true;
                found = true;
                break;
            }
        }
        if (!found) {
            mon_violation("C06:contents", "after %s: slot %zu holds %s which is not in the reference multiset", s_op, i,
                          mon_hex(e, s_item, 24));
            return;
        }
    }
    /* heap order */
    for (size_t i = 1; i < sz; ++i) {
        size_t p = (i - 1) / 2;
        if (s_cmp(data + p * s_item, data + i * s_item) > 0) {
            mon_violation("C06:heap-order", "after %s: parent slot %zu key %u > child slot %zu key %u", s_op, p,
                          data[p * s_item], i, data[i * s_item]);
            break;
        }
    }
    /* handles */
    size_t live = 0;
    bool any_used = false;
    for (size_t h = 0; h < MAX_HANDLES; ++h) {
        struct handle *hd = &s_handles[h];
        if (hd->state == 1) {
            ++live;
            any_used = true;
            size_t ix = hd->node.current_index;
            if (ix >= sz) {
                mon_violation("C06:handle-index", "after %s: live handle %zu has index %zu >= size %zu", s_op, h, ix, sz);
                continue;
            }
            MON_CHECK(aws_priority_queue_node_is_in_queue(&hd->node), "C06:handle-index", "live handle %zu reported not in queue", h);
            if (memcmp(data + ix * s_item, hd->bytes, s_item)) {
                mon_violation("C06:handle-element", "after %s: handle %zu indexes slot %zu holding %s, its element is %s", s_op,
                              h, ix, mon_hex(data + ix * s_item, s_item, 16), mon_hex(hd->bytes, s_item, 16));
            }
            if (s_q.backpointers.data && ix < s_q.backpointers.length) {
                struct aws_priority_queue_node *bp = ((struct aws_priority_queue_node **)s_q.backpointers.data)[ix];
                MON_CHECK(bp == &hd->node, "C06:backpointer", "after %s: backpointers[%zu] does not point at handle %zu", s_op, ix, h);
            } else {
                mon_violation("C06:backpointer", "after %s: live handle %zu but no backpointer slot %zu", s_op, h, ix);
            }
        } else {
            if (hd->state == 2) {
                any_used = true;
            }
            if (hd->node.current_index != SIZE_MAX) {
                mon_violation("C06:dead-handle-mark", "after %s: handle %zu (state %d) has index %zu, expected SIZE_MAX", s_op, h,
                              hd->state, hd->node.current_index);
            }
            MON_CHECK(!aws_priority_queue_node_is_in_queue(&hd->node) || hd->node.current_index != SIZE_MAX,
                      "C06:dead-handle-mark", "dead handle %zu reported in queue", h);
        }
    }
    if (s_q.backpointers.data) {
        MON_CHECK(s_q.backpointers.length == sz, "C06:backpointer-length", "after %s: backpointers.length %zu != size %zu", s_op,
                  s_q.backpointers.length, sz);
        size_t nonnull = 0;
        for (size_t i = 0; i < s_q.backpointers.length && i < sz; ++i) {
            struct aws_priority_queue_node *bp = ((struct aws_priority_queue_node **)s_q.backpointers.data)[i];
            if (bp) {
                ++nonnull;
                MON_CHECK(bp->current_index == i, "C06:backpointer", "after %s: backpointers[%zu]->current_index = %zu", s_op, i,
                          bp->current_index);
            }
        }
        MON_CHECK(nonnull == live, "C06:backpointer", "after %s: %zu non-NULL backpointers, %zu live handles", s_op, nonnull, live);
    } else {
        MON_CHECK(live == 0, "C06:backpointer", "after %s: live handles but no backpointer array", s_op);
    }
    (void)any_used;
}

static void snapshot(uint8_t **snap, size_t *len) {
    *len = s_q.container.length * s_item;
    *snap = malloc(*len + 1);
    if (*len) {
        memcpy(*snap, s_q.container.data, *len);
    }
}

static void expect_unchanged(uint8_t *snap, size_t len, const char *what) {
    size_t now = s_q.container.length * s_item;
    if (now != len || (len && memcmp(snap, s_q.container.data, len))) {
        mon_violation("C06:failed-op-changed-queue", "%s failed but the queue contents changed (len %zu -> %zu bytes)", what,
                      len, now);
    }
    free(snap);
}

static void run_case(uint64_t case_idx) {
    struct mon_rng *r = &mon_case_rng;
    static const size_t sizes[] = {1, 2, 8, 16, 100, 127, 128, 129, 200, 256, 300, 9, 24};
    s_item = sizes[mon_below(r, sizeof(sizes) / sizeof(sizes[0]))];
    s_static = mon_chance(r, 1, 4);
    s_n = 0;
    s_next_id = case_idx * 1000003ULL;
    s_static_store = NULL;
    struct aws_allocator *alloc = mon_guard_allocator();
    struct mon_alloc_stats st0;
    mon_guard_stats(&st0);
    for (size_t h = 0; h < MAX_HANDLES; ++h) {
        aws_priority_queue_node_init(&s_handles[h].node);
        s_handles[h].state = 0;
    }
    mon_fp(s_item);
    mon_fp(s_static);
    s_cmp_style = (int)mon_below(r, CMP_NSTYLES);
    mon_fp((uint64_t)s_cmp_style);
    mon_flag(F_CMP_THREE_WAY + s_cmp_style);
    size_t init_cap = 0;
    if (s_static) {
        s_static_cap = 1 + (size_t)mon_below(r, 16);
        s_static_store = mon_fence_new(s_static_cap * s_item);
        aws_priority_queue_init_static(&s_q, s_static_store, s_static_cap, s_item, s_cmp_lib);
        init_cap = s_static_cap;
    } else {
        init_cap = (size_t)mon_below(r, 9);
        if (aws_priority_queue_init_dynamic(&s_q, alloc, init_cap, s_item, s_cmp_lib)) {
            mon_violation("C06:init", "init_dynamic(%zu,%zu) failed", init_cap, s_item);
            return;
        }
    }
    mon_fp(init_cap);
    mon_sample("item_size=%zu %s cap=%zu:", s_item, s_static ? "static" : "dynamic", init_cap);
    if (s_item > 128) {
        mon_flag(F_SLICED);
    }
    s_op = "init";
    check_all();
    size_t nops = 10 + (size_t)mon_below(r, 291);
    /* phases bias the op mix so queues get both large and drained */
    for (size_t op = 0; op < nops && mon_violations() < 5; ++op) {
        if (mon_chance(r, 1, 3)) {
            mon_poison_last_error(r);
        }
        unsigned phase = (unsigned)((op * 4) / nops);
        unsigned pick = (unsigned)mon_below(r, 100);
        unsigned push_w = (phase == 0 || phase == 2) ? 55 : 25;
        size_t cap_before = aws_priority_queue_capacity(&s_q);
        uint8_t item[MAX_ITEM];
        if (pick < push_w) {
            bool with_handle = mon_chance(r, 1, 2);
            int hidx = -1;
            if (with_handle) {
                size_t startx = (size_t)mon_below(r, MAX_HANDLES);
                for (size_t k = 0; k < MAX_HANDLES; ++k) {
                    size_t h = (startx + k) % MAX_HANDLES;
                    if (s_handles[h].state != 1) {
                        hidx = (int)h;
                        break;
                    }
                }
                if (hidx < 0) {
                    with_handle = false;
                }
            }
            make_item(r, item);
            mon_fp(1 + with_handle);
            mon_fp(item[0]);
            uint8_t *snap;
            size_t snaplen;
            snapshot(&snap, &snaplen);
            bool had_bp = s_q.backpointers.data != NULL;
            mon_poison_last_error(&mon_case_rng);
            int rc;
            if (with_handle) {
                s_op = "push_ref";
                rc = aws_priority_queue_push_ref(&s_q, item, &s_handles[hidx].node);
            } else if (mon_chance(r, 1, 2)) {
                s_op = "push";
                rc = aws_priority_queue_push(&s_q, item);
            } else {
                s_op = "push_ref(NULL)";
                rc = aws_priority_queue_push_ref(&s_q, item, NULL);
            }
            mon_sample(" %s(k%u)%s", s_op, item[0], rc ? "=ERR" : "");
            bool must_fail = false;
            if (s_static && with_handle) {
                must_fail = true; /* handle array cannot be allocated for caller-provided storage */
                mon_flag(F_STATIC_HANDLE_REFUSED);
            }
            if (s_static && s_n >= s_static_cap) {
                must_fail = true;
                mon_flag(F_STATIC_FULL);
            }
            if (s_n >= MAX_ELEMS - 1 && rc == AWS_OP_SUCCESS) {
                /* model full: undo by not tracking - cannot happen with nops<=300 */
            }
            if (must_fail) {
                if (rc == AWS_OP_SUCCESS) {
                    mon_violation("C06:static-push-accepted", "%s on static queue (size %zu cap %zu, handle=%d) succeeded", s_op,
                                  s_n, s_static_cap, with_handle);
                    free(snap);
                    /* keep the model in step so later checks stay meaningful */
                    memcpy(s_model[s_n].bytes, item, s_item);
                    s_model[s_n].handle = with_handle ? hidx : -1;
                    if (with_handle) {
                        s_handles[hidx].state = 1;
                        memcpy(s_handles[hidx].bytes, item, s_item);
                    }
                    ++s_n;
                } else {
                    expect_unchanged(snap, snaplen, s_op);
                    if (s_static && with_handle && s_n < s_static_cap) {
                        MON_CHECK(aws_last_error() == AWS_ERROR_UNSUPPORTED_OPERATION, "C06:error-code",
                                  "push_ref with handle on static queue: error %d", aws_last_error());
                    }
                }
            } else {
                free(snap);
                if (rc != AWS_OP_SUCCESS) {
                    mon_violation("C06:push-failed", "%s failed (error %d) with size %zu", s_op, aws_last_error(), s_n);
                } else {
                    memcpy(s_model[s_n].bytes, item, s_item);
                    s_model[s_n].handle = with_handle ? hidx : -1;
                    if (with_handle) {
                        s_handles[hidx].state = 1;
                        memcpy(s_handles[hidx].bytes, item, s_item);
                        if (!had_bp && s_n > 0) {
                            mon_flag(F_LATE_HANDLES);
                        }
                    }
                    ++s_n;
                }
            }
        } else if (pick < push_w + 20) {
            s_op = "pop";
            mon_fp(3);
            uint8_t out[MAX_ITEM];
            memset(out, 0xEE, sizeof(out));
            mon_poison_last_error(&mon_case_rng);
            int rc = aws_priority_queue_pop(&s_q, out);
            mon_sample(" pop%s", rc ? "=ERR" : "");
            if (s_n == 0) {
                mon_flag(F_EMPTY_POP);
                MON_CHECK(rc != AWS_OP_SUCCESS && aws_last_error() == AWS_ERROR_PRIORITY_QUEUE_EMPTY, "C06:empty-pop",
                          "pop on empty queue: rc %d error %d", rc, aws_last_error());
            } else if (rc != AWS_OP_SUCCESS) {
                mon_violation("C06:pop-failed", "pop failed with %zu elements (error %d)", s_n, aws_last_error());
            } else {
                uint8_t mk = model_min_key();
                size_t dups = 0;
                for (size_t j = 0; j < s_n; ++j) {
                    dups += s_model[j].bytes[0] == mk;
                }
                if (dups > 1) {
                    mon_flag(F_DUP_MIN);
                }
                if (out[0] != mk) {
                    mon_violation("C06:pop-not-min", "pop returned key %u, minimum stored key is %u (size %zu)", out[0], mk, s_n);
                }
                /* identify which element left */
                int victim = -1, dead_handled = 0;
                for (size_t j = 0; j < s_n; ++j) {
                    if (memcmp(s_model[j].bytes, out, s_item)) {
                        continue;
                    }
                    if (s_model[j].handle >= 0) {
                        if (s_handles[s_model[j].handle].node.current_index == SIZE_MAX) {
                            victim = (int)j;
                            ++dead_handled;
                        }
                    }
                }
                if (dead_handled > 1) {
                    mon_violation("C06:pop-handles", "pop marked %d handles as removed", dead_handled);
                }
                if (victim < 0) {
                    for (size_t j = 0; j < s_n; ++j) {
                        if (!memcmp(s_model[j].bytes, out, s_item) && s_model[j].handle < 0) {
                            victim = (int)j;
                            break;
                        }
                    }
                }
                if (victim < 0) {
                    bool present = false;
                    for (size_t j = 0; j < s_n; ++j) {
                        present |= !memcmp(s_model[j].bytes, out, s_item);
                    }
                    if (present) {
                        mon_violation("C06:pop-handle-not-invalidated",
                                      "pop returned an element whose handle is still marked in-queue (element %s)",
                                      mon_hex(out, s_item, 16));
                        for (size_t j = 0; j < s_n; ++j) {
                            if (!memcmp(s_model[j].bytes, out, s_item)) {
                                victim = (int)j;
                                break;
                            }
                        }
                    } else {
                        mon_violation("C06:pop-unknown-element", "pop returned %s which was never stored", mon_hex(out, s_item, 24));
                    }
                }
                if (victim >= 0) {
                    if (s_model[victim].handle >= 0) {
                        s_handles[s_model[victim].handle].state = 2;
                    }
                    model_remove_at((size_t)victim);
                }
            }
        } else if (pick < push_w + 27) {
            s_op = "top";
            mon_fp(4);
            void *top = NULL;
            mon_poison_last_error(&mon_case_rng);
            int rc = aws_priority_queue_top(&s_q, &top);
            if (s_n == 0) {
                MON_CHECK(rc != AWS_OP_SUCCESS && aws_last_error() == AWS_ERROR_PRIORITY_QUEUE_EMPTY, "C06:empty-top",
                          "top on empty queue: rc %d error %d", rc, aws_last_error());
            } else if (rc != AWS_OP_SUCCESS || !top) {
                mon_violation("C06:top-failed", "top failed with %zu elements", s_n);
            } else {
                uint8_t mk = model_min_key();
                MON_CHECK(*(uint8_t *)top == mk, "C06:top-not-min", "top has key %u, minimum is %u", *(uint8_t *)top, mk);
                bool present = false;
                for (size_t j = 0; j < s_n; ++j) {
                    present |= !memcmp(s_model[j].bytes, top, s_item);
                }
                MON_CHECK(present, "C06:top-unknown-element", "top points at bytes that were never stored");
            }
        } else if (pick < push_w + 42) {
            /* remove by handle */
            size_t h = (size_t)mon_below(r, MAX_HANDLES);
            if (mon_chance(r, 3, 4)) {
                size_t startx = h;
                for (size_t k = 0; k < MAX_HANDLES; ++k) {
                    size_t hh = (startx + k) % MAX_HANDLES;
                    if (s_handles[hh].state == 1) {
                        h = hh;
                        break;
                    }
                }
            }
            struct handle *hd = &s_handles[h];
            uint8_t out[MAX_ITEM];
            memset(out, 0xEE, sizeof(out));
            mon_fp(5 + (uint64_t)hd->state);
            uint8_t *snap;
            size_t snaplen;
            snapshot(&snap, &snaplen);
            size_t ix_before = hd->node.current_index;
            mon_poison_last_error(&mon_case_rng);
            s_op = "remove";
            /* the parameter is a pointer to const: a by-value copy of the handle names the same element; the handle
             * registered at push time is the one that must end up marked */
            const struct aws_priority_queue_node node_copy = hd->node;
            bool by_copy = mon_below(&mon_case_rng, 4) == 0;
            int rc = aws_priority_queue_remove(&s_q, out, by_copy ? &node_copy : &hd->node);
            mon_sample(" remove(h%zu:%s%s)%s", h, hd->state == 1 ? "live" : "dead", by_copy ? ",copy" : "", rc ? "=ERR" : "");
            if (by_copy) {
                mon_flag(F_REMOVE_BY_COPY);
                MON_CHECK(node_copy.current_index == ix_before, "C06:const-handle-written",
                          "remove wrote through its pointer-to-const handle argument (index %zu -> %zu)", ix_before, node_copy.current_index);
            }
            if (hd->state == 1) {
                free(snap);
                if (rc != AWS_OP_SUCCESS) {
                    mon_violation("C06:remove-failed", "remove of live handle %zu failed (error %d)", h, aws_last_error());
                } else {
                    if (memcmp(out, hd->bytes, s_item)) {
                        mon_violation("C06:remove-wrong-element", "remove by handle %zu returned %s, handle's element is %s", h,
                                      mon_hex(out, s_item, 16), mon_hex(hd->bytes, s_item, 16));
                    }
                    if (ix_before == 0) {
                        mon_flag(F_REMOVE_ROOT);
                    } else if (ix_before == s_n - 1) {
                        mon_flag(F_REMOVE_LAST);
                    } else {
                        mon_flag(F_REMOVE_MIDDLE);
                    }
                    hd->state = 2;
                    for (size_t j = 0; j < s_n; ++j) {
                        if (s_model[j].handle == (int)h) {
                            model_remove_at(j);
                            break;
                        }
                    }
                }
            } else {
                mon_flag(F_DEAD_REFUSED);
                if (rc == AWS_OP_SUCCESS) {
                    mon_violation("C06:stale-handle-accepted", "remove with a handle that is not in the queue (state %d) succeeded",
                                  hd->state);
                    free(snap);
                    /* resynchronise: drop the element that disappeared */
                    for (size_t j = 0; j < s_n; ++j) {
                        if (!memcmp(s_model[j].bytes, out, s_item)) {
                            if (s_model[j].handle >= 0) {
                                s_handles[s_model[j].handle].state = 2;
                            }
                            model_remove_at(j);
                            break;
                        }
                    }
                } else {
                    MON_CHECK(aws_last_error() == AWS_ERROR_PRIORITY_QUEUE_BAD_NODE, "C06:error-code",
                              "stale-handle remove: error %d, expected BAD_NODE", aws_last_error());
                    expect_unchanged(snap, snaplen, "remove(stale handle)");
                }
            }
        } else if (pick < push_w + 44) {
            s_op = "clear";
            mon_fp(9);
            mon_sample(" clear");
            for (size_t h = 0; h < MAX_HANDLES; ++h) {
                if (s_handles[h].state == 1) {
                    mon_flag(F_CLEAR_LIVE);
                    s_handles[h].state = 2;
                }
            }
            aws_priority_queue_clear(&s_q);
            s_n = 0;
        } else {
            s_op = "size";
            mon_fp(10);
        }
        if (!s_static && aws_priority_queue_capacity(&s_q) != cap_before) {
            mon_flag(F_GREW);
        }
        check_all();
    }
    mon_count("ops", nops);
    aws_priority_queue_clean_up(&s_q);
    if (s_static_store) {
        MON_CHECK(mon_fence_check(s_static_store) == 0, "C06:static-canary", "canary damaged at end of case");
        mon_fence_free(s_static_store);
    }
    struct mon_alloc_stats st1;
    mon_guard_stats(&st1);
    MON_CHECK(st1.live_blocks == st0.live_blocks, "C06:leak", "allocator imbalance after clean_up: %llu live blocks",
              (unsigned long long)(st1.live_blocks - st0.live_blocks));
}

/* ------------------------------------------------------------------ a queue of more than 2^31 one-byte elements
 * (once per -O2 stage run; static queue over address space the harness reserves, 2 GiB of it get touched). 2^31-1 equal
 * elements are pushed through the API (each stays where it lands), then 2, 1 and 9; one pop sends the 9 from the root down to
 * slot 2^31, where index arithmetic must not wrap. Afterwards heap order is checked over the whole array and the next pops
 * must be 0, and - once the zeros are gone - would be 1, 2, 9 (checked directly on the array instead of popping 2^31 times). */
#ifndef DEBUG_BUILD
#    include <sys/mman.h>
static int giant_cmp(const void *a, const void *b) {
    return (int)*(const uint8_t *)a - (int)*(const uint8_t *)b;
}
static void giant_case(void) {
    const size_t zeros = ((size_t)1 << 31) - 1, cap = zeros + 64;
    mon_fp(0x61A9);
    uint8_t *heap = mmap(NULL, cap, PROT_READ | PROT_WRITE, MAP_PRIVATE | MAP_ANONYMOUS | MAP_NORESERVE, -1, 0);
    if (heap == MAP_FAILED) {
        mon_count("giant_queue_skipped_no_address_space", 1);
        return;
    }
    struct aws_priority_queue q;
    aws_priority_queue_init_static(&q, heap, cap, 1, giant_cmp);
    uint8_t v = 0;
    bool ok = true;
    for (size_t i = 0; i < zeros && ok; ++i) {
        ok = aws_priority_queue_push(&q, &v) == AWS_OP_SUCCESS;
    }
    static const uint8_t TAIL[3] = {2, 1, 9};
    for (int i = 0; i < 3 && ok; ++i) {
        ok = aws_priority_queue_push(&q, &TAIL[i]) == AWS_OP_SUCCESS;
    }
    if (!ok) {
        mon_violation("C06:giant:push-failed", "push into a static queue of capacity %zu failed at size %zu (error %d)", cap, aws_priority_queue_size(&q), aws_last_error());
    } else {
        uint8_t out = 0xFF;
        if (aws_priority_queue_pop(&q, &out) || out != 0 || aws_priority_queue_size(&q) != zeros + 2) {
            mon_violation("C06:giant:pop", "pop from a queue of %zu elements (minimum 0) returned %u, size now %zu", zeros + 3, out, aws_priority_queue_size(&q));
        } else {
            size_t n = zeros + 2, cnt[3] = {0, 0, 0};
            for (size_t i = 1; i < n; ++i) {
                if (heap[i] < heap[(i - 1) / 2]) {
                    mon_violation("C06:giant:heap-order", "after one pop on a queue of %zu one-byte elements: slot %zu holds %u under parent slot %zu holding %u", zeros + 3, i,
                                  heap[i], (i - 1) / 2, heap[(i - 1) / 2]);
                    break;
                }
            }
            size_t other = 0;
            for (size_t i = 0; i < n; ++i) {
                if (heap[i]) {
                    cnt[0] += heap[i] == 1;
                    cnt[1] += heap[i] == 2;
                    cnt[2] += heap[i] == 9;
                    other += heap[i] != 1 && heap[i] != 2 && heap[i] != 9;
                }
            }
            if (cnt[0] != 1 || cnt[1] != 1 || cnt[2] != 1 || other) {
                mon_violation("C06:giant:contents", "after one pop on a queue of %zu elements the array holds %zu x 1, %zu x 2, %zu x 9 and %zu other non-zero elements (expected one each, no others)",
                              zeros + 3, cnt[0], cnt[1], cnt[2], other);
            }
            for (int k = 0; k < 3; ++k) {
                if (aws_priority_queue_pop(&q, &out) || out != 0) {
                    mon_violation("C06:giant:pop", "pop %d after the first returned %u from a queue whose minimum is 0", k + 2, out);
                    break;
                }
            }
        }
    }
    aws_priority_queue_clean_up(&q);
    munmap(heap, cap);
    mon_flag(F_GIANT_QUEUE);
    mon_count("queues_of_more_than_2_pow_31_elements", 1);
}
#endif

int main(int argc, char **argv) {
    mon_init(argc, argv, "C06");
    aws_common_library_init(aws_default_allocator());
    static const char *names[] = {"handle_array_created_late", "sliced_swap_item_gt_128", "remove_middle", "dead_handle_refused",
                                  "static_full_refused", "dynamic_growth", "clear_with_live_handles", "duplicate_min_keys",
                                  "static_handle_refused", "remove_root", "remove_last", "pop_on_empty", "comparator_three_way",
                                  "comparator_boolean_a_gt_b", "comparator_scaled_difference", "comparator_INT_MIN_INT_MAX",
                                  "remove_by_copied_handle", "queue_of_more_than_2_pow_31_elements"};
    for (int i = 0; i < (int)(sizeof(names) / sizeof(names[0])); ++i) {
        mon_flag_name(i, names[i]);
    }
    uint64_t c;
    while (mon_next_case(&c)) {
        mon_case_begin(c);
#ifndef DEBUG_BUILD
        if (c == 333) { /* once per -O2 stage run */
            giant_case();
            mon_case_end(true);
            continue;
        }
#endif
        run_case(c);
        mon_case_end(mon_flag_count() >= 4);
    }
    return mon_finish();
}
